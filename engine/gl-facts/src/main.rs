// gl-facts: rustc_private fact extractor for the garble-lang static checks.
//
// Runs as RUSTC_WORKSPACE_WRAPPER under `cargo +nightly check`; for the crate named by
// GL_FACTS_CRATE (default garble_lang) it writes one JSON document with the resolved MIR of every
// body, the resolved HIR expression tree of every body and the ADT table into the directory
// GL_FACTS_OUT (one file per compiler process, one write per process).
#![feature(rustc_private)]
#![allow(clippy::all)]

extern crate rustc_abi;
extern crate rustc_driver;
extern crate rustc_hir;
extern crate rustc_interface;
extern crate rustc_middle;
extern crate rustc_span;

mod json;
use json::J;

use rustc_driver::{Callbacks, Compilation};
use rustc_hir as hir;
use rustc_hir::def::{DefKind, Res};
use rustc_hir::def_id::{DefId, LocalDefId};
use rustc_middle::mir;
use rustc_middle::ty::print::with_no_trimmed_paths;
use rustc_middle::ty::{self, Instance, Ty, TyCtxt, TypingEnv};
use rustc_span::Span;

struct Cb {
    target: String,
    out_dir: String,
}

fn s<T: Into<String>>(x: T) -> J {
    J::S(x.into())
}

fn ty_str<'tcx>(t: Ty<'tcx>) -> String {
    with_no_trimmed_paths!(format!("{}", t))
}

fn path_str(tcx: TyCtxt<'_>, d: DefId) -> String {
    with_no_trimmed_paths!(tcx.def_path_str(d))
}

fn span_j(tcx: TyCtxt<'_>, sp: Span) -> J {
    let sm = tcx.sess.source_map();
    let cs = sp.source_callsite();
    let lo = sm.lookup_char_pos(cs.lo());
    let hi = sm.lookup_char_pos(cs.hi());
    let file = match &lo.file.name {
        rustc_span::FileName::Real(r) => match r.local_path() {
            Some(p) => p.to_string_lossy().to_string(),
            None => format!("{:?}", lo.file.name),
        },
        other => format!("{:?}", other),
    };
    let mut exp = vec![];
    if sp.from_expansion() {
        for e in sp.macro_backtrace() {
            let name = match e.kind {
                rustc_span::ExpnKind::Macro(_, n) => n.to_string(),
                rustc_span::ExpnKind::Desugaring(k) => format!("desugar:{}", k.descr()),
                rustc_span::ExpnKind::AstPass(_) => "astpass".to_string(),
                rustc_span::ExpnKind::Root => "root".to_string(),
            };
            exp.push(s(name));
        }
    }
    J::A(vec![
        s(file),
        J::I(lo.line as i128),
        J::I(lo.col.0 as i128 + 1),
        J::I(hi.line as i128),
        J::I(hi.col.0 as i128 + 1),
        J::A(exp),
    ])
}

// ---------------------------------------------------------------------------------------------
// MIR
// ---------------------------------------------------------------------------------------------

struct MirCx<'a, 'tcx> {
    tcx: TyCtxt<'tcx>,
    body: &'a mir::Body<'tcx>,
    did: DefId,
}

impl<'a, 'tcx> MirCx<'a, 'tcx> {
    fn place(&self, p: &mir::Place<'tcx>) -> J {
        let tcx = self.tcx;
        let mut proj = vec![];
        let mut pty = mir::PlaceTy::from_ty(self.body.local_decls[p.local].ty);
        for elem in p.projection.iter() {
            let j = match elem {
                mir::ProjectionElem::Deref => J::O(vec![("k", s("deref"))]),
                mir::ProjectionElem::Field(f, _) => {
                    let mut name = format!("{}", f.index());
                    if let ty::Adt(adt, _) = pty.ty.kind() {
                        let vidx = pty.variant_index.unwrap_or(rustc_abi::FIRST_VARIANT);
                        if adt.is_enum() || adt.is_struct() || adt.is_union() {
                            if let Some(v) = adt.variants().get(vidx) {
                                if let Some(fd) = v.fields.get(f) {
                                    name = fd.name.to_string();
                                }
                            }
                        }
                    }
                    J::O(vec![
                        ("k", s("field")),
                        ("i", J::I(f.index() as i128)),
                        ("name", s(name)),
                    ])
                }
                mir::ProjectionElem::Downcast(sym, vidx) => {
                    let mut name = sym.map(|x| x.to_string()).unwrap_or_default();
                    if let ty::Adt(adt, _) = pty.ty.kind() {
                        if adt.is_enum() {
                            name = adt.variant(vidx).name.to_string();
                        }
                    }
                    J::O(vec![
                        ("k", s("downcast")),
                        ("variant", s(name)),
                        ("vi", J::I(vidx.index() as i128)),
                    ])
                }
                mir::ProjectionElem::Index(l) => {
                    J::O(vec![("k", s("index")), ("local", J::I(l.index() as i128))])
                }
                mir::ProjectionElem::ConstantIndex {
                    offset,
                    min_length,
                    from_end,
                } => J::O(vec![
                    ("k", s("constindex")),
                    ("offset", J::I(offset as i128)),
                    ("min_length", J::I(min_length as i128)),
                    ("from_end", J::B(from_end)),
                ]),
                mir::ProjectionElem::Subslice { from, to, from_end } => J::O(vec![
                    ("k", s("subslice")),
                    ("from", J::I(from as i128)),
                    ("to", J::I(to as i128)),
                    ("from_end", J::B(from_end)),
                ]),
                other => J::O(vec![("k", s("other")), ("dbg", s(format!("{:?}", other)))]),
            };
            proj.push(j);
            pty = pty.projection_ty(tcx, elem);
        }
        J::O(vec![
            ("l", J::I(p.local.index() as i128)),
            ("p", J::A(proj)),
            ("ty", s(ty_str(pty.ty))),
        ])
    }

    fn konst(&self, c: &mir::ConstOperand<'tcx>) -> J {
        let tcx = self.tcx;
        let cty = c.const_.ty();
        let mut o = vec![("k", s("const")), ("ty", s(ty_str(cty)))];
        match cty.kind() {
            ty::FnDef(d, args) => {
                o.push(("fn", s(path_str(tcx, *d))));
                o.push((
                    "fn_full",
                    s(with_no_trimmed_paths!(tcx.def_path_str_with_args(*d, args))),
                ));
            }
            _ => {
                let env = TypingEnv::post_analysis(tcx, self.did);
                if cty.is_integral() || cty.is_bool() || cty.is_char() {
                    if let Some(si) = c.const_.try_eval_scalar_int(tcx, env) {
                        let size = si.size();
                        let bits = si.to_bits(size);
                        let v: i128 = if cty.is_signed() {
                            size.sign_extend(bits) as i128
                        } else {
                            bits as i128
                        };
                        o.push(("val", J::I(v)));
                    }
                }
                o.push(("repr", s(with_no_trimmed_paths!(format!("{}", c.const_)))));
            }
        }
        J::O(o)
    }

    fn operand(&self, op: &mir::Operand<'tcx>) -> J {
        match op {
            mir::Operand::Copy(p) => J::O(vec![("k", s("copy")), ("place", self.place(p))]),
            mir::Operand::Move(p) => J::O(vec![("k", s("move")), ("place", self.place(p))]),
            mir::Operand::Constant(c) => self.konst(c),
            #[allow(unreachable_patterns)]
            other => J::O(vec![("k", s("otherop")), ("dbg", s(format!("{:?}", other)))]),
        }
    }

    fn rvalue(&self, rv: &mir::Rvalue<'tcx>) -> J {
        let tcx = self.tcx;
        match rv {
            mir::Rvalue::Use(op, ..) => J::O(vec![("k", s("use")), ("op", self.operand(op))]),
            mir::Rvalue::Repeat(op, n) => J::O(vec![
                ("k", s("repeat")),
                ("op", self.operand(op)),
                ("n", s(format!("{}", n))),
            ]),
            mir::Rvalue::Ref(_, bk, p) => J::O(vec![
                ("k", s("ref")),
                ("mut", J::B(matches!(bk, mir::BorrowKind::Mut { .. }))),
                ("place", self.place(p)),
            ]),
            mir::Rvalue::RawPtr(_, p) => J::O(vec![("k", s("rawptr")), ("place", self.place(p))]),
            mir::Rvalue::Cast(kind, op, t) => J::O(vec![
                ("k", s("cast")),
                ("kind", s(format!("{:?}", kind))),
                ("op", self.operand(op)),
                ("ty", s(ty_str(*t))),
            ]),
            mir::Rvalue::BinaryOp(bop, b) => J::O(vec![
                ("k", s("binop")),
                ("op", s(format!("{:?}", bop))),
                ("l", self.operand(&b.0)),
                ("r", self.operand(&b.1)),
            ]),
            mir::Rvalue::UnaryOp(uop, x) => J::O(vec![
                ("k", s("unop")),
                ("op", s(format!("{:?}", uop))),
                ("x", self.operand(x)),
            ]),
            mir::Rvalue::Discriminant(p) => {
                let pty = p.ty(&self.body.local_decls, tcx).ty;
                let mut o = vec![("k", s("discriminant")), ("place", self.place(p))];
                if let ty::Adt(adt, _) = pty.kind() {
                    if adt.is_enum() {
                        o.push(("adt", s(path_str(tcx, adt.did()))));
                        let mut vs = vec![];
                        for (vidx, d) in adt.discriminants(tcx) {
                            vs.push(J::A(vec![
                                J::I(d.val as i128),
                                s(adt.variant(vidx).name.to_string()),
                            ]));
                        }
                        o.push(("variants", J::A(vs)));
                    }
                }
                J::O(o)
            }
            mir::Rvalue::Aggregate(kind, ops) => {
                let mut o = vec![("k", s("aggregate"))];
                match &**kind {
                    mir::AggregateKind::Adt(d, vidx, _, _, _) => {
                        let adt = tcx.adt_def(*d);
                        o.push(("akind", s("adt")));
                        o.push(("adt", s(path_str(tcx, *d))));
                        o.push(("variant", s(adt.variant(*vidx).name.to_string())));
                        let fields: Vec<J> = adt
                            .variant(*vidx)
                            .fields
                            .iter()
                            .map(|f| s(f.name.to_string()))
                            .collect();
                        o.push(("fields", J::A(fields)));
                    }
                    mir::AggregateKind::Tuple => o.push(("akind", s("tuple"))),
                    mir::AggregateKind::Array(_) => o.push(("akind", s("array"))),
                    mir::AggregateKind::Closure(d, _) => {
                        o.push(("akind", s("closure")));
                        o.push(("closure", s(path_str(tcx, *d))));
                    }
                    other => {
                        o.push(("akind", s("other")));
                        o.push(("dbg", s(format!("{:?}", other))));
                    }
                }
                o.push(("ops", J::A(ops.iter().map(|x| self.operand(x)).collect())));
                J::O(o)
            }
            mir::Rvalue::CopyForDeref(p) => {
                J::O(vec![("k", s("copyforderef")), ("place", self.place(p))])
            }
            other => J::O(vec![("k", s("other")), ("dbg", s(format!("{:?}", other)))]),
        }
    }

    fn callee(&self, func: &mir::Operand<'tcx>) -> J {
        let tcx = self.tcx;
        let fty = func.ty(&self.body.local_decls, tcx);
        let mut o = vec![("fty", s(ty_str(fty)))];
        if let ty::FnDef(d, args) = fty.kind() {
            o.push(("declared", s(path_str(tcx, *d))));
            o.push((
                "declared_full",
                s(with_no_trimmed_paths!(tcx.def_path_str_with_args(*d, args))),
            ));
            let substs: Vec<J> = args
                .iter()
                .map(|a| s(with_no_trimmed_paths!(format!("{}", a))))
                .collect();
            o.push(("substs", J::A(substs)));
            let env = TypingEnv::post_analysis(tcx, self.did);
            match Instance::try_resolve(tcx, env, *d, args) {
                Ok(Some(inst)) => {
                    o.push(("resolved", s(path_str(tcx, inst.def_id()))));
                    let ik = match inst.def {
                        ty::InstanceKind::Item(_) => "item",
                        ty::InstanceKind::Virtual(..) => "virtual",
                        ty::InstanceKind::Intrinsic(_) => "intrinsic",
                        ty::InstanceKind::ClosureOnceShim { .. } => "closure_once_shim",
                        ty::InstanceKind::FnPtrShim(..) => "fn_ptr_shim",
                        ty::InstanceKind::CloneShim(..) => "clone_shim",
                        ty::InstanceKind::DropGlue(..) => "drop_glue",
                        _ => "other",
                    };
                    o.push(("ikind", s(ik)));
                    if tcx.is_closure_like(inst.def_id()) {
                        o.push(("closure", J::B(true)));
                    }
                }
                _ => {
                    o.push(("resolved", J::Null));
                }
            }
            if let Some(tr) = tcx.trait_of_assoc(*d) {
                o.push(("trait", s(path_str(tcx, tr))));
            }
            o.push(("local", J::B(d.is_local())));
        } else {
            o.push(("declared", J::Null));
            o.push(("operand", self.operand(func)));
        }
        J::O(o)
    }

    fn bb(&self, b: mir::BasicBlock) -> J {
        J::I(b.index() as i128)
    }

    fn unwind(&self, u: &mir::UnwindAction) -> J {
        match u {
            mir::UnwindAction::Cleanup(b) => self.bb(*b),
            _ => J::Null,
        }
    }

    fn terminator(&self, t: &mir::Terminator<'tcx>) -> J {
        let tcx = self.tcx;
        let sp = ("sp", span_j(tcx, t.source_info.span));
        match &t.kind {
            mir::TerminatorKind::Goto { target } => {
                J::O(vec![("k", s("goto")), ("target", self.bb(*target)), sp])
            }
            mir::TerminatorKind::SwitchInt { discr, targets } => {
                let mut ts = vec![];
                for (v, b) in targets.iter() {
                    ts.push(J::A(vec![J::I(v as i128), self.bb(b)]));
                }
                J::O(vec![
                    ("k", s("switch")),
                    ("discr", self.operand(discr)),
                    ("targets", J::A(ts)),
                    ("otherwise", self.bb(targets.otherwise())),
                    sp,
                ])
            }
            mir::TerminatorKind::Return => J::O(vec![("k", s("return")), sp]),
            mir::TerminatorKind::Unreachable => J::O(vec![("k", s("unreachable")), sp]),
            mir::TerminatorKind::Drop {
                place,
                target,
                unwind,
                ..
            } => J::O(vec![
                ("k", s("drop")),
                ("place", self.place(place)),
                ("target", self.bb(*target)),
                ("unwind", self.unwind(unwind)),
                sp,
            ]),
            mir::TerminatorKind::Call {
                func,
                args,
                destination,
                target,
                unwind,
                fn_span,
                ..
            } => J::O(vec![
                ("k", s("call")),
                ("func", self.callee(func)),
                (
                    "args",
                    J::A(args.iter().map(|a| self.operand(&a.node)).collect()),
                ),
                ("dest", self.place(destination)),
                (
                    "target",
                    match target {
                        Some(b) => self.bb(*b),
                        None => J::Null,
                    },
                ),
                ("unwind", self.unwind(unwind)),
                ("fn_sp", span_j(tcx, *fn_span)),
                sp,
            ]),
            mir::TerminatorKind::Assert {
                cond,
                expected,
                msg,
                target,
                unwind,
            } => {
                let (kind, ops): (String, Vec<J>) = match &**msg {
                    mir::AssertKind::BoundsCheck { len, index } => (
                        "BoundsCheck".into(),
                        vec![self.operand(len), self.operand(index)],
                    ),
                    mir::AssertKind::Overflow(op, l, r) => (
                        format!("Overflow({:?})", op),
                        vec![self.operand(l), self.operand(r)],
                    ),
                    mir::AssertKind::OverflowNeg(x) => ("OverflowNeg".into(), vec![self.operand(x)]),
                    mir::AssertKind::DivisionByZero(x) => {
                        ("DivisionByZero".into(), vec![self.operand(x)])
                    }
                    mir::AssertKind::RemainderByZero(x) => {
                        ("RemainderByZero".into(), vec![self.operand(x)])
                    }
                    mir::AssertKind::MisalignedPointerDereference { .. } => {
                        ("MisalignedPointerDereference".into(), vec![])
                    }
                    mir::AssertKind::NullPointerDereference => {
                        ("NullPointerDereference".into(), vec![])
                    }
                    other => (format!("Other:{:?}", other), vec![]),
                };
                J::O(vec![
                    ("k", s("assert")),
                    ("cond", self.operand(cond)),
                    ("expected", J::B(*expected)),
                    ("kind", s(kind)),
                    ("ops", J::A(ops)),
                    ("target", self.bb(*target)),
                    ("unwind", self.unwind(unwind)),
                    sp,
                ])
            }
            mir::TerminatorKind::FalseEdge { real_target, .. } => {
                J::O(vec![("k", s("goto")), ("target", self.bb(*real_target)), sp])
            }
            mir::TerminatorKind::FalseUnwind { real_target, .. } => {
                J::O(vec![("k", s("goto")), ("target", self.bb(*real_target)), sp])
            }
            mir::TerminatorKind::UnwindResume => J::O(vec![("k", s("resume")), sp]),
            mir::TerminatorKind::UnwindTerminate(_) => J::O(vec![("k", s("abort")), sp]),
            other => J::O(vec![("k", s("other")), ("dbg", s(format!("{:?}", other))), sp]),
        }
    }

    fn dump(&self) -> J {
        let tcx = self.tcx;
        let body = self.body;
        let mut names: Vec<Option<String>> = vec![None; body.local_decls.len()];
        let mut upvars = vec![];
        for vdi in body.var_debug_info.iter() {
            if let mir::VarDebugInfoContents::Place(p) = &vdi.value {
                if p.projection.is_empty() {
                    names[p.local.index()] = Some(vdi.name.to_string());
                } else {
                    upvars.push(J::O(vec![
                        ("name", s(vdi.name.to_string())),
                        ("place", self.place(p)),
                    ]));
                }
            }
        }
        let mut locals = vec![];
        for (l, d) in body.local_decls.iter_enumerated() {
            locals.push(J::O(vec![
                ("ty", s(ty_str(d.ty))),
                (
                    "name",
                    match &names[l.index()] {
                        Some(n) => s(n.clone()),
                        None => J::Null,
                    },
                ),
                ("user", J::B(names[l.index()].is_some())),
                ("mut", J::B(d.mutability.is_mut())),
            ]));
        }
        let mut blocks = vec![];
        for (_bb, data) in body.basic_blocks.iter_enumerated() {
            let mut stmts = vec![];
            for st in data.statements.iter() {
                match &st.kind {
                    mir::StatementKind::Assign(b) => {
                        stmts.push(J::O(vec![
                            ("k", s("assign")),
                            ("place", self.place(&b.0)),
                            ("rv", self.rvalue(&b.1)),
                            ("sp", span_j(tcx, st.source_info.span)),
                        ]));
                    }
                    mir::StatementKind::SetDiscriminant {
                        place,
                        variant_index,
                    } => {
                        stmts.push(J::O(vec![
                            ("k", s("setdiscr")),
                            ("place", self.place(place)),
                            ("vi", J::I(variant_index.index() as i128)),
                            ("sp", span_j(tcx, st.source_info.span)),
                        ]));
                    }
                    _ => {}
                }
            }
            let term = match &data.terminator {
                Some(t) => self.terminator(t),
                None => J::Null,
            };
            blocks.push(J::O(vec![
                ("stmts", J::A(stmts)),
                ("term", term),
                ("cleanup", J::B(data.is_cleanup)),
            ]));
        }
        J::O(vec![
            ("arg_count", J::I(body.arg_count as i128)),
            ("locals", J::A(locals)),
            ("upvars", J::A(upvars)),
            ("blocks", J::A(blocks)),
        ])
    }
}

// ---------------------------------------------------------------------------------------------
// HIR
// ---------------------------------------------------------------------------------------------

struct HirCx<'tcx> {
    tcx: TyCtxt<'tcx>,
    tr: &'tcx ty::TypeckResults<'tcx>,
}

impl<'tcx> HirCx<'tcx> {
    fn res(&self, r: Res) -> J {
        let tcx = self.tcx;
        match r {
            Res::Def(kind, d) => J::O(vec![
                ("kind", s("def")),
                ("defkind", s(format!("{:?}", kind))),
                ("path", s(path_str(tcx, d))),
            ]),
            Res::Local(h) => J::O(vec![
                ("kind", s("local")),
                ("name", s(tcx.hir_name(h).to_string())),
                ("hid", s(format!("{}.{}", h.owner.def_id.local_def_index.as_u32(), h.local_id.as_u32()))),
            ]),
            Res::SelfCtor(d) => J::O(vec![("kind", s("selfctor")), ("path", s(path_str(tcx, d)))]),
            other => J::O(vec![("kind", s("other")), ("dbg", s(format!("{:?}", other)))]),
        }
    }

    fn pat_expr(&self, pe: &'tcx hir::PatExpr<'tcx>) -> J {
        match &pe.kind {
            hir::PatExprKind::Lit { lit, negated } => J::O(vec![
                ("k", s("Lit")),
                ("val", s(format!("{:?}", lit.node))),
                ("neg", J::B(*negated)),
            ]),
            hir::PatExprKind::Path(q) => {
                let r = self.tr.qpath_res(q, pe.hir_id);
                J::O(vec![("k", s("Path")), ("res", self.res(r))])
            }
            #[allow(unreachable_patterns)]
            _ => J::O(vec![("k", s("OtherPatExpr"))]),
        }
    }

    fn pat(&self, p: &'tcx hir::Pat<'tcx>) -> J {
        let tcx = self.tcx;
        let sp = ("sp", span_j(tcx, p.span));
        match &p.kind {
            hir::PatKind::Wild => J::O(vec![("k", s("Wild")), sp]),
            hir::PatKind::Binding(_, hid, ident, sub) => {
                let mut o = vec![
                    ("k", s("Binding")),
                    ("name", s(ident.name.to_string())),
                    ("hid", s(format!("{}.{}", hid.owner.def_id.local_def_index.as_u32(), hid.local_id.as_u32()))),
                    sp,
                ];
                if let Some(sb) = sub {
                    o.push(("sub", self.pat(sb)));
                }
                J::O(o)
            }
            hir::PatKind::Struct(q, fields, rest) => {
                let r = self.tr.qpath_res(q, p.hir_id);
                let fs: Vec<J> = fields
                    .iter()
                    .map(|f| {
                        J::O(vec![
                            ("name", s(f.ident.name.to_string())),
                            ("pat", self.pat(f.pat)),
                        ])
                    })
                    .collect();
                J::O(vec![
                    ("k", s("Struct")),
                    ("res", self.res(r)),
                    ("fields", J::A(fs)),
                    ("rest", s(format!("{:?}", rest))),
                    sp,
                ])
            }
            hir::PatKind::TupleStruct(q, subs, ddpos) => {
                let r = self.tr.qpath_res(q, p.hir_id);
                J::O(vec![
                    ("k", s("TupleStruct")),
                    ("res", self.res(r)),
                    ("subs", J::A(subs.iter().map(|x| self.pat(x)).collect())),
                    (
                        "ddpos",
                        match ddpos.as_opt_usize() {
                            Some(n) => J::I(n as i128),
                            None => J::Null,
                        },
                    ),
                    sp,
                ])
            }
            hir::PatKind::Or(subs) => J::O(vec![
                ("k", s("Or")),
                ("subs", J::A(subs.iter().map(|x| self.pat(x)).collect())),
                sp,
            ]),
            hir::PatKind::Tuple(subs, ddpos) => J::O(vec![
                ("k", s("Tuple")),
                ("subs", J::A(subs.iter().map(|x| self.pat(x)).collect())),
                (
                    "ddpos",
                    match ddpos.as_opt_usize() {
                        Some(n) => J::I(n as i128),
                        None => J::Null,
                    },
                ),
                sp,
            ]),
            hir::PatKind::Box(sub) => J::O(vec![("k", s("Box")), ("sub", self.pat(sub)), sp]),
            hir::PatKind::Deref(sub) => J::O(vec![("k", s("Deref")), ("sub", self.pat(sub)), sp]),
            hir::PatKind::Ref(sub, ..) => J::O(vec![("k", s("Ref")), ("sub", self.pat(sub)), sp]),
            hir::PatKind::Expr(pe) => {
                let mut j = self.pat_expr(pe);
                if let J::O(ref mut v) = j {
                    v.push(sp);
                }
                j
            }
            hir::PatKind::Range(lo, hi, end) => J::O(vec![
                ("k", s("Range")),
                (
                    "lo",
                    match lo {
                        Some(x) => self.pat_expr(x),
                        None => J::Null,
                    },
                ),
                (
                    "hi",
                    match hi {
                        Some(x) => self.pat_expr(x),
                        None => J::Null,
                    },
                ),
                ("end", s(format!("{:?}", end))),
                sp,
            ]),
            hir::PatKind::Slice(a, m, b) => {
                let mut subs: Vec<J> = a.iter().map(|x| self.pat(x)).collect();
                if let Some(m) = m {
                    subs.push(self.pat(m));
                }
                subs.extend(b.iter().map(|x| self.pat(x)));
                J::O(vec![("k", s("Slice")), ("subs", J::A(subs)), sp])
            }
            hir::PatKind::Guard(sub, e) => J::O(vec![
                ("k", s("Guard")),
                ("sub", self.pat(sub)),
                ("cond", self.expr(e)),
                sp,
            ]),
            _ => J::O(vec![("k", s("OtherPat")), sp]),
        }
    }

    fn opt_expr(&self, e: Option<&'tcx hir::Expr<'tcx>>) -> J {
        match e {
            Some(e) => self.expr(e),
            None => J::Null,
        }
    }

    fn block(&self, b: &'tcx hir::Block<'tcx>) -> J {
        let tcx = self.tcx;
        let mut stmts = vec![];
        for st in b.stmts.iter() {
            match &st.kind {
                hir::StmtKind::Let(l) => {
                    let mut o = vec![
                        ("k", s("LetStmt")),
                        ("pat", self.pat(l.pat)),
                        ("init", self.opt_expr(l.init)),
                        ("sp", span_j(tcx, st.span)),
                    ];
                    if let Some(els) = l.els {
                        o.push(("els", self.block(els)));
                    }
                    stmts.push(J::O(o));
                }
                hir::StmtKind::Expr(e) => stmts.push(self.expr(e)),
                hir::StmtKind::Semi(e) => {
                    let mut j = self.expr(e);
                    if let J::O(ref mut v) = j {
                        v.push(("semi", J::B(true)));
                    }
                    stmts.push(j)
                }
                hir::StmtKind::Item(_) => {}
            }
        }
        J::O(vec![
            ("k", s("Block")),
            ("stmts", J::A(stmts)),
            ("expr", self.opt_expr(b.expr)),
            ("sp", span_j(tcx, b.span)),
        ])
    }

    fn expr(&self, e: &'tcx hir::Expr<'tcx>) -> J {
        let tcx = self.tcx;
        let tr = self.tr;
        let mut o: Vec<(&'static str, J)> = vec![];
        let kind: &str;
        match &e.kind {
            hir::ExprKind::DropTemps(x) => return self.expr(x),
            hir::ExprKind::Use(x, _) => return self.expr(x),
            hir::ExprKind::Block(b, _) => {
                return self.block(b);
            }
            hir::ExprKind::Array(es) => {
                kind = "Array";
                o.push(("es", J::A(es.iter().map(|x| self.expr(x)).collect())));
            }
            hir::ExprKind::Tup(es) => {
                kind = "Tup";
                o.push(("es", J::A(es.iter().map(|x| self.expr(x)).collect())));
            }
            hir::ExprKind::Call(f, args) => {
                kind = "Call";
                if let hir::ExprKind::Path(q) = &f.kind {
                    let r = tr.qpath_res(q, f.hir_id);
                    o.push(("res", self.res(r)));
                    if let Res::Def(_, d) = r {
                        o.push(("callee", s(path_str(tcx, d))));
                    }
                } else {
                    o.push(("fun", self.expr(f)));
                }
                o.push(("args", J::A(args.iter().map(|x| self.expr(x)).collect())));
            }
            hir::ExprKind::MethodCall(seg, recv, args, _) => {
                kind = "MethodCall";
                o.push(("name", s(seg.ident.name.to_string())));
                if let Some(d) = tr.type_dependent_def_id(e.hir_id) {
                    o.push(("callee", s(path_str(tcx, d))));
                    if let Some(t) = tcx.trait_of_assoc(d) {
                        o.push(("trait", s(path_str(tcx, t))));
                    }
                }
                o.push(("recv", self.expr(recv)));
                o.push(("recv_ty", s(ty_str(tr.expr_ty_adjusted(recv)))));
                o.push(("args", J::A(args.iter().map(|x| self.expr(x)).collect())));
            }
            hir::ExprKind::Binary(op, l, r) => {
                kind = "Binary";
                o.push(("op", s(format!("{:?}", op.node))));
                o.push(("l", self.expr(l)));
                o.push(("r", self.expr(r)));
                if let Some(d) = tr.type_dependent_def_id(e.hir_id) {
                    o.push(("callee", s(path_str(tcx, d))));
                }
            }
            hir::ExprKind::Unary(op, x) => {
                kind = "Unary";
                o.push(("op", s(format!("{:?}", op))));
                o.push(("x", self.expr(x)));
            }
            hir::ExprKind::Lit(l) => {
                kind = "Lit";
                o.push(("val", s(format!("{:?}", l.node))));
            }
            hir::ExprKind::Cast(x, _) => {
                kind = "Cast";
                o.push(("x", self.expr(x)));
            }
            hir::ExprKind::Type(x, _) => {
                kind = "TypeAscr";
                o.push(("x", self.expr(x)));
            }
            hir::ExprKind::Let(l) => {
                kind = "Let";
                o.push(("pat", self.pat(l.pat)));
                o.push(("init", self.expr(l.init)));
            }
            hir::ExprKind::If(c, t, f) => {
                kind = "If";
                o.push(("cond", self.expr(c)));
                o.push(("then", self.expr(t)));
                o.push(("els", self.opt_expr(*f)));
            }
            hir::ExprKind::Loop(b, _, src, _) => {
                kind = "Loop";
                o.push(("source", s(format!("{:?}", src))));
                o.push(("body", self.block(b)));
            }
            hir::ExprKind::Match(scrut, arms, src) => {
                kind = "Match";
                o.push(("source", s(format!("{:?}", src))));
                o.push(("scrut", self.expr(scrut)));
                o.push(("scrut_ty", s(ty_str(tr.expr_ty_adjusted(scrut)))));
                let mut aj = vec![];
                for a in arms.iter() {
                    aj.push(J::O(vec![
                        ("pat", self.pat(a.pat)),
                        ("guard", self.opt_expr(a.guard)),
                        ("body", self.expr(a.body)),
                        ("sp", span_j(tcx, a.span)),
                    ]));
                }
                o.push(("arms", J::A(aj)));
            }
            hir::ExprKind::Closure(c) => {
                kind = "Closure";
                o.push(("def", s(path_str(tcx, c.def_id.to_def_id()))));
                let b = tcx.hir_body(c.body);
                let params: Vec<J> = b.params.iter().map(|p| self.pat(p.pat)).collect();
                o.push(("params", J::A(params)));
                o.push(("body", self.expr(b.value)));
            }
            hir::ExprKind::Assign(l, r, _) => {
                kind = "Assign";
                o.push(("l", self.expr(l)));
                o.push(("r", self.expr(r)));
            }
            hir::ExprKind::AssignOp(op, l, r) => {
                kind = "AssignOp";
                o.push(("op", s(format!("{:?}", op.node))));
                o.push(("l", self.expr(l)));
                o.push(("r", self.expr(r)));
            }
            hir::ExprKind::Field(x, ident) => {
                kind = "Field";
                o.push(("x", self.expr(x)));
                o.push(("name", s(ident.name.to_string())));
                o.push(("x_ty", s(ty_str(tr.expr_ty_adjusted(x)))));
            }
            hir::ExprKind::Index(x, i, _) => {
                kind = "Index";
                o.push(("x", self.expr(x)));
                o.push(("i", self.expr(i)));
                o.push(("x_ty", s(ty_str(tr.expr_ty_adjusted(x)))));
                if let Some(d) = tr.type_dependent_def_id(e.hir_id) {
                    o.push(("callee", s(path_str(tcx, d))));
                }
            }
            hir::ExprKind::Path(q) => {
                kind = "Path";
                let r = tr.qpath_res(q, e.hir_id);
                o.push(("res", self.res(r)));
            }
            hir::ExprKind::AddrOf(_, m, x) => {
                kind = "AddrOf";
                o.push(("mut", J::B(m.is_mut())));
                o.push(("x", self.expr(x)));
            }
            hir::ExprKind::Break(dest, x) => {
                kind = "Break";
                o.push(("label", s(format!("{:?}", dest.label.map(|l| l.ident.name.to_string())))));
                o.push(("x", self.opt_expr(*x)));
            }
            hir::ExprKind::Continue(_) => {
                kind = "Continue";
            }
            hir::ExprKind::Ret(x) => {
                kind = "Ret";
                o.push(("x", self.opt_expr(*x)));
            }
            hir::ExprKind::Struct(q, fields, base) => {
                kind = "Struct";
                let r = tr.qpath_res(q, e.hir_id);
                o.push(("res", self.res(r)));
                let fs: Vec<J> = fields
                    .iter()
                    .map(|f| {
                        J::O(vec![
                            ("name", s(f.ident.name.to_string())),
                            ("e", self.expr(f.expr)),
                        ])
                    })
                    .collect();
                o.push(("fields", J::A(fs)));
                if let hir::StructTailExpr::Base(b) = base {
                    o.push(("base", self.expr(b)));
                }
            }
            hir::ExprKind::Repeat(x, _) => {
                kind = "Repeat";
                o.push(("x", self.expr(x)));
            }
            hir::ExprKind::ConstBlock(_) => {
                kind = "ConstBlock";
            }
            _ => {
                kind = "Other";
            }
        }
        let mut out = vec![("k", s(kind))];
        out.extend(o);
        out.push(("ty", s(ty_str(tr.expr_ty(e)))));
        out.push(("sp", span_j(tcx, e.span)));
        J::O(out)
    }
}

// ---------------------------------------------------------------------------------------------

fn adts(tcx: TyCtxt<'_>) -> J {
    let mut out = vec![];
    for id in tcx.hir_free_items() {
        let did = id.owner_id.to_def_id();
        let dk = tcx.def_kind(did);
        if !matches!(dk, DefKind::Struct | DefKind::Enum) {
            continue;
        }
        let adt = tcx.adt_def(did);
        let mut vs = vec![];
        for v in adt.variants().iter() {
            let mut fs = vec![];
            for f in v.fields.iter() {
                let fty = tcx.type_of(f.did).instantiate_identity().skip_norm_wip();
                fs.push(J::O(vec![
                    ("name", s(f.name.to_string())),
                    ("ty", s(ty_str(fty))),
                    ("pub", J::B(f.vis.is_public())),
                ]));
            }
            vs.push(J::O(vec![
                ("name", s(v.name.to_string())),
                ("fields", J::A(fs)),
            ]));
        }
        out.push(J::O(vec![
            ("path", s(path_str(tcx, did))),
            ("kind", s(format!("{:?}", dk))),
            ("pub", J::B(tcx.visibility(did).is_public())),
            ("variants", J::A(vs)),
            ("sp", span_j(tcx, tcx.def_span(did))),
        ]));
    }
    J::A(out)
}

fn dump_crate(tcx: TyCtxt<'_>) -> J {
    let mut fns = vec![];
    for def in tcx.hir_body_owners() {
        let did: DefId = def.to_def_id();
        let dk = tcx.def_kind(did);
        let kind = match dk {
            DefKind::Fn => "fn",
            DefKind::AssocFn => "assoc_fn",
            DefKind::Closure => "closure",
            DefKind::Const { .. } => "const",
            DefKind::AssocConst { .. } => "assoc_const",
            DefKind::Static { .. } => "static",
            DefKind::AnonConst | DefKind::InlineConst => "anon_const",
            _ => "other",
        };
        let mut o = vec![
            ("id", s(path_str(tcx, did))),
            ("kind", s(kind)),
            ("sp", span_j(tcx, tcx.def_span(did))),
        ];
        let body_sp = tcx.hir_body_owned_by(def).value.span;
        o.push(("body_sp", span_j(tcx, body_sp)));
        o.push(("from_expansion", J::B(tcx.def_span(did).from_expansion())));
        if matches!(dk, DefKind::Fn | DefKind::AssocFn) {
            o.push(("pub", J::B(tcx.visibility(did).is_public())));
            let sig = tcx.fn_sig(did).instantiate_identity().skip_norm_wip().skip_binder();
            let ins: Vec<J> = sig.inputs().iter().map(|t| s(ty_str(*t))).collect();
            o.push(("inputs", J::A(ins)));
            o.push(("output", s(ty_str(sig.output()))));
            if let Some(imp) = tcx.impl_of_assoc(did) {
                if let Some(trf) = tcx.impl_opt_trait_ref(imp) {
                    let trf = trf.instantiate_identity().skip_norm_wip();
                    o.push(("impl_trait", s(path_str(tcx, trf.def_id))));
                    o.push(("impl_self", s(ty_str(trf.self_ty()))));
                }
            }
        }
        if matches!(dk, DefKind::Closure) {
            let parent = tcx.typeck_root_def_id(did);
            o.push(("parent", s(path_str(tcx, parent))));
            o.push(("direct_parent", s(path_str(tcx, tcx.parent(did)))));
        }
        if matches!(dk, DefKind::Fn | DefKind::AssocFn | DefKind::Closure) {
            let body = tcx.optimized_mir(did);
            let cx = MirCx { tcx, body, did };
            o.push(("mir", cx.dump()));
            // promoted constants (`&TokenEnum::Comma`, `&[..]`): small bodies that build the constant
            let mut proms = vec![];
            for pbody in tcx.promoted_mir(did).iter() {
                let pcx = MirCx { tcx, body: pbody, did };
                proms.push(pcx.dump());
            }
            o.push(("promoted", J::A(proms)));
        }
        if !matches!(dk, DefKind::Closure) {
            // closures are inlined in their parent's HIR tree
            let tr = tcx.typeck(def);
            let hcx = HirCx { tcx, tr };
            let b = tcx.hir_body_owned_by(def);
            let params: Vec<J> = b.params.iter().map(|p| hcx.pat(p.pat)).collect();
            o.push(("params", J::A(params)));
            o.push(("hir", hcx.expr(b.value)));
        }
        fns.push(J::O(o));
    }
    J::O(vec![
        ("crate", s(tcx.crate_name(rustc_hir::def_id::LOCAL_CRATE).to_string())),
        ("adts", adts(tcx)),
        ("fns", J::A(fns)),
    ])
}

impl Callbacks for Cb {
    fn after_analysis<'tcx>(
        &mut self,
        _c: &rustc_interface::interface::Compiler,
        tcx: TyCtxt<'tcx>,
    ) -> Compilation {
        let name = tcx.crate_name(rustc_hir::def_id::LOCAL_CRATE).to_string();
        if name != self.target {
            return Compilation::Continue;
        }
        let is_test = tcx.sess.opts.test;
        let types: Vec<String> = tcx.crate_types().iter().map(|t| format!("{:?}", t)).collect();
        let doc = dump_crate(tcx);
        let mut out = String::new();
        let doc = match doc {
            J::O(mut v) => {
                v.push(("is_test", J::B(is_test)));
                v.push(("crate_types", J::A(types.iter().map(|t| s(t.clone())).collect())));
                J::O(v)
            }
            d => d,
        };
        doc.write(&mut out);
        let file = format!(
            "{}/{}-{}{}-{}.json",
            self.out_dir,
            name,
            types.join("_").to_lowercase(),
            if is_test { "-test" } else { "" },
            std::process::id()
        );
        std::fs::create_dir_all(&self.out_dir).ok();
        std::fs::write(&file, out).expect("gl-facts: cannot write fact file");
        Compilation::Continue
    }
}

#[allow(dead_code)]
fn _unused(_: LocalDefId) {}

fn main() {
    let mut args: Vec<String> = std::env::args().collect();
    // As RUSTC_WORKSPACE_WRAPPER we are called as `<wrapper> <rustc> <args..>`: drop argv[1].
    if args.len() > 1 && (args[1].ends_with("rustc") || args[1].contains("/rustc")) {
        args.remove(1);
    }
    let target = std::env::var("GL_FACTS_CRATE").unwrap_or_else(|_| "garble_lang".to_string());
    let out_dir = std::env::var("GL_FACTS_OUT").unwrap_or_else(|_| ".".to_string());
    let mut cb = Cb { target, out_dir };
    rustc_driver::run_compiler(&args, &mut cb);
}
