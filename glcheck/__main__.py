import sys

from .core import main

sys.exit(main())
