"""Call graph over resolved MIR callees."""
from collections import defaultdict

from . import mir

FN_TRAIT_CALLS = ("std::ops::FnMut::call_mut", "std::ops::FnOnce::call_once", "std::ops::Fn::call")


class CallGraph:
    def __init__(self, facts):
        self.fns = {f["id"]: f for f in facts["fns"]}
        self.edges = defaultdict(set)       # caller id -> set of callee names (local ids or external paths)
        self.sites = defaultdict(list)      # (caller, callee) -> [(bb, term)]
        self.indirect = defaultdict(list)   # caller -> [(bb, term)] calls through dyn Fn / fn pointers
        self.closures_of = defaultdict(set)  # defining fn -> closure ids (direct or nested)
        self.n_calls = 0
        for f in facts["fns"]:
            if f["kind"] == "closure":
                self.closures_of[f["parent"]].add(f["id"])
                if f.get("direct_parent") and f["direct_parent"] != f["parent"]:
                    self.closures_of[f["direct_parent"]].add(f["id"])
        for f in facts["fns"]:
            if "mir" not in f:
                continue
            fid = f["id"]
            for b, blk in enumerate(f["mir"]["blocks"]):
                t = blk["term"]
                # closure construction: defining function may call the closure
                for st in blk["stmts"]:
                    if st["k"] == "assign" and st["rv"]["k"] == "aggregate" and st["rv"].get("akind") == "closure":
                        self._add(fid, st["rv"]["closure"], b, None)
                if not t or t["k"] != "call":
                    continue
                self.n_calls += 1
                fu = t["func"]
                names = mir.callee_names(t)
                if not names:
                    self.indirect[fid].append((b, t))
                    continue
                tgt = names[0]
                self._add(fid, tgt, b, t)
                if fu.get("declared") == "std::convert::Into::into":
                    subs = fu.get("substs") or []
                    if len(subs) >= 2:
                        for g in facts["fns"]:
                            if g.get("impl_trait") == "std::convert::From" and g.get("impl_self") == subs[1] and (g.get("inputs") or [""])[0] == subs[0]:
                                self._add(fid, g["id"], b, t)
                if fu.get("declared") in FN_TRAIT_CALLS:
                    self_ty = (fu.get("substs") or [""])[0]
                    if "dyn " in self_ty or self_ty.startswith("fn(") or " fn(" in self_ty:
                        self.indirect[fid].append((b, t))
                    elif fu.get("closure") and fu.get("resolved") in self.fns:
                        pass
        # indirect calls may invoke any closure defined in a (transitive) caller of the function
        for _ in range(2):
            rev = self.reverse()
            for fid, sites in list(self.indirect.items()):
                callers = self._closure_of(rev, {fid})
                for c in callers:
                    for cl in self.closures_of.get(c, ()):
                        for (b, t) in sites:
                            self._add(fid, cl, b, t)

    def _add(self, a, b, bb, term):
        self.edges[a].add(b)
        self.sites[(a, b)].append((bb, term))

    def reverse(self):
        rev = defaultdict(set)
        for a, bs in self.edges.items():
            for b in bs:
                rev[b].add(a)
        return rev

    @staticmethod
    def _closure_of(g, starts):
        seen = set(starts)
        work = list(starts)
        while work:
            x = work.pop()
            for y in g.get(x, ()):
                if y not in seen:
                    seen.add(y)
                    work.append(y)
        return seen

    def reach_set(self, targets):
        """All functions from which some target is reachable (targets included)."""
        return self._closure_of(self.reverse(), set(targets))

    def reachable_from(self, starts):
        return self._closure_of(self.edges, set(starts))

    def witness(self, start, targets, limit=12):
        """A call path start -> target as list of names, or None."""
        targets = set(targets)
        prev = {start: None}
        work = [start]
        i = 0
        while i < len(work):
            x = work[i]
            i += 1
            if x in targets and x != start or (x in targets and x == start and i == 1 and False):
                p = []
                while x is not None:
                    p.append(x)
                    x = prev[x]
                return p[::-1][: limit + 1]
            for y in sorted(self.edges.get(x, ())):
                if y not in prev:
                    prev[y] = x
                    work.append(y)
        return None
