"""Rule-engine core: context, findings, known findings, evidence, CLI."""
import argparse
import importlib
import json
import os
import sys
import time
import traceback

from . import cg as cgmod
from . import facts as factsmod
from . import mir

VERIF = factsmod.VERIF
EVIDENCE_DIR = os.path.join(VERIF, "evidence")
KNOWN = os.path.join(VERIF, "known_findings.json")


class AnchorMissing(Exception):
    """A rule could not find the code it is anchored on: the check cannot decide (fail closed)."""


class Finding:
    def __init__(self, rule, fn, site, message, span=None, witness=None):
        self.rule = rule
        self.fn = fn
        self.site = site          # stable descriptor, no line numbers
        self.message = message
        self.span = span          # for the human reader only
        self.witness = witness

    @property
    def key(self):
        return "%s|%s|%s" % (self.rule, self.fn, self.site)

    def to_json(self):
        d = {"rule": self.rule, "function": self.fn, "site": self.site, "message": self.message, "key": self.key}
        if self.span:
            d["at"] = mir.span_str(self.span) if isinstance(self.span, list) else self.span
        if self.witness:
            d["witness"] = self.witness
        return d


class RuleResult:
    def __init__(self, rule, title):
        self.rule = rule
        self.title = title
        self.obligations = 0
        self.discharged = 0
        self.findings = []
        self.samples = []
        self.notes = []
        self.idioms = []

    def ok(self, sample=None):
        self.obligations += 1
        self.discharged += 1
        if sample is not None and len(self.samples) < 6:
            self.samples.append(sample)

    def bad(self, finding, sample=None):
        self.obligations += 1
        self.findings.append(finding)
        if sample is not None:
            self.samples.append(sample)

    def note(self, s):
        self.notes.append(s)

    def to_json(self):
        return {
            "rule": self.rule,
            "title": self.title,
            "obligations": self.obligations,
            "discharged": self.discharged,
            "violations": [f.to_json() for f in self.findings],
            "samples": self.samples[:8],
            "notes": self.notes,
            "accepted_idioms": self.idioms,
        }


class Ctx:
    def __init__(self, facts, tier="quick", config="default"):
        self.facts = facts
        self.tier = tier
        self.config = config
        self.fns = {f["id"]: f for f in facts["fns"]}
        self.adts = {a["path"]: a for a in facts["adts"]}
        self._bodies = {}
        self._cg = None
        self.wrappers = {}
        self._alias_thin_wrappers()

    def _alias_thin_wrappers(self):
        """`fn compile(&self, a, b) { let r = self.compile_inner(a, b); adjust(r) }`: rules are written against the function
        that does the work.  A thin wrapper W of B (B is named W_<suffix> in the same impl, same parameter types, exactly one
        call of B with W's own parameters in order, B called from nowhere else) is made transparent: calls of W are analysed as calls of B, and looking W up by
        name yields B.  The wrapper's own body stays available under its id (self.wrappers[B] = W)."""
        callers = {}
        for f in self.facts["fns"]:
            if "mir" not in f:
                continue
            for blk in f["mir"]["blocks"]:
                t = blk["term"]
                if t and t["k"] == "call":
                    c = t["func"].get("resolved") or t["func"].get("declared")
                    if c in self.fns:
                        callers.setdefault(c, set()).add(f["id"])
        for f in self.facts["fns"]:
            if "mir" not in f or f["kind"] not in ("fn", "assoc_fn") or f.get("from_expansion"):
                continue
            m = f["mir"]
            cands = []
            for blk in m["blocks"]:
                t = blk["term"]
                if blk.get("cleanup") or not t or t["k"] != "call":
                    continue
                c = t["func"].get("resolved") or t["func"].get("declared")
                if c in self.fns and c != f["id"]:
                    g = self.fns[c]
                    if g.get("inputs") == f.get("inputs") and g.get("output") == f.get("output") and len(t["args"]) == m["arg_count"]:
                        cands.append((c, t))
            if len(cands) != 1:
                continue
            c, t = cands[0]
            if callers.get(c, set()) - {f["id"], c} or not (f.get("inputs") or []):
                continue
            # only the `name` / `name_suffix` convention (compile / compile_unadjusted): a function that merely happens to
            # delegate (check_type -> constrain_type, parse_expr -> parse_short_circuiting_or) keeps its identity
            if not mir.last_seg(c).startswith(mir.last_seg(f["id"]) + "_") or c.rsplit("::", 1)[0] != f["id"].rsplit("::", 1)[0]:
                continue
            b = mir.Body(f)
            if not all(any(r == ("arg", i + 1) and not p for (r, p) in b.trace_operand(a)) for i, a in enumerate(t["args"])):
                continue
            self.wrappers[c] = f["id"]
        if not self.wrappers:
            return
        back = {w: b for b, w in self.wrappers.items()}
        for f in self.facts["fns"]:
            if "mir" not in f or f["id"] in back:
                continue
            for blk in f["mir"]["blocks"]:
                t = blk["term"]
                if t and t["k"] == "call":
                    for key in ("resolved", "declared"):
                        if t["func"].get(key) in back:
                            t["func"][key] = back[t["func"][key]]

    @property
    def cg(self):
        if self._cg is None:
            self._cg = cgmod.CallGraph(self.facts)
        return self._cg

    def body(self, fid):
        if fid not in self._bodies:
            f = self.fns.get(fid)
            if f is None or "mir" not in f:
                raise AnchorMissing("no MIR body for %s" % fid)
            self._bodies[fid] = mir.Body(f)
        return self._bodies[fid]

    def has_fn(self, fid):
        return fid in self.fns

    def fn(self, fid):
        if fid not in self.fns:
            raise AnchorMissing("function %s not found in the crate" % fid)
        return self.fns[fid]

    def find_fns(self, name=None, self_ty=None, file=None, kind=None):
        """Functions by last path segment and (optionally) type of the first parameter."""
        out = []
        for f in self.facts["fns"]:
            if kind and f["kind"] != kind:
                continue
            if name is not None and mir.last_seg(f["id"]) != name:
                # a thin wrapper answers to the name of the function that does the work
                if not (f["id"] in self.wrappers and mir.last_seg(self.wrappers[f["id"]]) == name):
                    continue
            elif name is not None and f["id"] in self.wrappers.values():
                continue
            if self_ty is not None:
                ins = f.get("inputs") or []
                if not ins or self_ty not in ins[0]:
                    continue
            if file is not None and not f["sp"][0].endswith(file):
                continue
            out.append(f)
        return out

    def find_fn(self, name, self_ty=None, file=None):
        fs = self.find_fns(name, self_ty, file)
        fs = [f for f in fs if f["kind"] in ("fn", "assoc_fn")]
        if len(fs) != 1:
            raise AnchorMissing("expected exactly one function %s (self %s, file %s), found %d: %s"
                                % (name, self_ty, file, len(fs), [f["id"] for f in fs][:5]))
        return fs[0]

    def bodies_in(self, file_suffix):
        for f in self.facts["fns"]:
            if "mir" in f and f["sp"][0].endswith(file_suffix):
                yield self.body(f["id"])

    def closure_site(self, closure_id):
        """(parent body, aggregate rvalue) where the closure value is constructed."""
        f = self.fns.get(closure_id)
        if not f or f["kind"] != "closure":
            return None
        for pid in (f.get("direct_parent"), f.get("parent")):
            if pid and pid in self.fns and "mir" in self.fns[pid]:
                pb = self.body(pid)
                for blk in pb.blocks:
                    for st in blk["stmts"]:
                        if st["k"] == "assign" and st["rv"]["k"] == "aggregate" and st["rv"].get("closure") == closure_id:
                            return pb, st["rv"]
        return None

    def lifted_trace(self, body, op, through=None, depth=0):
        """Origins of an operand; captured variables of a closure are resolved to their origins in the function
        that creates the closure (recursively).  Returns set of (function id, root, path)."""
        through = mir.TRANSPARENT if through is None else through
        out = set()
        if op["k"] not in ("copy", "move"):
            return {(body.id, ("const", op.get("val") if op.get("val") is not None else op.get("repr")), ())}
        for (r, p) in body.trace(op["place"], through):
            if r == ("arg", 1) and body.fn["kind"] == "closure" and p and p[0].isdigit() and depth < 4:
                site = self.closure_site(body.id)
                if site:
                    pb, rv = site
                    i = int(p[0])
                    if i < len(rv["ops"]):
                        for (fid2, r2, p2) in self.lifted_trace(pb, rv["ops"][i], through, depth + 1):
                            out.add((fid2, r2, tuple(p2) + tuple(p[1:])))
                        continue
            out.add((body.id, r, tuple(p)))
        return out

    def closure_item_sources(self, closure_id):
        """For a closure handed to an iterator adaptor (map / for_each / filter / all / any ..): which collections of the defining
        function the closure's item parameter ranges over.  Returns (parent body, {item path prefix: operand of the parent}) - e.g.
        for `a.iter().zip(b.iter()).map(|(x, y)| ..)`: {('0',): a-iter operand, ('1',): b-iter operand}; for a plain `a.iter().map(|x| ..)`:
        {(): a-iter operand}.  None if the shape is not recognised."""
        site = self.closure_site(closure_id)
        if not site:
            return None
        pb, rv = site
        for bb, t in pb.calls():
            if not any(a["k"] in ("copy", "move") and any(r[0] == "agg" and pb.blocks[r[1]]["stmts"][r[2]]["rv"] is rv for (r, p) in pb.trace(a["place"], through={}))
                       for a in t["args"][1:]):
                continue
            recv = t["args"][0]
            if recv["k"] not in ("copy", "move"):
                return None
            out = {}
            for (r, p) in pb.trace(recv["place"], through={}):
                if r[0] == "call" and mir.last_seg(str(r[2])) == "zip":
                    z = pb.term(r[1])
                    out[("0",)] = z["args"][0]
                    out[("1",)] = z["args"][1]
                elif r[0] == "call" and mir.last_seg(str(r[2])) == "enumerate":
                    out[("1",)] = pb.term(r[1])["args"][0]
                else:
                    out[()] = recv
            return pb, out
        return None

    def closure_callees(self, closure_id, depth=3):
        """Last path segments of everything a closure body (and the closures it defines) calls."""
        out = set()
        if not self.has_fn(closure_id) or depth < 0:
            return out
        body = self.body(closure_id)
        for _, t in body.calls():
            out.add(mir.last_seg(mir.callee(t) or ""))
        for c in self.cg.closures_of.get(closure_id, ()):
            out |= self.closure_callees(c, depth - 1)
        return out

    def blocks_calling(self, body, names, region=None):
        """Blocks of `body` that call one of `names` (last segments) directly, or that build a closure whose body does
        (`xs.iter().map(|x| circuit.push_not(*x)).collect()` is the loop written with an adaptor)."""
        out = set()
        for b, blk in enumerate(body.blocks):
            if region is not None and b not in region:
                continue
            t = blk.get("term")
            if t and t["k"] == "call" and mir.last_seg(mir.callee(t) or "") in names:
                out.add(b)
            for st in blk["stmts"]:
                if st["k"] == "assign" and st["rv"]["k"] == "aggregate" and st["rv"].get("closure"):
                    if self.closure_callees(st["rv"]["closure"]) & set(names):
                        out.add(b)
        return out

    def promoted_const(self, repr_):
        """For an operand `const <fn>::promoted[i]`: 'adt::Variant' of the enum constant it refers to (or None)."""
        import re as _re
        m = _re.match(r"^(?:const )?(.*)::promoted\[(\d+)\]$", repr_ or "")
        if not m:
            return None
        f = self.fns.get(m.group(1))
        if not f or "promoted" not in f:
            return None
        i = int(m.group(2))
        if i >= len(f["promoted"]):
            return None
        vals = []
        for blk in f["promoted"][i]["blocks"]:
            for st in blk["stmts"]:
                if st["k"] == "assign" and st["rv"]["k"] == "aggregate" and st["rv"].get("akind") == "adt":
                    vals.append("%s::%s" % (st["rv"]["adt"], st["rv"]["variant"]))
        return vals[0] if len(vals) == 1 else (tuple(vals) if vals else None)

    def adt(self, path):
        if path not in self.adts:
            raise AnchorMissing("ADT %s not found" % path)
        return self.adts[path]

    def run_rules(self, rule_fns):
        """Runs each rule; a rule that cannot find its anchor is recorded as undecided instead of hiding the
        verdicts of the other rules."""
        out = []
        for fn in rule_fns:
            try:
                out.append(fn(self))
            except AnchorMissing as e:
                r = RuleResult(fn.__name__.replace("rule_", "").upper(), "undecided: anchor missing")
                r.anchor_missing = str(e)
                out.append(r)
        return out

    def stats(self):
        nb = sum(1 for f in self.facts["fns"] if "mir" in f)
        nc = 0
        for f in self.facts["fns"]:
            if "mir" in f:
                for blk in f["mir"]["blocks"]:
                    if blk["term"] and blk["term"]["k"] == "call":
                        nc += 1
        return {"bodies": nb, "mir_calls": nc, "adts": len(self.facts["adts"])}


def load_known():
    if not os.path.exists(KNOWN):
        return {}, []
    with open(KNOWN) as fh:
        doc = json.load(fh)
    known = {}
    for e in doc.get("known", []):
        known[(e["property"], e["key"])] = e
    return known, doc.get("fixed", [])


def run_rules(prop, tier, config):
    facts = factsmod.load(config)
    ctx = Ctx(facts, tier, config)
    mod = importlib.import_module("glcheck.rules.%s" % prop)
    results = mod.run(ctx)
    return ctx, mod, results


def main(argv=None):
    ap = argparse.ArgumentParser(prog="check")
    ap.add_argument("property")
    ap.add_argument("--tier", default=os.environ.get("VERIF_TIER", "quick"), choices=["quick", "thorough"])
    ap.add_argument("--replay", default=None)
    ap.add_argument("--no-evidence", action="store_true")
    ap.add_argument("--no-replay-files", action="store_true")
    args = ap.parse_args(argv)
    prop = args.property
    t0 = time.time()
    seed = int(os.environ.get("VERIF_SEED", "0") or 0)
    configs = ["default"] if args.tier == "quick" else ["default", "allfeatures"]
    all_results = []
    stats = {}
    extract_s = 0.0
    mod = None
    try:
        for cfg in configs:
            ctx, mod, results = run_rules(prop, args.tier, cfg)
            stats[cfg] = ctx.stats()
            extract_s += ctx.facts.get("_extract_s", 0.0)
            for r in results:
                r.config = cfg
            all_results.append((cfg, results))
        extra = {}
    except factsmod.BuildError as e:
        print("BUILD-FAILED property=%s: %s" % (prop, str(e)[-3000:]))
        return 2
    except AnchorMissing as e:
        print("ANCHOR-MISSING property=%s: %s" % (prop, e))
        print("(the check cannot decide on this tree; it fails closed without a verdict)")
        return 2
    except Exception:
        traceback.print_exc()
        print("CHECK-ERROR property=%s" % prop)
        return 2

    undecided = [(r.rule, r.anchor_missing) for _, rs in all_results for r in rs if getattr(r, "anchor_missing", None)]
    known, fixed = load_known()
    # merge findings over configurations by key
    findings = {}
    for cfg, results in all_results:
        for r in results:
            for f in r.findings:
                findings.setdefault(f.key, (f, r))
    replay_filter = None
    if args.replay:
        with open(args.replay) as fh:
            replay_filter = json.load(fh)["key"]
    violations = []
    known_hits = []
    for key, (f, r) in sorted(findings.items()):
        if replay_filter is not None and key != replay_filter:
            continue
        if (prop, key) in known:
            known_hits.append((f, known[(prop, key)]))
        else:
            violations.append(f)
    for f, e in known_hits:
        print("KNOWN-FINDING: property=%s %s [%s]" % (prop, e.get("what", f.message), f.key))
    os.makedirs(os.path.join(EVIDENCE_DIR, "replay"), exist_ok=True)
    if replay_filter is None and not args.no_replay_files:
        for fn_ in os.listdir(os.path.join(EVIDENCE_DIR, "replay")):
            if fn_.startswith(prop + "-"):
                os.remove(os.path.join(EVIDENCE_DIR, "replay", fn_))
    for i, f in enumerate(violations):
        rp = os.path.join(EVIDENCE_DIR, "replay", "%s-%d.json" % (prop, i))
        if not args.no_replay_files:
            with open(rp, "w") as fh:
                json.dump(dict(f.to_json(), property=prop), fh, indent=1)
        print("  %s %s: %s\n    at %s\n    site: %s" % (f.rule, f.fn, f.message,
              mir.span_str(f.span) if isinstance(f.span, list) else f.span, f.site))
        if f.witness:
            print("    witness: %s" % (f.witness,))
        print("VIOLATION property=%s replay=%s" % (prop, rp))

    if args.tier == "thorough" and not violations and not undecided and replay_filter is None and not os.environ.get("GL_NO_SELFTEST"):
        extra = run_selftest(prop)
    wall = time.time() - t0
    if not args.no_evidence and replay_filter is None:
        write_evidence(prop, args.tier, seed, mod, all_results, stats, violations, known_hits, wall, extract_s,
                       extra if args.tier == "thorough" else {})
    # summary
    tot_o = sum(r.obligations for _, rs in all_results for r in rs)
    tot_d = sum(r.discharged for _, rs in all_results for r in rs)
    print("%s %s: %d rule runs, %d obligations, %d discharged, %d known findings, %d violations (%.1fs)"
          % (prop, args.tier, sum(len(rs) for _, rs in all_results), tot_o, tot_d, len(known_hits),
             len(violations), wall))
    for new_id, known in sorted((ctx.facts.get("_renames") or {}).items()):
        print("NOTE: %s is analysed as %s (same file, same signature, same callees: recognised as a renamed function)" % (new_id, known))
    for fid, order in sorted((ctx.facts.get("_reordered") or {}).items()):
        print("NOTE: the parameters of %s are written in the order (%s); analysed in the order the rules know" % (fid, ", ".join(order)))
    for new_name, frozen in sorted((ctx.facts.get("_fields") or {}).items()):
        print("NOTE: the private field %s is read as `%s` (same struct, position and type: recognised as a renamed field)" % (new_name, frozen))
    for rule, why in undecided:
        print("ANCHOR-MISSING property=%s rule=%s: %s" % (prop, rule, why))
    if violations:
        return 1
    if undecided:
        print("(rule(s) above cannot decide on this tree; the check fails closed without a verdict)")
        return 2
    return 0


def run_selftest(prop):
    """Checker self-validation (thorough tier, informational): the property's mutants are applied to scratch copies of
    the current tree; each must make the check fire (or stay quiet) as recorded in its header."""
    import subprocess
    try:
        r = subprocess.run([sys.executable, os.path.join(VERIF, "selftest", "run.py"), "--prop", prop, "--json", "-j", "12"],
                           cwd=VERIF, stdout=subprocess.PIPE, stderr=subprocess.PIPE, text=True, timeout=1500,
                           env=dict(os.environ, GL_NO_SELFTEST="1"))
        results = json.loads(r.stdout)
    except Exception as e:  # informational only
        return {"selftest_error": str(e)[:300]}
    fire = [x for x in results if x.get("expect", "").startswith("fire")]
    quiet = [x for x in results if x.get("expect", "") == "quiet"]
    summary = {
        "mutants_total": len(fire), "mutants_fired": sum(x["status"] == "ok" for x in fire),
        "quiet_variants_total": len(quiet), "quiet_variants_quiet": sum(x["status"] == "ok" for x in quiet),
        "not_as_expected": [{"name": x["name"], "status": x["status"]} for x in results if x["status"] not in ("ok",)],
        "mutants": [{"name": x["name"], "expect": x.get("expect"), "status": x["status"], "rules_fired": x.get("rules_fired")} for x in results],
    }
    print("selftest %s: %d/%d must-fire mutants fired, %d/%d quiet variants quiet" % (
        prop, summary["mutants_fired"], summary["mutants_total"], summary["quiet_variants_quiet"], summary["quiet_variants_total"]))
    for x in summary["not_as_expected"]:
        print("  selftest note: %s -> %s" % (x["name"], x["status"]))
    return summary


def write_evidence(prop, tier, seed, mod, all_results, stats, violations, known_hits, wall, extract_s, extra):
    rules_json = []
    samples = []
    tot_o = tot_d = 0
    lines = []
    for cfg, results in all_results:
        for r in results:
            j = r.to_json()
            j["config"] = cfg
            rules_json.append(j)
            tot_o += r.obligations
            tot_d += r.discharged
            lines.append("[%s/%s] %s: %d obligations, %d discharged, %d reports%s" % (
                cfg, r.rule, r.title, r.obligations, r.discharged, len(r.findings),
                ("; " + " ".join(r.notes)) if r.notes else ""))
            for s in r.samples[:3]:
                samples.append({"rule": r.rule, "config": cfg, "instance": s})
    if not samples:
        samples.append({"note": "no instance samples recorded"})
    expl = (getattr(mod, "EXPLANATION", "") + "\nAnalysed: " + json.dumps(stats) + "\n" + "\n".join(lines)
            + "\nNot decided by this check: " + getattr(mod, "NOT_DECIDED", "-"))
    doc = {
        "property_id": prop,
        "tier": tier,
        "seed": seed,
        "level": "other",
        "coverage": {
            "explanation": expl,
            "obligations": tot_o,
            "discharged": tot_d,
            "samples": samples[:24],
            "rules": rules_json,
            "analysed": stats,
            "technique": getattr(mod, "TECHNIQUE", "static analysis over rustc MIR/HIR facts"),
            "known_findings_matched": [dict(f.to_json(), what=e.get("what")) for f, e in known_hits],
            "fact_extraction_s": round(extract_s, 2),
            "checker_cmd": "./check %s --tier %s" % (prop, tier),
        },
        "assumptions": list(getattr(mod, "ASSUMPTIONS", [])) + [
            "rustc (nightly 1.97) HIR/MIR of `cargo check --lib` is the program the stable build compiles",
            "std / core behave as documented (HashMap iteration order is unspecified; Vec/BTreeMap are ordered)",
        ],
        "wall_s": round(wall, 2),
        "violations": len(violations),
    }
    if extra:
        doc["coverage"]["thorough_extra"] = extra
    os.makedirs(EVIDENCE_DIR, exist_ok=True)
    tmp = os.path.join(EVIDENCE_DIR, ".%s.json.tmp" % prop)
    with open(tmp, "w") as fh:
        json.dump(doc, fh, indent=1)
    os.replace(tmp, os.path.join(EVIDENCE_DIR, "%s.json" % prop))


if __name__ == "__main__":
    sys.exit(main())
