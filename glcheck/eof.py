"""Abstract interpreter over MIR for input-driven code (scanner / parser).

Tracks, path-sensitively, what is known about the input cursor and about bool / Option / Result values derived
from it:
  avail    'EOF' (cursor exhausted) | 'NE' (an item is available and nothing was consumed since we knew) | 'UNK'
  consumed has an item been consumed on this path
  excl     characters the next item is known NOT to be (scanner only; reset on consumption)
  vals     local -> 'T' | 'F' | 'None' | 'Some' | 'Ok' | 'Err' | ('disc', local) | ('ref', local)

Only two primitives are axioms: Peekable::next / Peekable::peek on the input iterators.  Every helper of the
analysed files gets its summary {(return value, consumed, avail after)} per entry `avail` computed by running the
same interpreter on its body (memoised; recursive calls in progress get the conservative summary).
"""
from collections import defaultdict

from . import mir

ENUM_VALS = {"None", "Some", "Ok", "Err", "Continue", "Break"}
CONSERVATIVE = frozenset([("*", False, "UNK"), ("*", True, "UNK")])
PRESERVING = {"copied", "cloned", "as_ref", "as_mut", "as_deref", "as_deref_mut", "map", "and_then", "take", "inspect", "by_ref"}


class Eof:
    def __init__(self, ctx, files=("scan.rs", "parse.rs"), budget=60000):
        self.ctx = ctx
        self.files = files
        self.budget = budget
        self.memo = {}
        self.inprogress = set()
        self.scope = {f["id"] for f in ctx.facts["fns"] if "mir" in f and f["sp"][0].endswith(files) and not f.get("from_expansion")}
        self.unwrap_none = {}        # (fid, bb) -> avail description
        self.edges = defaultdict(set)  # mode -> {(f, g)} calls reached without consumption
        self.truncated = set()

    # ---- classification of calls -------------------------------------------------------------
    @staticmethod
    def is_input_iter_ty(ty):
        return "std::iter::Peekable<std::str::Chars" in ty or "std::iter::Peekable<std::vec::IntoIter<token::Token>>" in ty

    def prim(self, t):
        """'next' | 'peek' | None for calls on the input iterators."""
        if not t["args"] or t["args"][0]["k"] not in ("copy", "move"):
            return None
        if not self.is_input_iter_ty(t["args"][0]["place"]["ty"]):
            return None
        dec = t["func"].get("declared") or ""
        seg = mir.last_seg(mir.callee(t) or dec)
        if dec == "std::iter::Iterator::next" or seg in ("next", "next_if", "next_if_eq"):
            return "next"
        if seg in ("peek", "peek_mut"):
            return "peek"
        return "other"

    def const_key(self, body, t):
        """Identity of the constant a peek / next_matches / expect call compares the next item with."""
        if len(t["args"]) < 2:
            return None
        a = t["args"][1]
        if a["k"] == "const":
            if a.get("ty") == "char":
                return "char:" + str(a.get("repr"))
            return None
        for (r, p) in body.trace(a["place"], through={}):
            if r[0] == "const" and not p:
                v = self.ctx.promoted_const(str(r[1]))
                if isinstance(v, str):
                    return v
        return None

    # ---- values ----------------------------------------------------------------------------------
    @staticmethod
    def _get(vals, l):
        v = vals.get(l)
        seen = 0
        while isinstance(v, tuple) and v[0] == "ref" and seen < 8:
            v = vals.get(v[1])
            seen += 1
        return v

    def val_of_operand(self, body, vals, op):
        if op["k"] == "const":
            if op.get("ty") == "bool" and op.get("val") is not None:
                return "T" if op["val"] else "F"
            return None
        pl = op["place"]
        if any(e["k"] not in ("deref",) for e in pl["p"]):
            return None
        return self._get(vals, pl["l"])

    def root_local(self, body, vals, pl):
        """Local that holds the enum a place denotes (through refs), or None."""
        if any(e["k"] not in ("deref",) for e in pl["p"]):
            return None
        l = pl["l"]
        seen = 0
        while isinstance(vals.get(l), tuple) and vals[l][0] == "ref" and seen < 8:
            l = vals[l][1]
            seen += 1
        return l

    # ---- one block ---------------------------------------------------------------------------------
    def step(self, body, bb, st, mode_tag):
        """Yields (next block or ('ret',) / ('div',), state).  st = (avail, consumed, excl, vals-dict)"""
        avail, consumed, excl, vals = st[0], st[1], st[2], st[3]
        vals = dict(vals)
        blk = body.blocks[bb]
        for s in blk["stmts"]:
            if s["k"] != "assign":
                continue
            pl = s["place"]
            if pl["p"]:
                continue
            d = pl["l"]
            rv = s["rv"]
            k = rv["k"]
            v = None
            if k == "use":
                v = self.val_of_operand(body, vals, rv["op"])
                if v is None and rv["op"]["k"] in ("copy", "move") and not rv["op"]["place"]["p"]:
                    raw = vals.get(rv["op"]["place"]["l"])
                    if isinstance(raw, tuple):
                        v = raw
            elif k == "unop" and rv["op"] == "Not":
                x = self.val_of_operand(body, vals, rv["x"])
                v = {"T": "F", "F": "T"}.get(x)
            elif k == "aggregate" and rv.get("adt") in ("std::option::Option", "std::result::Result"):
                v = rv["variant"]
            elif k == "discriminant":
                r = self.root_local(body, vals, rv["place"])
                if r is not None:
                    v = ("disc", r)
            elif k in ("ref", "copyforderef"):
                r = self.root_local(body, vals, rv["place"])
                if r is not None:
                    v = ("ref", r)
            if v is None:
                vals.pop(d, None)
            else:
                vals[d] = v
        t = blk["term"]
        if not t:
            return
        k = t["k"]
        if k == "return":
            yield ("ret",), (avail, consumed, excl, vals)
            return
        if k in ("goto", "drop", "assert"):
            tgt = t.get("target")
            if tgt is not None:
                yield tgt, (avail, consumed, excl, vals)
            return
        if k == "switch":
            d = t["discr"]
            v = None
            dl = None
            if d["k"] in ("copy", "move") and not d["place"]["p"]:
                dl = d["place"]["l"]
                v = vals.get(dl)
            targets = t["targets"]
            if v in ("T", "F"):
                want = 1 if v == "T" else 0
                tg = [x for val, x in targets if val == want]
                yield (tg[0] if tg else t["otherwise"]), (avail, consumed, excl, vals)
                return
            if isinstance(v, tuple) and v[0] == "disc":
                r = v[1]
                rv_ = self._get(vals, r)
                info = body.switch_info(bb)
                vmap = info[1] if info else None
                if vmap and rv_ in ENUM_VALS:
                    idx = [val for val, n in vmap.items() if n == rv_]
                    tg = [x for val, x in targets if idx and val == idx[0]]
                    yield (tg[0] if tg else t["otherwise"]), (avail, consumed, excl, vals)
                    return
                if vmap:
                    listed = set()
                    for val, x in targets:
                        listed.add(val)
                        nv = dict(vals)
                        if vmap.get(val) in ENUM_VALS:
                            nv[r] = vmap[val]
                        yield x, (avail, consumed, excl, nv)
                    rest = [n for val, n in vmap.items() if val not in listed]
                    if rest:
                        nv = dict(vals)
                        if len(rest) == 1 and rest[0] in ENUM_VALS:
                            nv[r] = rest[0]
                        yield t["otherwise"], (avail, consumed, excl, nv)
                    return
            if dl is not None and body.locals[dl]["ty"] == "bool":
                for val, x in targets:
                    nv = dict(vals)
                    nv[dl] = "T" if val else "F"
                    yield x, (avail, consumed, excl, nv)
                nv = dict(vals)
                if len(targets) == 1:
                    nv[dl] = "F" if targets[0][0] else "T"
                yield t["otherwise"], (avail, consumed, excl, nv)
                return
            for s_ in body.succs(bb):
                yield s_, (avail, consumed, excl, vals)
            return
        if k != "call":
            for s_ in body.succs(bb):
                yield s_, (avail, consumed, excl, vals)
            return
        # ---- calls
        tgt = t.get("target")
        dest = t["dest"]["l"] if not t["dest"]["p"] else None
        names = mir.callee_names(t)
        cal = mir.callee(t) or ""
        seg = mir.last_seg(cal)

        def out(retv, av=avail, cons=consumed, ex=excl):
            nv = dict(vals)
            if dest is not None:
                if retv in ("T", "F") or retv in ENUM_VALS:
                    nv[dest] = retv
                else:
                    nv.pop(dest, None)
            if tgt is None:
                return ("div",), (av, cons, ex, nv)
            return tgt, (av, cons, ex, nv)

        p = self.prim(t)
        if p == "next":
            if avail == "EOF":
                yield out("None")
            elif avail == "NE":
                yield out("Some", "UNK", True, frozenset())
            else:
                yield out("None", "EOF")
                yield out("Some", "UNK", True, frozenset())
            return
        if p == "peek":
            if avail == "EOF":
                yield out("None")
            elif avail == "NE":
                yield out("Some")
            else:
                yield out("None", "EOF")
                yield out("Some", "NE")
            return
        if p == "other":
            yield out("*", "UNK", consumed)
            return
        if cal in self.scope or any(n in self.scope for n in names):
            fid = cal if cal in self.scope else [n for n in names if n in self.scope][0]
            if not consumed:
                self.edges[mode_tag].add((body.id, fid))
            summ = self.summary(fid, avail)
            ckey = self.const_key(body, t) if seg in ("peek", "next_matches", "expect") else None
            known = [x[6:] for x in excl if x.startswith("known:")]
            ret_ty = t["dest"]["ty"]
            for (rv_, cons_d, av_out) in summ:
                if rv_ == "DIV":
                    continue
                rvs = ("T", "F") if (rv_ == "*" and ret_ty == "bool") else (rv_,)
                for r1 in rvs:
                    ex = excl
                    if ckey is not None and avail == "NE":
                        is_match = r1 in ("T", "Some", "Ok")
                        no_match = r1 in ("F", "None", "Err")
                        if is_match and (ckey in excl or (known and ckey not in known)):
                            continue  # the next item is known not to be this constant
                        if no_match and ckey in known:
                            continue  # the next item is known to be this constant
                        if no_match and not cons_d:
                            ex = excl | {ckey}
                        if is_match and not cons_d:
                            ex = excl | {"known:" + ckey}
                    if cons_d:
                        ex = frozenset()
                    yield out(r1, av_out, consumed or cons_d, ex)
            return
        # Option / Result helpers of std
        if cal.startswith(("std::option::Option", "std::result::Result")) and t["args"]:
            a = self.val_of_operand(body, vals, t["args"][0])
            if seg in ("is_some", "is_ok"):
                yield out({"Some": "T", "None": "F", "Ok": "T", "Err": "F"}.get(a, "*"))
                return
            if seg in ("is_none", "is_err"):
                yield out({"Some": "F", "None": "T", "Ok": "F", "Err": "T"}.get(a, "*"))
                return
            if seg in PRESERVING:
                yield out(a if a in ENUM_VALS else "*")
                return
            if seg in ("unwrap", "expect"):
                if a == "None":
                    self.unwrap_none[(body.id, bb)] = avail
                    return  # panics
                yield out("*")
                return
            if seg in ("ok", "err"):
                yield out({"Ok": "Some" if seg == "ok" else "None", "Err": "None" if seg == "ok" else "Some"}.get(a, "*"))
                return
        if "std::clone::Clone::clone" in names and t["args"]:
            a = self.val_of_operand(body, vals, t["args"][0])
            yield out(a if a in ENUM_VALS or a in ("T", "F") else "*")
            return
        if "std::ops::FromResidual::from_residual" in names:
            yield out("Err" if "Result<" in t["dest"]["ty"] else "None")
            return
        if "std::ops::Try::branch" in names and t["args"]:
            a = self.val_of_operand(body, vals, t["args"][0])
            # ControlFlow::Continue for Ok/Some, Break for Err/None: model through the destination's variants
            nv = dict(vals)
            if dest is not None:
                if a in ("Ok", "Some"):
                    nv[dest] = "Continue"
                elif a in ("Err", "None"):
                    nv[dest] = "Break"
                else:
                    nv.pop(dest, None)
            if tgt is not None:
                yield tgt, (avail, consumed, excl, nv)
            return
        yield out("*")

    # ---- exploration ---------------------------------------------------------------------------
    @staticmethod
    def _key(bb, st):
        avail, consumed, excl, vals = st
        return (bb, avail, consumed, excl, tuple(sorted((k, v) for k, v in vals.items())))

    def explore(self, body, start, st, mode_tag, within=None, stop_when_consumed=False, allowed=None):
        """Generator of events ('ret', state) | ('edge', u, v, state, path) for edges leaving `within` or back to start."""
        seen = set()
        work = [(start, st, (start,))]
        steps = 0
        while work:
            bb, st, path = work.pop()
            key = self._key(bb, st)
            if key in seen:
                continue
            seen.add(key)
            steps += 1
            if steps > self.budget:
                self.truncated.add(body.id)
                yield ("truncated", None, None, None, path)
                return
            if body.blocks[bb]["cleanup"]:
                continue
            for nxt, nst in self.step(body, bb, st, mode_tag):
                if nxt == ("ret",):
                    yield ("ret", bb, None, nst, path)
                    continue
                if nxt == ("div",):
                    continue
                if stop_when_consumed and nst[1]:
                    yield ("consumed", bb, nxt, nst, path)
                    continue
                if allowed is not None and nxt not in allowed:
                    continue
                if within is not None:
                    if nxt == start:
                        yield ("back", bb, nxt, nst, path)
                        continue
                    if nxt not in within:
                        continue
                work.append((nxt, nst, path + (nxt,) if len(path) < 60 else path))

    def summary(self, fid, avail):
        key = (fid, avail)
        if key in self.memo:
            return self.memo[key]
        if key in self.inprogress:
            return CONSERVATIVE
        self.inprogress.add(key)
        body = self.ctx.body(fid)
        res = set()
        ret_ty = body.locals[0]["ty"]
        for ev in self.explore(body, 0, (avail, False, frozenset(), {}), "summary:" + avail, stop_when_consumed=True):
            if ev[0] == "truncated":
                res |= set(CONSERVATIVE)
                break
            if ev[0] == "consumed":
                # after the first consumption nothing more is tracked: any result, unknown cursor state
                res.add(("*", True, "UNK"))
                continue
            if ev[0] == "ret":
                st = ev[3]
                v = self._get(st[3], 0)
                if ret_ty == "bool":
                    v = v if v in ("T", "F") else "*"
                elif v not in ENUM_VALS:
                    v = "*"
                res.add((v, st[1], st[0]))
        if not res:
            res = {("DIV", False, avail)}
        self.inprogress.discard(key)
        out = frozenset(res)
        self.memo[key] = out
        return out

    # ---- loops --------------------------------------------------------------------------------------
    def loop_kind(self, body, lp):
        """'finite' if the loop's own exit is the exhaustion of a non-input iterator, else 'input'."""
        for b in lp["body"]:
            t = body.term(b)
            if t and t["k"] == "call" and t["func"].get("declared") == "std::iter::Iterator::next" and self.prim(t) is None:
                # does the None edge of this call leave the loop?
                for x in lp["body"]:
                    info = body.switch_info(x)
                    if info and info[0] and info[0][0][0] == "call" and info[0][0][1] == b:
                        if any(s_ not in lp["body"] for s_ in body.succs(x)):
                            return "finite"
        return "input"

    def loop_iteration(self, body, lp, avail, mode_tag):
        """Feasible header->header paths of one iteration starting with the given avail; yields (path, state)."""
        for ev in self.explore(body, lp["header"], (avail, False, frozenset(), {}), mode_tag, within=lp["body"],
                               stop_when_consumed=(avail == "NE")):
            if ev[0] == "back":
                yield list(ev[4]) + [ev[1]], ev[3]
            elif ev[0] == "truncated":
                yield list(ev[4]), None
