"""Fact extraction: run the gl-facts rustc driver over the *current* /repo tree and load the JSON.

Facts are cached under /verif/.cache/<tree-hash>-<config>/ keyed by a content hash of everything
that feeds the build (Cargo.toml, Cargo.lock, src/**), so a changed working tree is always
re-extracted; the cargo target dir is a fresh mktemp dir per extraction (cargo's freshness cache
would otherwise skip the wrapper) and is removed afterwards.
"""
import hashlib
import json
import os
import shutil
import subprocess
import sys
import tempfile
import time

VERIF = os.path.dirname(os.path.dirname(os.path.abspath(__file__)))
REPO = os.environ.get("GL_REPO", "/repo")
DRIVER_DIR = os.path.join(VERIF, "engine", "gl-facts")
DRIVER = os.path.join(DRIVER_DIR, "target", "release", "gl-facts")
CACHE = os.environ.get("GL_CACHE", os.path.join(VERIF, ".cache"))

CONFIGS = {
    # the configuration the baseline tests build
    "default": ["--lib"],
    # all four cargo features (serde / schemars derives, plot helper); the CLI binary has no library logic
    "allfeatures": ["--lib", "--all-features"],
}


class BuildError(Exception):
    pass


def _env():
    env = dict(os.environ)
    env["CARGO_NET_OFFLINE"] = "true"
    return env


def ensure_driver():
    src = [os.path.join(DRIVER_DIR, "src", f) for f in os.listdir(os.path.join(DRIVER_DIR, "src"))]
    src.append(os.path.join(DRIVER_DIR, "Cargo.toml"))
    if os.path.exists(DRIVER) and all(os.path.getmtime(DRIVER) >= os.path.getmtime(p) for p in src):
        return
    r = subprocess.run(
        ["cargo", "+nightly", "build", "--release", "--offline"],
        cwd=DRIVER_DIR, env=_env(), stdout=subprocess.PIPE, stderr=subprocess.STDOUT, text=True)
    if r.returncode != 0 or not os.path.exists(DRIVER):
        raise BuildError("gl-facts driver failed to build:\n" + r.stdout[-4000:])


def tree_hash(repo=None):
    repo = repo or REPO
    h = hashlib.sha256()
    files = []
    for name in ("Cargo.toml", "Cargo.lock"):
        p = os.path.join(repo, name)
        if os.path.exists(p):
            files.append(p)
    for root, dirs, fs in os.walk(os.path.join(repo, "src")):
        dirs.sort()
        for f in sorted(fs):
            files.append(os.path.join(root, f))
    for p in sorted(files):
        h.update(os.path.relpath(p, repo).encode())
        h.update(b"\0")
        with open(p, "rb") as fh:
            h.update(fh.read())
        h.update(b"\0")
    # the driver is part of what determines the facts
    for p in sorted(os.listdir(os.path.join(DRIVER_DIR, "src"))):
        with open(os.path.join(DRIVER_DIR, "src", p), "rb") as fh:
            h.update(fh.read())
    return h.hexdigest()[:20]


def _sysroot():
    r = subprocess.run(["rustc", "+nightly", "--print", "sysroot"], stdout=subprocess.PIPE, text=True)
    return r.stdout.strip()


def extract(config="default", repo=None):
    """Returns (path to facts.json, seconds spent extracting or 0.0 when cached)."""
    repo = repo or REPO
    ensure_driver()
    key = "%s-%s" % (tree_hash(repo), config)
    cdir = os.path.join(CACHE, key)
    out = os.path.join(cdir, "facts.json")
    if os.path.exists(out):
        return out, 0.0
    t0 = time.time()
    os.makedirs(CACHE, exist_ok=True)
    tmp_target = tempfile.mkdtemp(prefix="glf-target-")
    tmp_out = tempfile.mkdtemp(prefix="glf-out-")
    try:
        env = _env()
        env["LD_LIBRARY_PATH"] = os.path.join(_sysroot(), "lib") + ":" + env.get("LD_LIBRARY_PATH", "")
        env["RUSTFLAGS"] = "-Zmir-opt-level=0 -Awarnings"
        env["RUSTC_WORKSPACE_WRAPPER"] = DRIVER
        env["GL_FACTS_OUT"] = tmp_out
        env["GL_FACTS_CRATE"] = "garble_lang"
        env["CARGO_TARGET_DIR"] = tmp_target
        cmd = ["cargo", "+nightly", "check", "--offline"] + CONFIGS[config]
        r = subprocess.run(cmd, cwd=repo, env=env, stdout=subprocess.PIPE, stderr=subprocess.STDOUT, text=True)
        if r.returncode != 0:
            raise BuildError("cargo check of %s failed (config %s):\n%s" % (repo, config, r.stdout[-6000:]))
        produced = [f for f in os.listdir(tmp_out) if f.startswith("garble_lang-") and f.endswith(".json")]
        if len(produced) != 1:
            raise BuildError("expected exactly one fact file for garble_lang, found %r" % (produced,))
        tmp_c = tempfile.mkdtemp(prefix="tmp-", dir=CACHE)
        shutil.move(os.path.join(tmp_out, produced[0]), os.path.join(tmp_c, "facts.json"))
        try:
            os.rename(tmp_c, cdir)
        except OSError:
            shutil.rmtree(tmp_c, ignore_errors=True)  # somebody else won the race
        _prune_cache(keep=key)
    finally:
        shutil.rmtree(tmp_target, ignore_errors=True)
        shutil.rmtree(tmp_out, ignore_errors=True)
    if not os.path.exists(out):
        raise BuildError("fact file missing after extraction")
    return out, time.time() - t0


def _prune_cache(keep, max_entries=12):
    try:
        ents = [e for e in os.listdir(CACHE) if not e.startswith("tmp-")]
        ents = sorted(ents, key=lambda e: os.path.getmtime(os.path.join(CACHE, e)))
        for e in ents[:-max_entries]:
            if e != keep:
                shutil.rmtree(os.path.join(CACHE, e), ignore_errors=True)
    except OSError:
        pass


def _local_callees(f):
    out = set()
    for blk in (f.get("mir") or {}).get("blocks", []):
        t = blk.get("term")
        if t and t.get("k") == "call":
            fn = t.get("func") or {}
            if fn.get("local") and (fn.get("resolved") or fn.get("declared")):
                out.add(fn.get("resolved") or fn["declared"])
    return out


def normalize_renames(text, doc):
    """A private function that was merely renamed (or moved between `impl X { fn f(&self) }` and a free `fn f(x: &X)` of the same
    file) is given back the name the rules know it by.  Candidates come from glcheck/anchors.json (tools/freeze_anchors.py): a
    known function that is missing, and exactly one unknown function of the same file with the same parameter and result types
    whose crate-local callees are at least half the same.  Returns (new text or None, {new id: known id})."""
    import re
    path = os.path.join(os.path.dirname(__file__), "anchors.json")
    if not os.path.exists(path):
        return None, {}
    with open(path) as fh:
        table = json.load(fh)["fns"]
    present = {f["id"]: f for f in doc["fns"] if f["kind"] != "closure"}
    missing = [a for a in table if a not in present]
    unknown = [f for i, f in present.items() if i not in table and not f.get("from_expansion")]
    renames = {}
    scored = {}
    callers_now = {}
    for f in doc["fns"]:
        who = f["id"] if f["kind"] != "closure" else f["id"].split("::{closure")[0]
        for c in _local_callees(f):
            callers_now.setdefault(c, set()).add(who)
    for a in missing:
        want = table[a]
        for f in unknown:
            if f["sp"][0] != want["file"] or f.get("output") != want["output"]:
                continue
            same_order = f.get("inputs") == want["inputs"]
            # (a free function turned into a method, or the reverse, may also move its receiver to the front: the same parameter
            # types in another order count when all of them are different types)
            permuted = (not same_order and sorted(f.get("inputs") or []) == sorted(want["inputs"] or []) and
                        len(set(want["inputs"] or [])) == len(want["inputs"] or []))
            if not (same_order or permuted):
                continue
            have = {c for c in _local_callees(f)} - {f["id"]}      # (recursion shows up under the new name)
            old = set(want["callees"]) - {a}
            union = have | old
            sim = len(have & old) / len(union) if union else 1.0
            if sim >= 0.5:
                size = abs(len((f.get("mir") or {}).get("blocks", [])) - (want.get("blocks") or 0))
                cu = callers_now.get(f["id"], set()) | set(want.get("callers") or ())
                csim = len(callers_now.get(f["id"], set()) & set(want.get("callers") or ())) / len(cu) if cu else 1.0
                scored.setdefault(a, []).append((-sim, -csim, size, f["id"]))
    # several renamed functions can share one signature (optimize_xor / optimize_and): each anchor takes its best candidate (callees,
    # then size of the body) if that is strictly better than the next one and no other anchor wants the same function
    taken = {}
    for a, cands in scored.items():
        cands.sort()
        if len(cands) == 1 or cands[0][:3] < cands[1][:3]:
            taken.setdefault(cands[0][3], []).append((cands[0][:3], a))
    for new_id, wanted_by in taken.items():
        wanted_by.sort()
        if len(wanted_by) == 1 or wanted_by[0][0] < wanted_by[1][0]:
            renames[new_id] = wanted_by[0][1]
    if not renames:
        return None, {}
    for new, old in sorted(renames.items(), key=lambda kv: -len(kv[0])):
        text = re.sub(re.escape(new) + r"(?![A-Za-z0-9_])", old.replace("\\", "\\\\"), text)
    return text, renames


def _renumber(node, perm):
    """applies the local renumbering `perm` ({old: new}) to every place / index projection below `node`"""
    if isinstance(node, dict):
        if "l" in node and "p" in node and isinstance(node["l"], int):
            node["l"] = perm.get(node["l"], node["l"])
        if node.get("k") == "index" and isinstance(node.get("local"), int):
            node["local"] = perm.get(node["local"], node["local"])
        for v in node.values():
            _renumber(v, perm)
    elif isinstance(node, list):
        for v in node:
            _renumber(v, perm)


def normalize_param_order(doc):
    """A private function whose parameter list was merely reordered (same names and types as frozen in anchors.json, another order)
    is put back into the frozen order: its argument locals are renumbered and the operands of every direct call are permuted.  The
    rules name parameters by position.  Returns {function id: new order as written in the source}."""
    path = os.path.join(os.path.dirname(__file__), "anchors.json")
    if not os.path.exists(path):
        return {}
    with open(path) as fh:
        table = json.load(fh)["fns"]
    done = {}
    by_id = {f["id"]: f for f in doc["fns"]}
    for fid, want in table.items():
        f = by_id.get(fid)
        if not f or not f.get("mir") or f.get("pub") or not want.get("param_names"):
            continue
        m = f["mir"]
        n = m["arg_count"]
        have = [(m["locals"][i].get("name"), m["locals"][i]["ty"]) for i in range(1, n + 1)]
        frozen = list(zip(want["param_names"], want.get("param_tys") or []))
        if have == frozen or len(have) != len(frozen):
            continue
        have_tys, frozen_tys = [t for _, t in have], [t for _, t in frozen]
        if sorted(map(str, have)) == sorted(map(str, frozen)) and len(set(have)) == len(have) and not any(nm is None for nm, _ in have):
            # perm: local index now -> local index in the frozen order (same names and types, another order)
            perm = {i + 1: frozen.index(have[i]) + 1 for i in range(n)}
        elif have_tys != frozen_tys and sorted(have_tys) == sorted(frozen_tys) and len(set(have_tys)) == len(have_tys):
            # all parameter types differ from each other: the order is recovered from the types (names may have changed, e.g. a
            # parameter that became `self`)
            perm = {i + 1: frozen_tys.index(have_tys[i]) + 1 for i in range(n)}
        else:
            continue
        _renumber(m["blocks"], perm)
        new_locals = list(m["locals"])
        for old_i, new_i in perm.items():
            new_locals[new_i] = m["locals"][old_i]
        m["locals"] = new_locals
        for key in ("inputs", "params"):
            if isinstance(f.get(key), list) and len(f[key]) == n:
                f[key] = [f[key][[o for o, nn in perm.items() if nn == j + 1][0] - 1] for j in range(n)]
        # call sites
        for g in doc["fns"]:
            for blk in (g.get("mir") or {}).get("blocks", []):
                t = blk.get("term")
                if t and t.get("k") == "call" and len(t.get("args", [])) == n:
                    fn = t.get("func") or {}
                    if fid in (fn.get("resolved"), fn.get("declared")):
                        t["args"] = [t["args"][[o for o, nn in perm.items() if nn == j + 1][0] - 1] for j in range(n)]
        done[fid] = [nm for nm, _ in have]
    return done


def _rename_fields(node, ren):
    if isinstance(node, dict):
        if node.get("k") == "field" and (node.get("name"), node.get("i")) in ren:
            node["name"] = ren[(node["name"], node["i"])]
        if isinstance(node.get("fields"), list) and node.get("k") == "aggregate":
            node["fields"] = [ren.get((n, i), n) if isinstance(n, str) else n for i, n in enumerate(node["fields"])]
        for v in node.values():
            _rename_fields(v, ren)
    elif isinstance(node, list):
        for v in node:
            _rename_fields(v, ren)


def normalize_field_names(doc):
    """A private struct field that was merely renamed (same struct, same position, same type; the new name is not a field name of any
    frozen struct) gets the name back that the rules read it by.  Returns {(struct, new name): frozen name}."""
    path = os.path.join(os.path.dirname(__file__), "anchors.json")
    if not os.path.exists(path):
        return {}
    with open(path) as fh:
        frozen = json.load(fh).get("structs", {})
    known = {n for fl in frozen.values() for (n, _, _) in fl}
    ren, report = {}, {}
    for a in doc["adts"]:
        want = frozen.get(a.get("path"))
        if not want or a.get("kind") != "Struct" or len(a.get("variants", [])) != 1:
            continue
        have = a["variants"][0]["fields"]
        if len(have) != len(want) or [f["ty"] for f in have] != [t for (_, t, _) in want]:
            continue
        for i, (f, (name, _, was_pub)) in enumerate(zip(have, want)):
            if f["name"] != name and not was_pub and not f.get("pub") and f["name"] not in known:
                if (f["name"], i) in ren and ren[(f["name"], i)] != name:
                    return {}       # two structs renamed a field at the same position to the same new name: ambiguous
                ren[(f["name"], i)] = name
                report["%s.%s" % (a["path"], f["name"])] = name
                f["name"] = name
    if ren:
        for g in doc["fns"]:
            _rename_fields(g.get("mir"), ren)
            _rename_fields(g.get("promoted"), ren)
    return report


def load(config="default", repo=None, raw=False):
    path, secs = extract(config, repo)
    with open(path) as fh:
        text = fh.read()
    doc = json.loads(text)
    if doc.get("crate") != "garble_lang":
        raise BuildError("fact file is not for garble_lang")
    renames = {}
    if not raw:
        new_text, renames = normalize_renames(text, doc)
        if new_text is not None:
            doc = json.loads(new_text)
    doc["_renames"] = renames
    doc["_reordered"] = {} if raw else normalize_param_order(doc)
    doc["_fields"] = {} if raw else normalize_field_names(doc)
    doc["_extract_s"] = secs
    doc["_path"] = path
    return doc


if __name__ == "__main__":
    p, s = extract(sys.argv[1] if len(sys.argv) > 1 else "default")
    print(p, "%.1fs" % s)
