"""Fact extraction: run the gl-facts rustc driver over the *current* /repo tree and load the JSON.

Facts are cached under /verif/.cache/<tree-hash>-<config>/ keyed by a content hash of everything
that feeds the build (Cargo.toml, Cargo.lock, src/**), so a changed working tree is always
re-extracted; the cargo target dir is a fresh mktemp dir per extraction (cargo's freshness cache
would otherwise skip the wrapper) and is removed afterwards.
"""
import hashlib
import json
import os
import shutil
import subprocess
import sys
import tempfile
import time

VERIF = os.path.dirname(os.path.dirname(os.path.abspath(__file__)))
REPO = os.environ.get("GL_REPO", "/repo")
DRIVER_DIR = os.path.join(VERIF, "engine", "gl-facts")
DRIVER = os.path.join(DRIVER_DIR, "target", "release", "gl-facts")
CACHE = os.environ.get("GL_CACHE", os.path.join(VERIF, ".cache"))

CONFIGS = {
    # the configuration the baseline tests build
    "default": ["--lib"],
    # all four cargo features (serde / schemars derives, plot helper); the CLI binary has no library logic
    "allfeatures": ["--lib", "--all-features"],
}


class BuildError(Exception):
    pass


def _env():
    env = dict(os.environ)
    env["CARGO_NET_OFFLINE"] = "true"
    return env


def ensure_driver():
    src = [os.path.join(DRIVER_DIR, "src", f) for f in os.listdir(os.path.join(DRIVER_DIR, "src"))]
    src.append(os.path.join(DRIVER_DIR, "Cargo.toml"))
    if os.path.exists(DRIVER) and all(os.path.getmtime(DRIVER) >= os.path.getmtime(p) for p in src):
        return
    r = subprocess.run(
        ["cargo", "+nightly", "build", "--release", "--offline"],
        cwd=DRIVER_DIR, env=_env(), stdout=subprocess.PIPE, stderr=subprocess.STDOUT, text=True)
    if r.returncode != 0 or not os.path.exists(DRIVER):
        raise BuildError("gl-facts driver failed to build:\n" + r.stdout[-4000:])


def tree_hash(repo=None):
    repo = repo or REPO
    h = hashlib.sha256()
    files = []
    for name in ("Cargo.toml", "Cargo.lock"):
        p = os.path.join(repo, name)
        if os.path.exists(p):
            files.append(p)
    for root, dirs, fs in os.walk(os.path.join(repo, "src")):
        dirs.sort()
        for f in sorted(fs):
            files.append(os.path.join(root, f))
    for p in sorted(files):
        h.update(os.path.relpath(p, repo).encode())
        h.update(b"\0")
        with open(p, "rb") as fh:
            h.update(fh.read())
        h.update(b"\0")
    # the driver is part of what determines the facts
    for p in sorted(os.listdir(os.path.join(DRIVER_DIR, "src"))):
        with open(os.path.join(DRIVER_DIR, "src", p), "rb") as fh:
            h.update(fh.read())
    return h.hexdigest()[:20]


def _sysroot():
    r = subprocess.run(["rustc", "+nightly", "--print", "sysroot"], stdout=subprocess.PIPE, text=True)
    return r.stdout.strip()


def extract(config="default", repo=None):
    """Returns (path to facts.json, seconds spent extracting or 0.0 when cached)."""
    repo = repo or REPO
    ensure_driver()
    key = "%s-%s" % (tree_hash(repo), config)
    cdir = os.path.join(CACHE, key)
    out = os.path.join(cdir, "facts.json")
    if os.path.exists(out):
        return out, 0.0
    t0 = time.time()
    os.makedirs(CACHE, exist_ok=True)
    tmp_target = tempfile.mkdtemp(prefix="glf-target-")
    tmp_out = tempfile.mkdtemp(prefix="glf-out-")
    try:
        env = _env()
        env["LD_LIBRARY_PATH"] = os.path.join(_sysroot(), "lib") + ":" + env.get("LD_LIBRARY_PATH", "")
        env["RUSTFLAGS"] = "-Zmir-opt-level=0 -Awarnings"
        env["RUSTC_WORKSPACE_WRAPPER"] = DRIVER
        env["GL_FACTS_OUT"] = tmp_out
        env["GL_FACTS_CRATE"] = "garble_lang"
        env["CARGO_TARGET_DIR"] = tmp_target
        cmd = ["cargo", "+nightly", "check", "--offline"] + CONFIGS[config]
        r = subprocess.run(cmd, cwd=repo, env=env, stdout=subprocess.PIPE, stderr=subprocess.STDOUT, text=True)
        if r.returncode != 0:
            raise BuildError("cargo check of %s failed (config %s):\n%s" % (repo, config, r.stdout[-6000:]))
        produced = [f for f in os.listdir(tmp_out) if f.startswith("garble_lang-") and f.endswith(".json")]
        if len(produced) != 1:
            raise BuildError("expected exactly one fact file for garble_lang, found %r" % (produced,))
        tmp_c = tempfile.mkdtemp(prefix="tmp-", dir=CACHE)
        shutil.move(os.path.join(tmp_out, produced[0]), os.path.join(tmp_c, "facts.json"))
        try:
            os.rename(tmp_c, cdir)
        except OSError:
            shutil.rmtree(tmp_c, ignore_errors=True)  # somebody else won the race
        _prune_cache(keep=key)
    finally:
        shutil.rmtree(tmp_target, ignore_errors=True)
        shutil.rmtree(tmp_out, ignore_errors=True)
    if not os.path.exists(out):
        raise BuildError("fact file missing after extraction")
    return out, time.time() - t0


def _prune_cache(keep, max_entries=12):
    try:
        ents = [e for e in os.listdir(CACHE) if not e.startswith("tmp-")]
        ents = sorted(ents, key=lambda e: os.path.getmtime(os.path.join(CACHE, e)))
        for e in ents[:-max_entries]:
            if e != keep:
                shutil.rmtree(os.path.join(CACHE, e), ignore_errors=True)
    except OSError:
        pass


def load(config="default", repo=None):
    path, secs = extract(config, repo)
    with open(path) as fh:
        doc = json.load(fh)
    if doc.get("crate") != "garble_lang":
        raise BuildError("fact file is not for garble_lang")
    doc["_extract_s"] = secs
    doc["_path"] = path
    return doc


if __name__ == "__main__":
    p, s = extract(sys.argv[1] if len(sys.argv) > 1 else "default")
    print(p, "%.1fs" % s)
