"""HIR tree utilities over the JSON facts: walking, resolved-pattern matching and arm selection."""

ANY = ("*",)

CHILD_KEYS = ("stmts", "expr", "es", "args", "recv", "fun", "l", "r", "x", "i", "init", "cond", "then",
              "els", "body", "scrut", "arms", "guard", "fields", "base", "e")


def children(node):
    """Direct child expression nodes (dicts with 'k'), in source order."""
    if isinstance(node, list):
        for x in node:
            if isinstance(x, dict):
                yield x
        return
    if not isinstance(node, dict):
        return
    for key in CHILD_KEYS:
        if key not in node:
            continue
        v = node[key]
        if isinstance(v, dict):
            if "k" in v:
                yield v
            else:
                # arm / field record
                yield v
        elif isinstance(v, list):
            for x in v:
                if isinstance(x, dict):
                    yield x


def walk(node, skip_closures=False):
    """Pre-order walk over all expression nodes (records without 'k' such as arms are descended
    into but not yielded)."""
    stack = [node]
    while stack:
        n = stack.pop()
        if isinstance(n, dict):
            if "k" in n and "sp" in n and n["k"] not in ("Wild", "Binding", "TupleStruct", "Struct", "Or", "Tuple",
                                                       "Ref", "Box", "Deref", "Range", "Slice", "Guard",
                                                       "OtherPat", "OtherPatExpr"):
                yield n
                if skip_closures and n["k"] == "Closure":
                    continue
            # patterns are not descended (they are not expressions); 'pat' is not in CHILD_KEYS
            ch = list(children(n))
            stack.extend(reversed(ch))
        elif isinstance(n, list):
            stack.extend(reversed(n))


def calls(node, skip_closures=False):
    """All Call / MethodCall nodes with a resolved callee under node."""
    for n in walk(node, skip_closures):
        if n["k"] in ("Call", "MethodCall") and n.get("callee"):
            yield n


def pat_variants(p, acc=None):
    """All resolved def paths mentioned in a pattern."""
    if acc is None:
        acc = set()
    if not isinstance(p, dict):
        return acc
    r = p.get("res")
    if r and r.get("kind") == "def":
        acc.add(r["path"])
    for key in ("subs",):
        for x in p.get(key, []) or []:
            pat_variants(x, acc)
    if "sub" in p:
        pat_variants(p["sub"], acc)
    for f in p.get("fields", []) or []:
        if isinstance(f, dict) and "pat" in f:
            pat_variants(f["pat"], acc)
    return acc


def pat_bindings(p, acc=None):
    if acc is None:
        acc = []
    if not isinstance(p, dict):
        return acc
    if p.get("k") == "Binding":
        acc.append(p["name"])
    for x in p.get("subs", []) or []:
        pat_bindings(x, acc)
    if "sub" in p:
        pat_bindings(p["sub"], acc)
    for f in p.get("fields", []) or []:
        if isinstance(f, dict) and "pat" in f:
            pat_bindings(f["pat"], acc)
    return acc


def irrefutable(p):
    k = p.get("k")
    if k == "Wild":
        return True
    if k == "Binding":
        return "sub" not in p or irrefutable(p["sub"])
    if k in ("Ref", "Box", "Deref"):
        return irrefutable(p["sub"])
    if k == "Tuple":
        return all(irrefutable(x) for x in p["subs"])
    return False


def pmatch(p, v):
    """Does pattern p match abstract value v?  v = ANY | (ctor_path, [children]) where children may
    be a list (positional) or dict (named).  Returns True / False / None (undetermined)."""
    k = p.get("k")
    if k == "Wild":
        return True
    if k == "Binding":
        return pmatch(p["sub"], v) if "sub" in p else True
    if k in ("Ref", "Box", "Deref"):
        return pmatch(p["sub"], v)
    if k == "Or":
        rs = [pmatch(x, v) for x in p["subs"]]
        if any(r is True for r in rs):
            return True
        if all(r is False for r in rs):
            return False
        return None
    if v is ANY or v == ANY:
        return True if irrefutable(p) else None
    ctor, kids = v
    if k == "Path":
        r = p.get("res", {})
        if r.get("kind") != "def":
            return None
        return r["path"] == ctor
    if k == "TupleStruct":
        r = p.get("res", {})
        if r.get("kind") != "def":
            return None
        if r["path"] != ctor:
            return False
        subs = p["subs"]
        dd = p.get("ddpos")
        res = True
        if dd is None:
            pairs = list(zip(subs, list(kids) + [ANY] * (len(subs) - len(kids))))
        else:
            # `..` in the middle: match prefix only (suffix positions unknown arity)
            pairs = list(zip(subs[:dd], list(kids) + [ANY] * dd))
            for extra in subs[dd:]:
                pairs.append((extra, ANY))
        for sp, sv in pairs:
            r2 = pmatch(sp, sv)
            if r2 is False:
                return False
            if r2 is None:
                res = None
        return res
    if k == "Struct":
        r = p.get("res", {})
        if r.get("kind") != "def":
            return None
        if r["path"] != ctor:
            return False
        res = True
        named = kids if isinstance(kids, dict) else {}
        for f in p["fields"]:
            r2 = pmatch(f["pat"], named.get(f["name"], ANY))
            if r2 is False:
                return False
            if r2 is None:
                res = None
        return res
    if k == "Tuple":
        if ctor != "()":
            return None
        res = True
        for sp, sv in zip(p["subs"], list(kids) + [ANY] * len(p["subs"])):
            r2 = pmatch(sp, sv)
            if r2 is False:
                return False
            if r2 is None:
                res = None
        return res
    return None


class ArmSelectError(Exception):
    pass


def select_arm(match_node, value):
    """First arm (in source order) that matches the abstract value; guards make an arm 'maybe'."""
    for idx, arm in enumerate(match_node["arms"]):
        r = pmatch(arm["pat"], value)
        if r is False:
            continue
        if r is True and arm.get("guard") is None:
            return idx, arm
        raise ArmSelectError("arm %d of match at %s is undetermined for %r" % (idx, match_node["sp"], value))
    raise ArmSelectError("no arm of match at %s matches %r" % (match_node["sp"], value))


def matches_on(node, ty_substr, skip_closures=True, source="Normal"):
    """Match nodes under node whose scrutinee type contains ty_substr, outermost first."""
    out = []
    for n in walk(node, skip_closures):
        if n["k"] == "Match" and ty_substr in n.get("scrut_ty", "") and (source is None or n.get("source") == source):
            out.append(n)
    return out


def path_name(n):
    """Name of a local if node is a path to a local."""
    if n.get("k") == "Path" and n["res"].get("kind") == "local":
        return n["res"]["name"]
    return None


def path_def(n):
    if n.get("k") == "Path" and n["res"].get("kind") == "def":
        return n["res"]["path"]
    return None


def strip_refs(n):
    while isinstance(n, dict) and n.get("k") in ("AddrOf",) or (isinstance(n, dict) and n.get("k") == "Unary" and n.get("op") == "Deref"):
        n = n["x"]
    return n
