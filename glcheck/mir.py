"""MIR utilities over the JSON facts: CFG, dominators, loops, access paths, value origins,
variant-assumption path pruning and must-pass-through queries."""
from collections import defaultdict, deque

# callee (declared or resolved def path) -> index of the argument whose value "is" the result for
# origin tracking.  These are std functions that only copy / borrow / re-wrap their receiver.
TRANSPARENT = {
    "std::clone::Clone::clone": 0,
    "std::ops::Deref::deref": 0,
    "std::ops::DerefMut::deref_mut": 0,
    "std::borrow::ToOwned::to_owned": 0,
    "std::convert::AsRef::as_ref": 0,
    "std::convert::AsMut::as_mut": 0,
    "std::borrow::Borrow::borrow": 0,
    "std::borrow::BorrowMut::borrow_mut": 0,
    "std::convert::Into::into": 0,
    "std::convert::From::from": 0,
    "std::string::ToString::to_string": 0,
    "std::vec::Vec::<T, A>::as_slice": 0,
    "std::vec::Vec::<T, A>::as_mut_slice": 0,
    "std::string::String::as_str": 0,
    "std::boxed::Box::<T>::new": 0,
    "std::option::Option::<T>::as_ref": 0,
    "std::option::Option::<T>::as_mut": 0,
    "std::option::Option::<&T>::cloned": 0,
    "std::option::Option::<&T>::copied": 0,
    "std::iter::IntoIterator::into_iter": 0,
    "std::slice::<impl [T]>::iter": 0,
    "std::slice::<impl [T]>::iter_mut": 0,
    "core::slice::<impl [T]>::iter": 0,
    "core::slice::<impl [T]>::iter_mut": 0,
    "std::slice::<impl [T]>::to_vec": 0,
    "std::iter::Iterator::enumerate": 0,
    "std::iter::Iterator::rev": 0,
    "std::iter::Iterator::copied": 0,
    "std::iter::Iterator::cloned": 0,
    "std::iter::Iterator::peekable": 0,
    "std::iter::Iterator::skip": 0,
    "std::iter::Iterator::take": 0,
    # element access through Index/IndexMut is followed into the indexed value with a `[i]` path element
    "@index": 0,
}


def proj_names(proj):
    out = []
    for e in proj:
        k = e["k"]
        if k == "deref":
            continue
        if k == "field":
            out.append(e["name"])
        elif k == "downcast":
            out.append("as " + e["variant"])
        elif k == "index":
            out.append("[_%d]" % e["local"])
        elif k == "constindex":
            out.append("[%s%d]" % ("-" if e.get("from_end") else "", e["offset"]))
        elif k == "subslice":
            out.append("[..]")
        else:
            out.append("?")
    return tuple(out)


def callee_names(term):
    f = term["func"]
    names = []
    if f.get("resolved"):
        names.append(f["resolved"])
    if f.get("declared") and f["declared"] not in names:
        names.append(f["declared"])
    return names


def callee(term):
    """Preferred single name for a call: resolved instance if any, else declared, else None."""
    f = term["func"]
    return f.get("resolved") or f.get("declared")


def last_seg(path):
    if path is None:
        return None
    # strip generic args segments like ::<T>
    depth = 0
    cur = ""
    segs = []
    i = 0
    while i < len(path):
        c = path[i]
        if c in "<([":
            depth += 1
        elif c in ">)]":
            depth -= 1
        if depth == 0 and path.startswith("::", i):
            segs.append(cur)
            cur = ""
            i += 2
            continue
        cur += c
        i += 1
    segs.append(cur)
    segs = [s for s in segs if s and not s.startswith("<") or s.startswith("<impl")]
    return segs[-1] if segs else path


class Body:
    def __init__(self, fn):
        self.fn = fn
        self.id = fn["id"]
        m = fn["mir"]
        self.blocks = m["blocks"]
        self.locals = m["locals"]
        self.arg_count = m["arg_count"]
        self.n = len(self.blocks)
        self._succ = {}
        self._pred = None
        self._idom = None
        self._rpo = None
        self._defs = None
        self._loops = None

    # ---- CFG ---------------------------------------------------------------------------
    def term(self, b):
        return self.blocks[b]["term"]

    def succs(self, b, unwind=False):
        key = (b, unwind)
        if key in self._succ:
            return self._succ[key]
        t = self.blocks[b]["term"]
        out = []
        if t is not None:
            k = t["k"]
            if k == "goto":
                out = [t["target"]]
            elif k == "switch":
                out = [x[1] for x in t["targets"]] + [t["otherwise"]]
            elif k in ("call", "assert", "drop"):
                if t.get("target") is not None:
                    out = [t["target"]]
                if unwind and t.get("unwind") is not None:
                    out = out + [t["unwind"]]
        # dedupe, keep order
        seen = set()
        res = []
        for x in out:
            if x not in seen:
                seen.add(x)
                res.append(x)
        self._succ[key] = res
        return res

    def preds(self):
        if self._pred is None:
            p = defaultdict(list)
            for b in range(self.n):
                for s in self.succs(b):
                    p[s].append(b)
            self._pred = p
        return self._pred

    def returns(self):
        return [b for b in range(self.n) if self.term(b) and self.term(b)["k"] == "return"]

    def rpo(self):
        if self._rpo is None:
            seen = set()
            order = []
            stack = [(0, iter(self.succs(0)))]
            seen.add(0)
            while stack:
                b, it = stack[-1]
                adv = False
                for s in it:
                    if s not in seen:
                        seen.add(s)
                        stack.append((s, iter(self.succs(s))))
                        adv = True
                        break
                if not adv:
                    order.append(b)
                    stack.pop()
            order.reverse()
            self._rpo = order
        return self._rpo

    def idom(self):
        """Cooper-Harvey-Kennedy dominators over non-unwind edges from bb0."""
        if self._idom is not None:
            return self._idom
        rpo = self.rpo()
        num = {b: i for i, b in enumerate(rpo)}
        preds = self.preds()
        idom = {0: 0}

        def intersect(a, b):
            while a != b:
                while num[a] > num[b]:
                    a = idom[a]
                while num[b] > num[a]:
                    b = idom[b]
            return a

        changed = True
        while changed:
            changed = False
            for b in rpo[1:]:
                new = None
                for p in preds[b]:
                    if p in idom and p in num:
                        new = p if new is None else intersect(p, new)
                if new is not None and idom.get(b) != new:
                    idom[b] = new
                    changed = True
        self._idom = idom
        return idom

    def dominates(self, a, b):
        """block a dominates block b (reflexive)."""
        idom = self.idom()
        if b not in idom or a not in idom:
            return False
        while True:
            if a == b:
                return True
            if b == 0:
                return False
            b = idom[b]

    def loops(self):
        """Natural loops: list of dicts {header, latches, body(set)}; one per header."""
        if self._loops is not None:
            return self._loops
        preds = self.preds()
        byh = {}
        for b in self.rpo():
            for s in self.succs(b):
                if self.dominates(s, b):
                    byh.setdefault(s, []).append(b)
        loops = []
        for h, latches in byh.items():
            body = {h}
            work = list(latches)
            while work:
                x = work.pop()
                if x in body:
                    continue
                body.add(x)
                for p in preds[x]:
                    if p not in body:
                        work.append(p)
            loops.append({"header": h, "latches": latches, "body": body})
        self._loops = loops
        return loops

    def reachable(self, starts, blocked=(), succ=None, unwind=False):
        succ = succ or (lambda b: self.succs(b, unwind))
        blocked = set(blocked)
        seen = set()
        work = [s for s in starts if s not in blocked]
        while work:
            b = work.pop()
            if b in seen:
                continue
            seen.add(b)
            for s in succ(b):
                if s not in seen and s not in blocked:
                    work.append(s)
        return seen

    def path(self, start, goals, blocked=(), succ=None):
        """Shortest block path start -> any goal avoiding blocked, or None."""
        succ = succ or (lambda b: self.succs(b))
        goals = set(goals)
        blocked = set(blocked)
        if start in blocked:
            return None
        prev = {start: None}
        dq = deque([start])
        while dq:
            b = dq.popleft()
            if b in goals:
                p = []
                while b is not None:
                    p.append(b)
                    b = prev[b]
                return p[::-1]
            for s in succ(b):
                if s not in prev and s not in blocked:
                    prev[s] = b
                    dq.append(s)
        return None

    # ---- definitions -------------------------------------------------------------------
    def defs(self):
        """local -> list of ('assign', bb, idx, stmt) | ('call', bb, term) full definitions;
        partial writes (projected places) are kept under ('partial', ...)."""
        if self._defs is None:
            d = defaultdict(list)
            for b, blk in enumerate(self.blocks):
                for i, st in enumerate(blk["stmts"]):
                    if st["k"] == "assign":
                        pl = st["place"]
                        kind = "assign" if not pl["p"] else "partial"
                        d[pl["l"]].append((kind, b, i, st))
                t = blk["term"]
                if t and t["k"] == "call":
                    pl = t["dest"]
                    kind = "call" if not pl["p"] else "partial_call"
                    d[pl["l"]].append((kind, b, None, t))
            self._defs = d
        return self._defs

    def calls(self):
        for b, blk in enumerate(self.blocks):
            t = blk["term"]
            if t and t["k"] == "call":
                yield b, t

    def local_name(self, l):
        return self.locals[l].get("name")

    def is_arg(self, l):
        return 1 <= l <= self.arg_count

    # ---- access paths / origins ----------------------------------------------------------
    def trace(self, place, through=TRANSPARENT, _seen=None, depth=0):
        """Set of (root, path) origins of a place.  root is ('arg', n) | ('call', bb, callee) |
        ('const', repr) | ('agg', bb, idx) | ('rv', kind, bb, idx) | ('local', l) | ('ret',)"""
        if _seen is None:
            _seen = set()
        l = place["l"]
        path = proj_names(place["p"])
        if self.is_arg(l) or l == 0:
            # args may still be reassigned, but we treat the parameter as the root
            return {((("arg", l) if l else ("ret",)), path)}
        key = l
        if key in _seen or depth > 40:
            return {(("local", l), path)}
        _seen = _seen | {key}
        out = set()
        ds = [d for d in self.defs().get(l, []) if d[0] in ("assign", "call")]
        if not ds:
            return {(("local", l), path)}
        for d in ds:
            if d[0] == "assign":
                _, b, i, st = d
                rv = st["rv"]
                k = rv["k"]
                if k in ("ref", "copyforderef", "rawptr"):
                    for (r, p) in self.trace(rv["place"], through, _seen, depth + 1):
                        out.add((r, p + path))
                elif k == "use" or (k == "cast"):
                    op = rv["op"]
                    if op["k"] in ("copy", "move"):
                        for (r, p) in self.trace(op["place"], through, _seen, depth + 1):
                            out.add((r, p + path))
                    else:
                        out.add((("const", op.get("repr") or op.get("fn") or "?"), path))
                elif k == "aggregate" and rv.get("akind") == "array" and path and path[0] in ("[]", "[_]"):
                    # an unknown element of an array literal: any of its operands
                    for op in rv["ops"]:
                        if op["k"] in ("copy", "move"):
                            for (r, p) in self.trace(op["place"], through, _seen, depth + 1):
                                out.add((r, p + tuple(path[1:])))
                        else:
                            out.add((("const", op.get("val") if op.get("val") is not None else op.get("repr")), tuple(path[1:])))
                elif k == "aggregate":
                    sub = self._agg_field(rv, path)
                    if sub is not None:
                        op, rest = sub
                        if op["k"] in ("copy", "move"):
                            for (r, p) in self.trace(op["place"], through, _seen, depth + 1):
                                out.add((r, p + rest))
                        else:
                            out.add((("const", op.get("val") if op.get("val") is not None else (op.get("repr") or op.get("fn"))), rest))
                    else:
                        out.add((("agg", b, i), path))
                else:
                    out.add((("rv", k, b, i), path))
            else:
                _, b, _, t = d
                names = callee_names(t)
                idx = None
                for nme in names:
                    if nme in through:
                        idx = through[nme]
                        break
                if idx is not None and idx < len(t["args"]) and t["args"][idx]["k"] in ("copy", "move"):
                    for (r, p) in self.trace(t["args"][idx]["place"], through, _seen, depth + 1):
                        out.add((r, p + path))
                elif ("@index" in through and t["func"].get("declared") in ("std::ops::Index::index", "std::ops::IndexMut::index_mut")
                      and len(t["args"]) == 2 and t["args"][0]["k"] in ("copy", "move")):
                    ix = t["args"][1]
                    lab = "[%s]" % (ix.get("val") if ix["k"] == "const" and ix.get("val") is not None else "_")
                    for (r, p) in self.trace(t["args"][0]["place"], through, _seen, depth + 1):
                        out.add((r, p + (lab,) + path))
                else:
                    item = None
                    if (t["func"].get("declared") == "std::iter::Iterator::next" and len(path) >= 2
                            and path[0] == "as Some" and path[1] == "0" and through is not None and len(through) > 2):
                        item = self._iter_item(t["args"][0], path[2:], through, _seen, depth + 1)
                    if item:
                        out |= item
                    else:
                        out.add((("call", b, callee(t)), path))
        return out

    def _through_agg(self, root, path, through, _seen, depth):
        """Origins of `path` inside the aggregate statement `root` = ('agg', bb, idx), or None."""
        rv = self.blocks[root[1]]["stmts"][root[2]]["rv"]
        out = set()
        if rv.get("akind") == "array" and path and path[0] in ("[]", "[_]"):
            cands = [(op, tuple(path[1:])) for op in rv["ops"]]
        else:
            sub = self._agg_field(rv, path)
            if sub is None:
                return None
            cands = [sub]
        for op, rest in cands:
            if op["k"] in ("copy", "move"):
                for (r, p) in self.trace(op["place"], through, _seen, depth + 1):
                    full = p + rest
                    deeper = self._through_agg(r, full, through, _seen, depth + 1) if (r[0] == "agg" and full and depth < 30) else None
                    if deeper:
                        out |= deeper
                    else:
                        out.add((r, full))
            else:
                out.add((("const", op.get("val") if op.get("val") is not None else op.get("repr")), rest))
        return out or None

    @staticmethod
    def _agg_field(rv, path):
        """If path starts with a field of this aggregate, (operand, rest of path)."""
        if not path:
            return None
        ak = rv.get("akind")
        first = path[0]
        if ak == "tuple" or ak == "array":
            if first.isdigit() and int(first) < len(rv["ops"]):
                return rv["ops"][int(first)], tuple(path[1:])
            if ak == "array" and first.startswith("[") and first[1:-1].lstrip("-").isdigit() and int(first[1:-1]) < len(rv["ops"]):
                return rv["ops"][int(first[1:-1])], tuple(path[1:])
            return None
        if ak == "adt":
            fields = rv.get("fields") or []
            p = list(path)
            if p and p[0] == "as " + rv.get("variant", ""):
                p = p[1:]
            if p and p[0] in fields:
                return rv["ops"][fields.index(p[0])], tuple(p[1:])
        return None

    ITER_PASS = ("into_iter", "rev", "skip", "take", "copied", "cloned", "peekable", "by_ref", "fuse", "skip_while",
                 "take_while", "step_by", "filter", "inspect")
    ITER_SRC = ("iter", "iter_mut", "into_iter", "windows", "chunks", "values", "keys", "drain")

    def _iter_item(self, it_op, item_path, through, _seen, depth):
        """Origins of (a component of) the item yielded by the iterator operand, resolved back through
        enumerate / zip / chain / rev / ... to the collection that is iterated.  None if unknown."""
        if it_op["k"] not in ("copy", "move") or depth > 40:
            return None
        refs_only = {}
        tr = self.trace(it_op["place"], refs_only, _seen, depth + 1)
        out = set()
        for (r, p) in tr:
            if r[0] in ("arg", "local", "agg") :
                # a collection handed over directly (`zip(args)`, `for x in v`): its elements
                full = tuple(p) + ("[]",) + tuple(item_path)
                deeper = self._through_agg(r, full, through, _seen, depth + 1) if r[0] == "agg" else None
                out |= deeper if deeper else {(r, full)}
                continue
            if r[0] != "call" or p:
                return None
            t = self.term(r[1])
            dec = t["func"].get("declared") or ""
            seg = last_seg(dec)
            subs = t["func"].get("substs") or [""]
            self_ty = subs[0]
            is_iter_ty = ("std::iter::" in self_ty or "::Iter<" in self_ty or "::IntoIter<" in self_ty or "::IterMut<" in self_ty) \
                and not self_ty.startswith(("std::vec::Vec<", "&std::vec::Vec<", "&mut std::vec::Vec<", "[", "&[", "&mut ["))
            args = t["args"]
            if seg == "enumerate":
                if item_path and item_path[0] == "0":
                    out.add((("index", r[1]), tuple(item_path[1:])))
                elif item_path and item_path[0] == "1":
                    sub = self._iter_item(args[0], tuple(item_path[1:]), through, _seen, depth + 1)
                    if not sub:
                        return None
                    out |= sub
                else:
                    return None
            elif seg == "zip":
                if item_path and item_path[0] in ("0", "1"):
                    sub = self._iter_item(args[int(item_path[0])], tuple(item_path[1:]), through, _seen, depth + 1)
                    if not sub:
                        return None
                    out |= sub
                else:
                    return None
            elif seg == "flatten" and is_iter_ty:
                # `[first, second].iter().flatten()` over Options: the items are the payloads of the Some elements
                sub = self._iter_item(args[0], ("as Some", "0") + tuple(item_path), through, _seen, depth + 1)
                if not sub:
                    return None
                out |= sub
            elif seg == "chain":
                for a in args[:2]:
                    sub = self._iter_item(a, item_path, through, _seen, depth + 1)
                    if not sub:
                        return None
                    out |= sub
            elif seg in self.ITER_PASS and is_iter_ty:
                sub = self._iter_item(args[0], item_path, through, _seen, depth + 1)
                if not sub:
                    return None
                out |= sub
            elif seg in self.ITER_SRC and args and args[0]["k"] in ("copy", "move"):
                if "std::ops::Range" in self_ty:
                    out.add((("range", r[1]), tuple(item_path)))
                else:
                    for (r2, p2) in self.trace(args[0]["place"], through, _seen, depth + 1):
                        full = p2 + ("[]",) + tuple(item_path)
                        deeper = self._through_agg(r2, full, through, _seen, depth + 1) if r2[0] == "agg" else None
                        if deeper:
                            out |= deeper
                        else:
                            out.add((r2, full))
            else:
                # an iterator produced by a function of the crate (e.g. Circuit::wires): keep it as an opaque source
                out.add((("iter", r[1], callee(t)), tuple(item_path)))
        return out or None

    def deep_sources(self, op, depth=3, through=TRANSPARENT):
        """(root, path) origins of an operand, additionally looking through the arguments of the calls that
        produced it (up to `depth` calls) - 'what can this value depend on'."""
        out = set()
        if op["k"] not in ("copy", "move"):
            return out
        work = [(op["place"], depth)]
        seen = set()
        while work:
            pl, d = work.pop()
            for (r, p) in self.trace(pl, through):
                if (r, p) in seen:
                    continue
                seen.add((r, p))
                out.add((r, p))
                if r[0] == "agg" and d > 0:
                    st = self.blocks[r[1]]["stmts"][r[2]]
                    for o in st["rv"]["ops"]:
                        if o["k"] in ("copy", "move"):
                            work.append((o["place"], d - 1))
                if r[0] == "rv" and d > 0:
                    rv = self.blocks[r[2]]["stmts"][r[3]]["rv"]
                    for key in ("l", "r", "x", "op"):
                        o = rv.get(key)
                        if isinstance(o, dict) and o.get("k") in ("copy", "move"):
                            work.append((o["place"], d - 1))
                if r[0] == "call" and d > 0:
                    t = self.term(r[1])
                    for a in t["args"]:
                        if a["k"] in ("copy", "move"):
                            work.append((a["place"], d - 1))
                            # by-value tuples of closure call arguments
                            for (r2, p2) in self.trace(a["place"], through):
                                if r2[0] == "agg":
                                    st = self.blocks[r2[1]]["stmts"][r2[2]]
                                    for o in st["rv"]["ops"]:
                                        if o["k"] in ("copy", "move"):
                                            work.append((o["place"], d - 1))
        return out

    def trace_operand(self, op, through=TRANSPARENT):
        if op["k"] in ("copy", "move"):
            return self.trace(op["place"], through)
        return {(("const", op.get("repr") if op.get("val") is None else op.get("val")), ())}

    def access_path(self, place):
        """Single canonical (root, path) if the place resolves uniquely, else None."""
        t = self.trace(place, through={"std::ops::Deref::deref": 0, "std::ops::DerefMut::deref_mut": 0})
        if len(t) == 1:
            return next(iter(t))
        return None

    # ---- variant-assumption pruning -------------------------------------------------------
    def switch_info(self, b):
        """For a switch on an ADT discriminant: (access_path, {value: variant}, adt) else None."""
        t = self.term(b)
        if not t or t["k"] != "switch":
            return None
        d = t["discr"]
        if d["k"] not in ("copy", "move") or d["place"]["p"]:
            return None
        l = d["place"]["l"]
        ds = [x for x in self.defs().get(l, []) if x[0] == "assign"]
        if len(ds) != 1:
            return None
        rv = ds[0][3]["rv"]
        if rv["k"] != "discriminant" or "variants" not in rv:
            return None
        ap = self.access_path(rv["place"])
        return ap, {v: n for v, n in rv["variants"]}, rv["adt"]

    def _promoted_variant(self, op):
        """operand that is (a reference chain to) a promoted constant building one fieldless enum variant:
        its variant name, else None."""
        seen = set()
        while op is not None and op["k"] in ("copy", "move"):
            l = op["place"]["l"]
            if l in seen:
                return None
            seen.add(l)
            ds = [x for x in self.defs().get(l, []) if x[0] == "assign"]
            if len(ds) != 1:
                return None
            rv = ds[0][3]["rv"]
            if rv["k"] == "ref":
                op = {"k": "copy", "place": rv["place"]}
            elif rv["k"] == "use":
                op = rv["op"]
            else:
                return None
        if op is None or op["k"] != "const":
            return None
        import re as _re
        m = _re.match(r"^(?:const )?(.*)::promoted\[(\d+)\]$", str(op.get("repr") or ""))
        proms = self.fn.get("promoted") or []
        if not m or m.group(1) != self.id or int(m.group(2)) >= len(proms):
            return None
        vals = []
        for blk in proms[int(m.group(2))]["blocks"]:
            for st in blk["stmts"]:
                if st["k"] == "assign" and st["rv"]["k"] == "aggregate":
                    if st["rv"].get("akind") != "adt" or st["rv"].get("ops"):
                        return None
                    vals.append(st["rv"]["variant"])
        return vals[0] if len(vals) == 1 else None

    def eq_switch_info(self, b):
        """For a switch on the bool of `place == &Enum::Variant` / `!=` (PartialEq on a fieldless variant constant):
        (access_path, variant, block taken when equal, block taken when different), else None."""
        t = self.term(b)
        if not t or t["k"] != "switch" or len(t["targets"]) != 1 or t["targets"][0][0] != 0:
            return None
        d = t["discr"]
        if d["k"] not in ("copy", "move") or d["place"]["p"]:
            return None
        ds = self.defs().get(d["place"]["l"], [])
        if len(ds) != 1 or ds[0][0] != "call":
            return None
        ct = self.term(ds[0][1])
        decl = (ct.get("func") or {}).get("declared")
        if decl not in ("std::cmp::PartialEq::eq", "std::cmp::PartialEq::ne") or len(ct["args"]) != 2:
            return None
        for i in (0, 1):
            variant = self._promoted_variant(ct["args"][1 - i])
            a = ct["args"][i]
            if variant is None or a["k"] not in ("copy", "move"):
                continue
            ap = self.access_path(a["place"])
            if ap is None:
                continue
            on_true, on_false = t["otherwise"], t["targets"][0][1]
            if decl.endswith("::ne"):
                on_true, on_false = on_false, on_true
            return ap, variant, on_true, on_false
        return None

    def pruned_succ(self, assume):
        """successor function under assumptions {(root, path): variant-name or set of names}."""
        cache = {}

        def succ(b):
            if b in cache:
                return cache[b]
            res = self.succs(b)
            info = self.switch_info(b)
            einfo = None if info else self.eq_switch_info(b)
            if einfo and einfo[0] in assume:
                want = assume[einfo[0]]
                if isinstance(want, str):
                    want = {want}
                if want == {einfo[1]}:
                    res = [einfo[2]]
                elif einfo[1] not in want:
                    res = [einfo[3]]
            if info and info[0] in assume:
                want = assume[info[0]]
                if isinstance(want, str):
                    want = {want}
                t = self.term(b)
                listed = {v for v, _ in t["targets"]}
                keep = []
                for v, tgt in t["targets"]:
                    if info[1].get(v) in want:
                        keep.append(tgt)
                # variants not listed explicitly go to otherwise
                unlisted = [n for v, n in info[1].items() if v not in listed]
                if any(n in want for n in unlisted):
                    keep.append(t["otherwise"])
                seen = set()
                res = [x for x in keep if not (x in seen or seen.add(x))]
            cache[b] = res
            return res
        return succ

    def must_pass(self, via, entry=0, exits=None, succ=None):
        """None if every entry->exit path meets a block of `via`, else a witness block path."""
        exits = self.returns() if exits is None else exits
        return self.path(entry, exits, blocked=via, succ=succ)


def const_val(op):
    if op["k"] == "const":
        return op.get("val")
    return None


def span_in(inner, outer):
    """inner span lies within outer span (same file)."""
    if inner[0] != outer[0]:
        return False
    return (inner[1], inner[2]) >= (outer[1], outer[2]) and (inner[3], inner[4]) <= (outer[3], outer[4])


def span_str(sp):
    return "%s:%d:%d" % (sp[0], sp[1], sp[2])


ARITH_TRAITS = ("std::ops::Add::add", "std::ops::Sub::sub", "std::ops::Mul::mul", "std::ops::Div::div", "std::ops::Rem::rem",
                "std::ops::Neg::neg", "std::ops::Shl::shl", "std::ops::Shr::shr", "std::ops::AddAssign::add_assign",
                "std::ops::SubAssign::sub_assign", "std::ops::MulAssign::mul_assign", "std::ops::DivAssign::div_assign",
                "std::ops::RemAssign::rem_assign", "std::ops::ShlAssign::shl_assign", "std::ops::ShrAssign::shr_assign",
                "std::iter::Sum::sum", "std::iter::Product::product")
INT_TYPES = ("u8", "u16", "u32", "u64", "u128", "usize", "i8", "i16", "i32", "i64", "i128", "isize")


def trapping_arith_sites(body):
    """(block, kind, operands, span) for every arithmetic operation that panics on overflow / zero divisor in the debug
    profile: MIR Assert terminators and calls to the operator traits on primitive integers (`&a - &b`, `x += &y`)."""
    out = []
    for b in range(body.n):
        t = body.term(b)
        if not t or body.blocks[b]["cleanup"]:
            continue
        if t["k"] == "assert" and (t["kind"].startswith("Overflow") or t["kind"] in ("DivisionByZero", "RemainderByZero")):
            out.append((b, t["kind"], t["ops"], t["sp"]))
        elif t["k"] == "call" and t["func"].get("declared") in ARITH_TRAITS:
            subs = t["func"].get("substs") or [""]
            st = subs[0].replace("&", "").replace("mut ", "").strip()
            if st in INT_TYPES:
                out.append((b, "Overflow(%s on %s)" % (last_seg(t["func"]["declared"]), subs[0]), t["args"], t["sp"]))
    return out


def equality_edges(body, st):
    """CFG edges on which the two operands of the Eq / Ne comparison `st` (an assign statement) are equal."""
    op = st["rv"]["op"]
    if op not in ("Eq", "Ne"):
        return set()
    d = st["place"]["l"]
    out = set()
    for x in range(body.n):
        tt = body.term(x)
        if tt and tt["k"] == "switch" and tt["discr"]["k"] in ("copy", "move") and tt["discr"]["place"]["l"] == d and not tt["discr"]["place"]["p"]:
            zero_t = {tg for v, tg in tt["targets"] if v == 0}
            for s_ in body.succs(x):
                if (s_ not in zero_t) == (op == "Eq"):
                    out.add((x, s_))
    return out


def base_local(body, op):
    """The local an operand copies, looking through single-definition temporaries (`_t = copy _x`)."""
    if op["k"] not in ("copy", "move") or op["place"]["p"]:
        return None
    c = op["place"]["l"]
    for _ in range(6):
        alld = body.defs().get(c, [])
        if len(alld) == 1 and alld[0][0] == "assign":
            rv = alld[0][3]["rv"]
            if rv["k"] == "use" and rv["op"]["k"] in ("copy", "move") and not rv["op"]["place"]["p"]:
                c = rv["op"]["place"]["l"]
                continue
        break
    return c


def add_defs(body, local):
    """[(block, other operand)] for every `local = local + other` (checked or unchecked add) in the body."""
    out = []
    for b, blk in enumerate(body.blocks):
        if blk["cleanup"]:
            continue
        for st in blk["stmts"]:
            if st["k"] != "assign" or st["rv"]["k"] != "binop" or st["rv"]["op"] not in ("AddWithOverflow", "Add", "AddUnchecked"):
                continue
            l, r = st["rv"]["l"], st["rv"]["r"]
            for me, other in ((l, r), (r, l)):
                if base_local(body, me) == local:
                    tmp = st["place"]["l"]
                    # the sum must flow back into the local
                    back = False
                    for b2, blk2 in enumerate(body.blocks):
                        for st2 in blk2["stmts"]:
                            if st2["k"] == "assign" and st2["place"]["l"] == local and not st2["place"]["p"] and st2["rv"]["k"] == "use" and \
                                    st2["rv"]["op"]["k"] in ("copy", "move") and st2["rv"]["op"]["place"]["l"] == tmp:
                                back = True
                    if back or tmp == local:
                        out.append((b, other))
    # `local += &x` through the operator trait (x: &usize)
    for b in range(body.n):
        t = body.term(b)
        if t and t["k"] == "call" and not body.blocks[b]["cleanup"] and (t["func"].get("declared") or "") == "std::ops::AddAssign::add_assign" and len(t["args"]) == 2:
            a0 = t["args"][0]
            if a0["k"] in ("copy", "move"):
                for d in body.defs().get(a0["place"]["l"], []):
                    if d[0] == "assign" and d[3]["rv"]["k"] == "ref" and d[3]["rv"]["place"]["l"] == local and not d[3]["rv"]["place"]["p"]:
                        out.append((b, t["args"][1]))
    return out


def through_tuples(body, op, depth=4):
    """Operand behind `let (a, b) = (x, y)`-style destructuring: follows field reads of single-definition tuple
    aggregates (also when the tuple is the value of several match arms: then every arm's component) and returns
    the set of base locals the operand can be."""
    out = set()
    work = [(op, depth)]
    while work:
        o, d = work.pop()
        if o["k"] not in ("copy", "move"):
            continue
        l = base_local(body, o)
        if l is None:
            continue
        defs_ = [x for x in body.defs().get(l, []) if x[0] == "assign"]
        fld = None
        if len(body.defs().get(l, [])) == 1 and defs_:
            rv = defs_[0][3]["rv"]
            if rv["k"] == "use" and rv["op"]["k"] in ("copy", "move"):
                pp = rv["op"]["place"]["p"]
                if len(pp) == 1 and pp[0]["k"] == "field":
                    fld = (rv["op"]["place"]["l"], pp[0]["i"])
        if fld and d > 0:
            tl, k = fld
            aggs = [x for x in body.defs().get(tl, []) if x[0] == "assign" and x[3]["rv"]["k"] == "aggregate" and x[3]["rv"].get("akind") in ("tuple", None) and len(x[3]["rv"]["ops"]) > k]
            if aggs and len(aggs) == len(body.defs().get(tl, [])):
                for a in aggs:
                    work.append((a[3]["rv"]["ops"][k], d - 1))
                continue
        out.add(l)
    return out


def const_bool_under(body, op, region, depth=4):
    """Value of a bool operand if, restricted to definitions located in `region` (blocks reachable under some variant
    assumption), it can only be one constant; follows copies and `!`.  None if unknown."""
    if op["k"] == "const":
        v = op.get("val")
        return bool(v) if v in (0, 1, True, False) else None
    if op["k"] not in ("copy", "move") or op["place"]["p"] or depth < 0:
        return None
    l = op["place"]["l"]
    vals = set()
    for d in body.defs().get(l, []):
        if d[1] not in region:
            continue
        if d[0] != "assign":
            return None
        rv = d[3]["rv"]
        if rv["k"] == "use":
            v = const_bool_under(body, rv["op"], region, depth - 1)
        elif rv["k"] == "unop" and rv.get("op") == "Not":
            inner = rv.get("x") or rv.get("operand") or rv.get("o")
            v = const_bool_under(body, inner, region, depth - 1) if isinstance(inner, dict) else None
            v = (not v) if v is not None else None
        else:
            v = None
        if v is None:
            return None
        vals.add(v)
    return next(iter(vals)) if len(vals) == 1 else None


def rv_locals(rv):
    """Locals an rvalue reads (base locals of its operands / places)."""
    out = set()
    for key in ("op", "l", "r", "x"):
        o = rv.get(key)
        if isinstance(o, dict) and o.get("k") in ("copy", "move"):
            out.add(o["place"]["l"])
    for o in rv.get("ops", ()) or ():
        if o.get("k") in ("copy", "move"):
            out.add(o["place"]["l"])
    if "place" in rv and isinstance(rv["place"], dict) and rv["k"] in ("ref", "rawptr"):
        out.add(rv["place"]["l"])
    return out


def forward_taint(body, seeds, carries=lambda ty: True, sinks=("push", "insert", "extend", "push_back"), blocks=None, skip_calls=()):
    """Locals that may hold (part of) a value held by one of the seed locals: propagation through assignments, aggregates,
    references and calls (arguments -> destination; for container mutators arguments -> receiver).  Only locals whose type
    satisfies `carries` (and the return place) take the taint on."""
    tainted = set(seeds)
    changed = True
    while changed:
        changed = False
        for b, blk in enumerate(body.blocks):
            if blk["cleanup"] or (blocks is not None and b not in blocks):
                continue
            for st in blk["stmts"]:
                if st["k"] != "assign" or st["rv"]["k"] == "discriminant":
                    continue
                d = st["place"]["l"]
                if d in tainted:
                    continue
                if rv_locals(st["rv"]) & tainted and (d == 0 or carries(body.locals[d]["ty"])):
                    tainted.add(d)
                    changed = True
            t = blk.get("term")
            if t and t["k"] == "call" and b not in skip_calls:
                args = [a["place"]["l"] for a in t["args"] if a["k"] in ("copy", "move")]
                if any(a in tainted for a in args):
                    d = t["dest"]["l"]
                    if d not in tainted and (d == 0 or carries(body.locals[d]["ty"])):
                        tainted.add(d)
                        changed = True
                    if last_seg(callee(t) or "") in sinks and args and any(a in tainted for a in args[1:]):
                        # the receiver is a reference: taint what it refers to
                        cur, hops = args[0], 0
                        while hops < 6:
                            if cur not in tainted:
                                tainted.add(cur)
                                changed = True
                            refs = [d[3]["rv"]["place"]["l"] for d in body.defs().get(cur, []) if d[0] == "assign" and d[3]["rv"]["k"] in ("ref", "use")
                                    and (d[3]["rv"].get("place") or d[3]["rv"].get("op", {}).get("place"))
                                    for _ in [0] if d[3]["rv"]["k"] == "ref"]
                            uses = [d[3]["rv"]["op"]["place"]["l"] for d in body.defs().get(cur, []) if d[0] == "assign" and d[3]["rv"]["k"] == "use"
                                    and d[3]["rv"]["op"]["k"] in ("copy", "move")]
                            nxt = refs + uses
                            if len(nxt) != 1:
                                break
                            cur, hops = nxt[0], hops + 1
    return tainted


def bool_consistent_path(body, start, goals, env=None, blocked_edges=(), blocked=(), start_stmt=0):
    """Block path start -> goal along which the known values of bool locals stay consistent: `_x = const true/false` and
    copies of known locals are tracked, a switch on a known bool only follows the matching edge.  `env`: {local: bool} known
    at the start.  `blocked_edges`: CFG edges (a, b) that may not be used."""
    goals, blocked, blocked_edges = set(goals), set(blocked), set(blocked_edges)
    init = frozenset((env or {}).items())
    prev = {(start, init): None}
    dq = deque([(start, init)])
    while dq:
        b, e = dq.popleft()
        if b in goals and not (prev[(b, e)] is None and start_stmt):
            out, cur = [], (b, e)
            while cur is not None:
                out.append(cur[0])
                cur = prev[cur]
            return out[::-1]
        known = dict(e)
        blk = body.blocks[b]
        first = prev[(b, e)] is None
        for i, st in enumerate(blk["stmts"]):
            if first and i < start_stmt:
                continue    # the walk starts in the middle of the start block (after the definition `env` talks about)
            if st["k"] != "assign" or st["place"]["p"]:
                continue
            d = st["place"]["l"]
            rv = st["rv"]
            if rv["k"] == "use" and rv["op"]["k"] == "const" and body.locals[d]["ty"] == "bool" and rv["op"].get("val") in (0, 1):
                known[d] = bool(rv["op"]["val"])
            elif rv["k"] == "use" and rv["op"]["k"] in ("copy", "move") and not rv["op"]["place"]["p"] and rv["op"]["place"]["l"] in known:
                known[d] = known[rv["op"]["place"]["l"]]
            else:
                known.pop(d, None)
        t = blk.get("term")
        succs = body.succs(b)
        if t and t["k"] == "switch" and t["discr"]["k"] in ("copy", "move") and not t["discr"]["place"]["p"] and t["discr"]["place"]["l"] in known:
            v = 1 if known[t["discr"]["place"]["l"]] else 0
            hit = [x for val, x in t["targets"] if val == v]
            succs = hit[:1] if hit else [t["otherwise"]]
        if t and t["k"] == "call" and not t["dest"]["p"]:
            known.pop(t["dest"]["l"], None)
        e2 = frozenset(known.items())
        for s in succs:
            if s in blocked or (b, s) in blocked_edges or body.blocks[s]["cleanup"]:
                continue
            if (s, e2) not in prev:
                prev[(s, e2)] = (b, e)
                dq.append((s, e2))
    return None
