"""Abstract interpretation of a save / compile / restore / mux / install protocol on one kind of record.

Used for the running panic record of the CircuitBuilder (C02-P2) and for Env (C14-E4).  A record value
is abstracted to  V = (base, effects)  where base is 'E' (the state at function entry), ('M', site)
(the result of a merge call at that MIR call site) or 'U' (unknown origin) and effects is the set of
mutator call sites applied to the record since.  The interpreter is path sensitive (it carries a set
of configurations per block) over a successor function that may be pruned by variant assumptions.
"""
from collections import defaultdict

from . import mir

DEREF_ONLY = {"std::ops::Deref::deref": 0, "std::ops::DerefMut::deref_mut": 0}


class Spec:
    """What the protocol looks like for one record kind."""
    rec_type = ""            # substring identifying the owned record type
    implicit = None          # name of the implicit location (e.g. 'SIGMA') or None
    peek = ()                # callees returning a reference to the implicit record
    replace = ()             # callees (self, X) -> old  that swap the implicit record
    mux = ()                 # callees (self, c, A, B) -> merged
    mux_operands = (2, 3)

    def is_mutator(self, body, t):
        """Returns the argument operand whose referent is mutated (or 'IMPLICIT'), or None."""
        raise NotImplementedError


class Result:
    def __init__(self):
        self.mux_ops = defaultdict(set)       # site -> {(VA, VB)}
        self.mux_spans = {}
        self.at_mutator = defaultdict(set)    # site -> set of incoming V of the mutated location
        self.finals = set()                   # (final V of the observed location, X executed)
        self.mutators = {}                    # site -> term
        self.unknown = []                     # (site, why)
        self.configs = 0
        self.blocks = set()


def _is_owned(ty, spec):
    return spec.rec_type in ty and not ty.startswith("&") and not ty.startswith("*")


class Interp:
    def __init__(self, body, spec, succ=None, observe=None, max_configs=4000):
        self.b = body
        self.spec = spec
        self.succ = succ or (lambda x: body.succs(x))
        self.observe = observe  # location whose final value matters (e.g. 'SIGMA' or ('A', k))
        self.res = Result()
        self.max_configs = max_configs

    # -- locations -----------------------------------------------------------------------------
    def resolve_loc(self, place, depth=0):
        """Location a place refers to: 'SIGMA' | ('A', k) | ('L', local) | None."""
        b = self.b
        l = place["l"]
        ty = b.locals[l]["ty"]
        has_deref = any(e["k"] == "deref" for e in place["p"])
        non_deref = [e for e in place["p"] if e["k"] != "deref"]
        if non_deref:
            # a projection into something else (e.g. a closure upvar): resolve through trace
            tr = b.trace(place, through=DEREF_ONLY)
            if len(tr) == 1:
                (r, p) = next(iter(tr))
                if r[0] == "arg" and self.spec.rec_type in place["ty"]:
                    return ("A", r[1]) + tuple(p)
            return None
        if _is_owned(ty, self.spec) and not has_deref:
            return ("L", l)
        if b.is_arg(l):
            if self.spec.rec_type in ty:
                return ("A", l)
            return None
        if depth > 12:
            return None
        ds = [d for d in b.defs().get(l, []) if d[0] in ("assign", "call")]
        if len(ds) != 1:
            return None
        d = ds[0]
        if d[0] == "assign":
            rv = d[3]["rv"]
            if rv["k"] in ("ref", "copyforderef", "rawptr"):
                return self.resolve_loc(rv["place"], depth + 1)
            if rv["k"] == "use" and rv["op"]["k"] in ("copy", "move"):
                return self.resolve_loc(rv["op"]["place"], depth + 1)
            return None
        t = d[3]
        names = mir.callee_names(t)
        if any(n in self.spec.peek for n in names):
            return self.spec.implicit
        if any(n in DEREF_ONLY for n in names) and t["args"] and t["args"][0]["k"] in ("copy", "move"):
            return self.resolve_loc(t["args"][0]["place"], depth + 1)
        return None

    # -- configuration helpers --------------------------------------------------------------------
    @staticmethod
    def _get(cfg, loc):
        return dict(cfg[0]).get(loc)

    @staticmethod
    def _set(cfg, loc, v):
        d = dict(cfg[0])
        d[loc] = v
        return (tuple(sorted(d.items(), key=lambda kv: repr(kv[0]))), cfg[1])

    @staticmethod
    def _exec(cfg, site):
        return (cfg[0], cfg[1] | {site})

    def read(self, cfg, operand_or_place):
        place = operand_or_place["place"] if "place" in operand_or_place and "k" in operand_or_place and operand_or_place["k"] in ("copy", "move") else operand_or_place
        loc = self.resolve_loc(place)
        if loc is None:
            return ("U", frozenset())
        v = self._get(cfg, loc)
        if v is None:
            if loc == self.spec.implicit or (isinstance(loc, tuple) and loc[0] == "A"):
                return ("E" if loc == self.observe or loc == self.spec.implicit else ("E", loc), frozenset())
            return ("U", frozenset())
        return v

    def initial(self):
        return (tuple(), frozenset())

    # -- transfer ---------------------------------------------------------------------------------
    def step_block(self, bb, cfg):
        b = self.b
        spec = self.spec
        blk = b.blocks[bb]
        for st in blk["stmts"]:
            if st["k"] != "assign":
                continue
            pl = st["place"]
            rv = st["rv"]
            dty = pl["ty"]
            if spec.rec_type in dty and not dty.startswith("&") and any(e["k"] == "deref" for e in pl["p"]):
                # install through a reference: `*env = merged`
                loc = self.resolve_loc(pl)
                if loc is not None and rv["k"] == "use" and rv["op"]["k"] in ("copy", "move"):
                    cfg = self._set(cfg, loc, self.read(cfg, rv["op"]))
                    self.res.installs = getattr(self.res, "installs", set()) | {bb}
                continue
            if not _is_owned(dty, spec):
                continue
            dloc = self.resolve_loc(pl)
            if dloc is None:
                continue
            if rv["k"] == "use" and rv["op"]["k"] in ("copy", "move"):
                cfg = self._set(cfg, dloc, self.read(cfg, rv["op"]))
            else:
                cfg = self._set(cfg, dloc, ("U", frozenset()))
                self.res.unknown.append((bb, "record built by %s" % rv["k"]))
        t = blk["term"]
        if not t:
            return cfg, []
        if t["k"] == "call":
            site = bb
            names = mir.callee_names(t)
            dest = t["dest"]
            dty = dest["ty"]
            if any(n in spec.replace for n in names):
                old = self.read_loc(cfg, spec.implicit)
                new = self.read(cfg, t["args"][1])
                cfg = self._set(cfg, spec.implicit, new)
                if _is_owned(dty, spec):
                    dl = self.resolve_loc(dest)
                    if dl is not None:
                        cfg = self._set(cfg, dl, old)
                self.res.replace_sites = getattr(self.res, "replace_sites", set()) | {site}
            elif any(n in spec.mux for n in names):
                ia, ib = spec.mux_operands
                va = self.read(cfg, t["args"][ia])
                vb = self.read(cfg, t["args"][ib])
                self.res.mux_ops[site].add((va, vb))
                self.res.mux_spans[site] = t["sp"]
                cfg = self._exec(cfg, ("M", site))
                dl = self.resolve_loc(dest)
                if dl is not None:
                    cfg = self._set(cfg, dl, (("M", site), frozenset()))
            elif any(n == "std::clone::Clone::clone" for n in names) and _is_owned(dty, spec):
                dl = self.resolve_loc(dest)
                if dl is not None:
                    cfg = self._set(cfg, dl, self.read(cfg, t["args"][0]))
            elif any(n in spec.peek for n in names):
                pass
            else:
                m = spec.is_mutator(b, t)
                if m is not None:
                    if m == "IMPLICIT":
                        loc = spec.implicit
                    else:
                        loc = self.resolve_loc(m["place"])
                    if loc is None:
                        self.res.unknown.append((bb, "mutator %s on an unresolved record" % mir.callee(t)))
                    else:
                        cur = self.read_loc(cfg, loc)
                        self.res.at_mutator[site].add((loc, cur))
                        self.res.mutators[site] = t
                        cfg = self._set(cfg, loc, (cur[0], cur[1] | {site}))
                        cfg = self._exec(cfg, site)
                elif _is_owned(dty, spec):
                    dl = self.resolve_loc(dest)
                    if dl is not None:
                        cfg = self._set(cfg, dl, ("U", frozenset()))
        if t["k"] == "return":
            self.res.finals.add((self.read_loc(cfg, self.observe), cfg[1]))
            return cfg, []
        return cfg, [s for s in self.succ(bb) if not b.blocks[s]["cleanup"]]

    def read_loc(self, cfg, loc):
        v = self._get(cfg, loc)
        if v is None:
            if loc == self.observe or loc == self.spec.implicit:
                return ("E", frozenset())
            if isinstance(loc, tuple) and loc[0] == "A":
                return (("E", loc), frozenset())
            return ("U", frozenset())
        return v

    def store_through(self, bb, cfg):
        """`*param = value` installs (assignment statements through a deref of a record reference)."""
        return cfg

    def run(self):
        b = self.b
        seen = defaultdict(set)
        work = [(0, self.initial())]
        while work:
            bb, cfg = work.pop()
            if cfg in seen[bb]:
                continue
            seen[bb].add(cfg)
            self.res.configs += 1
            self.res.blocks.add(bb)
            if self.res.configs > self.max_configs:
                raise RuntimeError("protocol interpreter: configuration budget exceeded in %s" % b.id)
            cfg2, succs = self.step_block(bb, cfg)
            for s in succs:
                work.append((s, cfg2))
        return self.res

    def pre_block(self, bb, cfg):
        # installs `(*ref) = move X` are statements; handle them in order with the other statements
        b = self.b
        blk = b.blocks[bb]
        for st in blk["stmts"]:
            if st["k"] != "assign":
                continue
            pl = st["place"]
            if self.spec.rec_type in pl["ty"] and not pl["ty"].startswith("&") and any(e["k"] == "deref" for e in pl["p"]):
                loc = self.resolve_loc(pl)
                rv = st["rv"]
                if loc is not None and rv["k"] == "use" and rv["op"]["k"] in ("copy", "move"):
                    cfg = self._set(cfg, loc, self.read(cfg, rv["op"]))
        return cfg


# ---- derived sets -----------------------------------------------------------------------------------

def reach(v, res, _seen=None):
    """All effect sites (and merge sites) contained anywhere in value v."""
    if _seen is None:
        _seen = set()
    base, eff = v
    out = set(eff)
    if isinstance(base, tuple) and base and base[0] == "M":
        out.add(base)
        if base not in _seen:
            _seen.add(base)
            for (va, vb) in res.mux_ops.get(base[1], ()):
                out |= reach(va, res, _seen)
                out |= reach(vb, res, _seen)
    return out


def uncond(v, res, _stack=None):
    """Effect sites that apply whichever way every enclosing merge selects."""
    if _stack is None:
        _stack = set()
    base, eff = v
    out = set(eff)
    if isinstance(base, tuple) and base and base[0] == "M":
        if base in _stack:
            return None  # top (self reference inside a loop)
        _stack = _stack | {base}
        acc = None
        for (va, vb) in res.mux_ops.get(base[1], ()):
            ua = uncond(va, res, _stack)
            ub = uncond(vb, res, _stack)
            if ua is None and ub is None:
                continue
            both = ub if ua is None else (ua if ub is None else (ua & ub))
            acc = both if acc is None else (acc & both)
        if acc:
            out |= acc
    return out
