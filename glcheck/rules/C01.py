"""C01 - the compiled circuit returns the value the source denotes (data-movement clauses only).

The property as a whole is a semantic equivalence and is not decided.  What is visible in the shape of the lowering code is how
values are *moved*: which wires a construct returns, at which offsets fields live, which child ends up in which operand of a
merge.  Every rule below is a necessary condition: if it is broken, some program returns a wrong value.

V1  if / && / || combine the results of the right children: push_mux(cond, then[i], else[i]); and(lhs, rhs); or(lhs, rhs)
V2  tuple and struct access return value[offset .. offset + size of the field], offset = sum of the sizes of the fields before it
V3  for-each binds array[i .. i + element size], advances i by the element size on every path and runs once per element of the
    array's type (not once per element-sized group of wires: elements may have no bits)
V4  array / tuple / struct literals append the wires of every element, in order (struct literals in declaration order);
    repeat literals append the element `size` times
V5  enum literals copy each field at a running offset behind the tag and advance the offset by the field's width
V6  a block evaluates to the wires of its last statement
V7  a call binds the i-th parameter of the called function to the i-th argument and returns the wires of that function's body
V8  array reads select with push_mux(index bit, element at i + stride, element at i) in both copies of the mux tree
V9  assignment through tuple / struct accessors writes back at the offset and width recorded when the accessor was read
V13 cross-reference: environment effects of every lowered child reach the arm's exit (C14-E9)
V12 the one-bit builder primitives (not, or, eq, mux, full adder, multiplier cell, conditional swap) compute their Boolean
    functions: abstract interpretation of their bodies over truth tables of the wire parameters (this discharges the
    "push_mux(s, a, b) selects a when s" assumption of C02 / C14 / C01)
V11 both reference evaluators compute xor / and / not of exactly the wires the gate names
V10 cross-reference: call arguments are lowered in the caller's scope before any parameter is bound (C14-E7)
V14 cross-reference: the optimiser's rewrites and the sweep keep the function (C04 O1, O4 - O10)
V15 cross-reference: range patterns compare with both bounds, compound patterns test each field's own bits (C08 M3 / M4)
V16 cross-reference: accepted matches are exhaustive (struct pattern fields aligned by name, number patterns inside the matched type: C17 T14 / T15)
V17 cross-reference: first matching arm wins (C08 M1)
V18 cross-reference: operators are lowered with their own circuits, rewrites are exact (C03 A3)
"""
from .. import mir
from ..core import AnchorMissing, Finding, RuleResult
from . import C02, C14

PROPERTY = "C01"
TECHNIQUE = ("operand-origin checks (which child's wires reach which operand / slice bound) and loop-discipline checks (running offsets) on the "
             "variant-pruned MIR of the lowering arms; structural necessary conditions only")
LEVEL_TEXT = (
    "Equivalence of the compiled circuit with the source semantics over all programs and inputs is NOT decided (it needs the meaning "
    "of every gate network: other technique families). Decided are the data-movement clauses of the lowering: (V1) the result of an "
    "if is push_mux(first wire of the condition, then[i], else[i]) and the results of && / || are and / or of the two operands' "
    "wires; (V2) tuple / struct access slices the operand at offset = sum of size_in_bits of the preceding fields with the width "
    "of the accessed field, the offset advancing on every non-matching path; (V3) for-each binds consecutive element-sized slices; "
    "(V4) literals append the wires of every element on every iteration, struct literals in the order of the struct definition, "
    "repeat literals `size` times; (V5) enum literal fields are copied at a running offset that starts behind the tag; (V6) a block "
    "returns what its last statement returned; (V7) a call pairs parameters and arguments by position and returns the body of the "
    "function it names; (V8) both copies of the array-read mux tree choose the higher-index element when the index bit is set; (V9) "
    "write-back through tuple / struct accessors uses the offset and width that were used for reading. Arithmetic is C03, panics "
    "C02, variable merging C14, optimisations C04, the register form C10."
    " Cross-references V16 (accepted matches are exhaustive: C17 T14 / T15) and V17 (first matching arm wins: C08 M1). Since the later hunter rounds: for-each runs once per element of the array's type, not per group of wires (V3 count clause); struct literal field values are lowered in the order in which they are written and the parser keeps that order (V4 evaluation-order clauses).")
LEVEL_NOTE = "Trusted: rustc MIR; push_mux(s, a, b) selects a when s is set (assumption shared with C02 / C14)."
EXPLANATION = ("Functions analysed: TypedExpr::compile pruned to If, Op(ShortCircuitAnd/Or), TupleAccess, StructAccess, ArrayLiteral, TupleLiteral, "
               "StructLiteral, ArrayRepeatLiteral(Const), EnumLiteral, FnCall, ArrayAccess; TypedStmt::compile pruned to ForEachLoop and VarAssign; compile_block.")
NOT_DECIDED = ("the meaning of the arithmetic / comparison / shift networks (C03), the indexed-assignment mux chain, range literals, casts, "
               "pattern bindings, everything that is not data movement")
ASSUMPTIONS = ["push_mux(s, a, b) returns a when s is set (read from its definition)"]

SELF1 = ("arg", 1)
INNER = C02.INNER


def _expr(ctx):
    f = C02.fn_of(ctx, C02.EXPR_COMPILE)
    return f, ctx.body(f["id"])


def _stmt(ctx):
    f = C02.fn_of(ctx, C02.STMT_COMPILE)
    return f, ctx.body(f["id"])


def _region(body, assume):
    succ = body.pruned_succ(assume)
    region = body.reachable([0], succ=succ)
    if len(region) == len(body.reachable([0])):
        raise AnchorMissing("cannot isolate the arm %s" % (assume,))
    return succ, region


def _children(body, op, kind, fid, deep=False):
    """Indices of the children (fields of ExprEnum::<kind>) whose lowering an operand derives from."""
    out = set()
    srcs = body.deep_sources(op, 3) if deep else body.trace_operand(op)
    for (r, p) in srcs:
        if r[0] == "call" and r[2] == fid:
            for (r2, p2) in body.trace_operand(body.term(r[1])["args"][0]):
                if r2 == SELF1 and len(p2) >= 3 and p2[0] == "inner" and p2[1] == "as " + kind:
                    out.add(p2[2])
    return out


def _keys(body, op):
    return {(r, tuple(p)) for (r, p) in body.trace_operand(op)}


def _range_agg(body, op):
    """The Range aggregate (start, end operands) an index operand is, or None."""
    for (r, p) in body.trace_operand(op, through={}):
        if r[0] == "agg":
            a = body.blocks[r[1]]["stmts"][r[2]]["rv"]
            if "Range" in (a.get("adt") or "") and len(a["ops"]) == 2:
                return a
    return None


def _is_sum(body, op, base, width_pred):
    """op == base + something satisfying width_pred (one checked / unchecked add)."""
    for (r, p) in body.trace_operand(op, through={}):
        if r[0] == "rv" and r[1] == "binop":
            rv = body.blocks[r[2]]["stmts"][r[3]]["rv"]
            if rv["op"].startswith("Add"):
                for me, other in ((rv["l"], rv["r"]), (rv["r"], rv["l"])):
                    if mir.base_local(body, me) == base and width_pred(other):
                        return True
    return False


def _in(lp):
    return lambda body: (lambda b: [x for x in body.succs(b) if x in lp["body"] and not body.blocks[x]["cleanup"]])


def _latches(body, lp):
    return [b for b in lp["body"] if lp["header"] in body.succs(b)]


def _skips(body, lp, must):
    """A path through one iteration of lp (header -> latch) that avoids all blocks in `must`, or None."""
    if not must:
        return [lp["header"]]
    return body.path(lp["header"], _latches(body, lp), blocked=set(must), succ=lambda b: [x for x in body.succs(b) if x in lp["body"] and not body.blocks[x]["cleanup"]])


# ---------------------------------------------------------------------------------------------------- V1

def rule_v1(ctx):
    res = RuleResult("V1", "if / && / || combine the results of the right children")
    f, body = _expr(ctx)
    fid = f["id"]
    succ, region = _region(body, {INNER: "If"})
    muxes = [(b, body.term(b)) for b in sorted(region) if body.term(b)["k"] == "call" and mir.callee(body.term(b)) == C02.PUSH_MUX]
    # the same loop written with an adaptor: `then.iter().zip(else.iter()).map(|(t, f)| circuit.push_mux(cond, *t, *f)).collect()`
    in_closures = False
    if not muxes:
        for b in sorted(region):
            for st in body.blocks[b]["stmts"]:
                clo = st["rv"].get("closure") if st["k"] == "assign" and st["rv"]["k"] == "aggregate" else None
                if not clo or not ctx.has_fn(clo):
                    continue
                cb = ctx.body(clo)
                items = ctx.closure_item_sources(clo)
                for mb, mt in cb.calls():
                    if mir.callee(mt) != C02.PUSH_MUX or not items:
                        continue
                    in_closures = True
                    pb, src = items
                    roles = []
                    for a in mt["args"][1:4]:
                        rs = set()
                        if a["k"] in ("copy", "move"):
                            for (ff, r, p) in ctx.lifted_trace(cb, a):
                                if ff == fid:
                                    # captured from the arm: which child produced it
                                    if r[0] == "call" and r[2] == fid:
                                        for (r2, p2) in body.trace_operand(body.term(r[1])["args"][0]):
                                            if r2 == SELF1 and len(p2) >= 3 and p2[0] == "inner" and p2[1] == "as If":
                                                rs.add(p2[2])
                                elif ff == clo and r[0] == "arg":
                                    for pre, op in src.items():
                                        if tuple(p[:len(pre)]) == pre:
                                            rs |= _children(body, op, "If", fid, deep=True)
                        roles.append(rs)
                    if roles == [{"0"}, {"1"}, {"2"}]:
                        res.ok({"construct": "If", "verdict": "push_mux(condition, then item, else item) inside the closure of an adaptor over zip(then, else)"})
                    else:
                        res.bad(Finding("V1", fid, "if result merged from the wrong children", "expected push_mux(wire of the condition, wire of the then branch, wire of the else branch); found children %s" % roles, mt["sp"]))
    if not muxes and not in_closures:
        res.bad(Finding("V1", fid, "if without a result mux", "the If arm never merges the two branch results with push_mux", f["sp"]))
    for b, t in muxes:
        roles = [_children(body, a, "If", fid) for a in t["args"][1:4]]
        first = any(p and p[-1] in ("[0]",) for (r, p) in body.trace_operand(t["args"][1]))
        if roles == [{"0"}, {"1"}, {"2"}] and first:
            res.ok({"construct": "If", "verdict": "push_mux(condition[0], then[i], else[i])"})
        else:
            res.bad(Finding("V1", fid, "if result merged from the wrong children", "expected push_mux(wire of the condition, wire of the then branch, wire of the else branch); found children %s" % roles, t["sp"]))
    for op, gate in (("ShortCircuitAnd", "push_and"), ("ShortCircuitOr", "push_or")):
        succ, region = _region(body, {INNER: "Op", C02.OP0: op})
        # the returned vector: an array / vec literal of one gate call
        hits = []
        for b in sorted(region):
            t = body.term(b)
            if t["k"] == "call" and mir.last_seg(mir.callee(t) or "") in ("push_and", "push_or") and "CircuitBuilder" in (mir.callee(t) or ""):
                roles = [_children(body, a, "Op", fid) for a in t["args"][1:3]]
                if roles[0] and roles[1]:
                    hits.append((b, t, roles))
        good = [h for h in hits if mir.last_seg(mir.callee(h[1])) == gate and h[2] == [{"1"}, {"2"}] or h[2] == [{"2"}, {"1"}] and mir.last_seg(mir.callee(h[1])) == gate]
        if len(hits) == 1 and good:
            res.ok({"construct": op, "verdict": "%s(lhs[0], rhs[0])" % gate})
        else:
            sp = hits[0][1]["sp"] if hits else f["sp"]
            res.bad(Finding("V1", fid, "%s result is not %s of its two operands" % (op, gate), "found %s" % [(mir.last_seg(mir.callee(h[1])), h[2]) for h in hits], sp))
    return res


# ---------------------------------------------------------------------------------------------------- V2

def _check_prefix_sum_slice(res, rule, body, fid, region, label, sl_term, sized_from):
    """sl_term: the Index call producing the returned slice.  Checks range = [off .. off + width]; off accumulates sizes in a loop."""
    rng = _range_agg(body, sl_term["args"][1])
    if rng is None:
        res.bad(Finding(rule, fid, "%s: result is not a start..end slice" % label, "cannot identify offset and width", sl_term["sp"]))
        return None
    start_local = mir.base_local(body, rng["ops"][0])
    offs = mir.through_tuples(body, rng["ops"][0])
    off = next(iter(offs)) if len(offs) == 1 else None

    def is_size(op):
        if any(r[0] == "call" and mir.last_seg(r[2] or "") == "size_in_bits_for_defs" and r[1] in region for (r, p) in body.trace_operand(op)):
            return True
        ls = mir.through_tuples(body, op)
        return bool(ls) and all(any(r[0] == "call" and mir.last_seg(r[2] or "") == "size_in_bits_for_defs" and r[1] in region
                                    for (r, p) in body.trace({"l": l, "p": []})) and len(body.trace({"l": l, "p": []})) == 1 for l in ls)
    form = "A"
    if off is None or not _is_sum(body, rng["ops"][1], start_local, is_size):
        # the other way round: the size was added first and the slice is [offset - size .. offset]
        end_local = mir.base_local(body, rng["ops"][1])
        is_diff = False
        for (r, p) in body.trace_operand(rng["ops"][0], through={}):
            if r[0] == "rv" and r[1] == "binop":
                rv = body.blocks[r[2]]["stmts"][r[3]]["rv"]
                if rv["op"].startswith("Sub") and mir.base_local(body, rv["l"]) == end_local and is_size(rv["r"]):
                    is_diff = True
        if is_diff and end_local is not None and mir.add_defs(body, end_local):
            off, form = end_local, "B"
        else:
            res.bad(Finding(rule, fid, "%s: slice is not offset .. offset + size of the field" % label, "the accessed bits must be [offset .. offset + size_in_bits(field type)]", sl_term["sp"]))
            return None
    adds = [(b, other) for (b, other) in mir.add_defs(body, off) if b in region]
    if not adds or not all(is_size(other) for (b, other) in adds):
        res.bad(Finding(rule, fid, "%s: offset is not a sum of field sizes" % label, "the offset must be accumulated from size_in_bits of the preceding fields only", sl_term["sp"]))
        return None
    inits = [d for d in body.defs().get(off, []) if d[0] == "assign" and d[3]["rv"]["k"] == "use" and d[3]["rv"]["op"]["k"] == "const"]
    if not any(d[3]["rv"]["op"].get("val") == 0 for d in inits):
        res.bad(Finding(rule, fid, "%s: offset does not start at 0" % label, "the first field lives at offset 0", sl_term["sp"]))
        return None
    return off, adds, rng, form


def rule_v2(ctx):
    res = RuleResult("V2", "tuple / struct access slices at the sum of the preceding field sizes with the field's own width")
    f, body = _expr(ctx)
    fid = f["id"]
    for kind in ("TupleAccess", "StructAccess"):
        succ, region = _region(body, {INNER: kind})
        idx = [(b, body.term(b)) for b in sorted(region) if body.term(b)["k"] == "call" and mir.last_seg(mir.callee(body.term(b)) or "") == "index"
               and _children(body, body.term(b)["args"][0], kind, fid) == {"0"}]
        if len(idx) != 1:
            raise AnchorMissing("V2: expected one slice of the lowered operand in the %s arm, found %d" % (kind, len(idx)))
        ib, it = idx[0]
        got = _check_prefix_sum_slice(res, "V2", body, fid, region, kind, it, None)
        if not got:
            continue
        off, adds, rng, form = got
        lps = [lp for lp in body.loops() if adds[0][0] in lp["body"] and lp["body"] <= region | lp["body"]]
        if not lps:
            res.bad(Finding("V2", fid, "%s: offset is not accumulated in a loop over the fields" % kind, "cannot see the sum over the preceding fields", it["sp"]))
            continue
        lp = min(lps, key=lambda l: len(l["body"]))
        if kind == "TupleAccess" and form != "A":
            raise AnchorMissing("V2: TupleAccess slices with an idiom this rule does not know ([offset - size .. offset])")
        if kind == "TupleAccess":
            # the loop runs over values[0..index]: a slice of the tuple's element types bounded by the accessed index
            bound_ok = False
            for b in region:
                t = body.term(b)
                if t["k"] == "call" and mir.last_seg(mir.callee(t) or "") == "index" and any("as Tuple" in p for (r, p) in body.trace_operand(t["args"][0])):
                    a = _range_agg(body, t["args"][1])
                    if a and a["ops"][0]["k"] == "const" and a["ops"][0].get("val") == 0 and any(r == SELF1 and p[-1:] == ("1",) and "as TupleAccess" in p for (r, p) in body.trace_operand(a["ops"][1])):
                        bound_ok = True
            # width: size of values[index]
            width_ok = False
            for (r, p) in body.trace_operand(rng["ops"][1], through={}):
                pass
            for b in region:
                t = body.term(b)
                if t["k"] == "call" and mir.last_seg(mir.callee(t) or "") == "size_in_bits_for_defs" and b not in lp["body"]:
                    for (r, p) in body.trace_operand(t["args"][0], through={}):
                        if r[0] == "call" and mir.last_seg(r[2] or "") == "index":
                            key = body.term(r[1])["args"][1]
                            if any(r2 == SELF1 and p2[-1:] == ("1",) and "as TupleAccess" in p2 for (r2, p2) in body.trace_operand(key)):
                                width_ok = True
            skip = _skips(body, lp, {b for b, _ in adds})
            adaptors = [mir.last_seg(mir.callee(body.term(b)) or "") for b in region if body.term(b)["k"] == "call" and
                        mir.last_seg(mir.callee(body.term(b)) or "") in ("skip", "take", "step_by", "filter", "skip_while", "take_while")]
            if adaptors:
                res.bad(Finding("V2", fid, "TupleAccess: not every preceding element is counted", "the loop over the preceding elements is narrowed by %s" % adaptors, it["sp"]))
            elif bound_ok and width_ok and not skip:
                res.ok({"construct": kind, "verdict": "tuple[sum(size(values[0..index])) .. + size(values[index])]"})
            else:
                res.bad(Finding("V2", fid, "TupleAccess: offset / width do not follow the accessed index",
                                "expected offset = sum over values[0..index] (bound ok: %s, every element counted: %s) and width = size of values[index] (%s)" % (bound_ok, not skip, width_ok), it["sp"]))
        else:
            # struct: names compared; on the equal edge the slice is returned, on the other edge the offset advances
            eqs = [(b, body.term(b)) for b in lp["body"] if body.term(b) and body.term(b)["k"] == "call" and mir.last_seg(mir.callee(body.term(b)) or "") in ("eq", "ne")]
            name_cmp = [(b, t) for b, t in eqs if any(r == SELF1 and p[-1:] == ("1",) and "as StructAccess" in p for a in t["args"] for (r, p) in body.trace_operand(a))]
            if len(name_cmp) != 1:
                res.bad(Finding("V2", fid, "StructAccess: no comparison of the field name with the accessed field", "cannot see how the field is selected", it["sp"]))
                continue
            cb, ct = name_cmp[0]
            eq_edges = C02._some_edges(body, ct) if mir.last_seg(mir.callee(ct)) == "eq" else set()
            on_eq = bool(eq_edges) and C02._dominated_by_edges(body, eq_edges, ib)
            # paths from the comparison back to the loop header that avoid the bump
            skip = body.path(cb, [lp["header"]], blocked={b for b, _ in adds} | {ib}, succ=lambda b: [x for x in body.succs(b) if x in lp["body"] and not body.blocks[x]["cleanup"]] if b != cb else [x for x in body.succs(b) if x in lp["body"]])
            early = [b for b, _ in adds if body.dominates(b, cb)]
            if form == "B":
                # size added first, slice = [offset - size .. offset]: the addition must precede the comparison on every path
                if on_eq and early and len(early) == len(adds):
                    res.ok({"construct": kind, "verdict": "size added before the comparison; slice [offset - size .. offset] on the equal edge"})
                else:
                    res.bad(Finding("V2", fid, "StructAccess: field selection / offset accumulation", "slice [offset - size .. offset] needs the size to be added before the name comparison on every path", it["sp"]))
            elif early:
                res.bad(Finding("V2", fid, "StructAccess: a field's size is added before its name is compared", "the accessed field's own size would be part of its offset", body.term(cb)["sp"]))
            elif on_eq and not skip:
                res.ok({"construct": kind, "verdict": "slice taken on the equal edge of the name comparison; offset += size on every other path"})
            else:
                res.bad(Finding("V2", fid, "StructAccess: field selection / offset accumulation", "slice on the equal edge: %s; a non-matching field can be passed without adding its size: %s" % (on_eq, bool(skip)), it["sp"]))
    return res


# ---------------------------------------------------------------------------------------------------- V3

def rule_v3(ctx):
    res = RuleResult("V3", "for-each binds consecutive element-sized slices of the array")
    f, body = _stmt(ctx)
    fid = f["id"]
    succ, region = _region(body, {INNER: "ForEachLoop"})
    pc = C02.fn_of(ctx, C02.PAT_COMPILE)["id"]
    pats = [(b, body.term(b)) for b in sorted(region) if body.term(b)["k"] == "call" and mir.callee(body.term(b)) == pc]
    if len(pats) != 1:
        raise AnchorMissing("V3: expected one pattern lowering in the ForEachLoop arm, found %d" % len(pats))
    pb, pt = pats[0]
    sl = None
    for (r, p) in body.trace_operand(pt["args"][1], through={}):
        if r[0] == "call" and mir.last_seg(r[2] or "") == "index":
            sl = body.term(r[1])
        elif r[0] == "call" and mir.last_seg(r[2] or "") == "get" and "as Some" in p:
            sl = body.term(r[1])        # `let Some(binding) = array.get(i..i + size) else { break }`
    ec = C02.fn_of(ctx, C02.EXPR_COMPILE)["id"]
    if sl is None or not any(r[0] == "call" and r[2] == ec for (r, p) in body.trace_operand(sl["args"][0])):
        res.bad(Finding("V3", fid, "loop variable is not a slice of the lowered array", "the pattern is bound to something other than array[i..i+size]", pt["sp"]))
        return res
    rng = _range_agg(body, sl["args"][1])
    i = mir.base_local(body, rng["ops"][0]) if rng else None

    def is_elem(op):
        return any(r[0] == "call" and mir.last_seg(r[2] or "") in ("unwrap_array_size", "expect", "unwrap") and r[1] in region and p[-1:] == ("0",) for (r, p) in body.trace_operand(op))
    if i is None or not _is_sum(body, rng["ops"][1], i, is_elem):
        res.bad(Finding("V3", fid, "loop variable is not array[i .. i + element size]", "the slice bound to the loop variable must have the width of one element of the array's type", sl["sp"]))
        return res
    lps = [lp for lp in body.loops() if pb in lp["body"]]
    lp = max(lps, key=lambda l: len(l["body"]))
    # the start of the slice: a running offset (`i += element size` per iteration), or computed from the element's number
    # (`start = n * element size` with n the item of the loop's own `0..count` iterator)
    product = False
    for (r0, p0) in body.trace({"l": i, "p": []}, through={}):
        if r0[0] == "rv" and r0[1] in ("binop", "checked_binop") and r0[2] in lp["body"]:
            rv0 = body.blocks[r0[2]]["stmts"][r0[3]]["rv"]
            if not rv0.get("op", "").startswith("Mul"):
                continue
            for n_op, e_op in ((rv0["l"], rv0["r"]), (rv0["r"], rv0["l"])):
                from_next = any(rr[0] == "call" and rr[1] in lp["body"] and mir.last_seg(rr[2] or "") == "next" and "as Some" in pp for (rr, pp) in body.trace_operand(n_op, through={}))
                if from_next and is_elem(e_op):
                    product = True
    if product and len(body.defs().get(i, [])) == 1:
        res.ok({"verdict": "binding = array[n * elem .. n * elem + elem] for the n-th iteration"})
    else:
        adds = [(b, o) for (b, o) in mir.add_defs(body, i) if b in lp["body"]]
        skip = _skips(body, lp, {b for b, o in adds if is_elem(o)})
        odd = [b for b, o in adds if not is_elem(o)]
        if skip or odd:
            res.bad(Finding("V3", fid, "element offset does not advance by the element size on every path", "an iteration can end without i += element size (blocks %s)" % (skip or odd), sl["sp"]))
        else:
            res.ok({"verdict": "binding = array[i .. i + elem]; i += elem on every path"})
    # the number of iterations is the number of elements of the array's type: counting wires instead (`while i < array.len()`)
    # never runs the body for elements without bits (`for _ in [(); 3] { c = c + x; }` left c unchanged)
    def is_count(op):
        return any(r[0] == "call" and mir.last_seg(r[2] or "") in ("unwrap_array_size", "expect", "unwrap") and r[1] in region and p[-1:] == ("1",) for (r, p) in body.deep_sources(op, 4))
    bound_ok = False
    wires_bound = None
    for x in sorted(lp["body"]):
        t = body.term(x)
        if t and t["k"] == "call" and t["func"].get("declared") == "std::iter::Iterator::next" and is_count(t["args"][0]):
            bound_ok = True
        if t and t["k"] == "switch" and any(y not in lp["body"] for y in body.succs(x)) and t["discr"]["k"] in ("copy", "move"):
            for (r, p) in body.trace(t["discr"]["place"], through={}):
                if r[0] == "rv" and r[1] == "binop":
                    rv = body.blocks[r[2]]["stmts"][r[3]]["rv"]
                    if is_count(rv["l"]) or is_count(rv["r"]):
                        bound_ok = True
                    elif any(rr[0] == "call" and mir.last_seg(rr[2] or "") == "len" for side in ("l", "r") for (rr, pp) in body.deep_sources(rv[side], 3)):
                        wires_bound = t
    if bound_ok:
        res.ok({"verdict": "one iteration per element of the array's type (the count of unwrap_array_size bounds the loop)"})
    else:
        res.bad(Finding("V3", fid, "the number of iterations is not the number of elements of the array's type",
                        "the loop over the elements is bounded by %s, not by the element count of the array's type: for elements without bits (`[(); 3]`, an enum with one "
                        "unit variant) the body never runs" % ("the number of wires" if wires_bound else "something else"), (wires_bound or pt)["sp"]))
    return res


# ---------------------------------------------------------------------------------------------------- V4

def rule_v4(ctx):
    res = RuleResult("V4", "literals append the wires of every element, in order")
    f, body = _expr(ctx)
    fid = f["id"]
    for kind in ("ArrayLiteral", "TupleLiteral"):
        succ, region = _region(body, {INNER: kind})
        comps = [b for b in region if body.term(b)["k"] == "call" and mir.callee(body.term(b)) == fid]
        exts = [(b, body.term(b)) for b in sorted(region) if body.term(b)["k"] == "call" and mir.last_seg(mir.callee(body.term(b)) or "") == "extend"
                and _children(body, body.term(b)["args"][1], kind, fid) == {"0"}]
        if len(exts) != 1 or len(comps) != 1:
            res.bad(Finding("V4", fid, "%s: elements are not appended one by one" % kind, "expected wires.extend(elem.compile(..)) in a loop over the elements", f["sp"]))
            continue
        eb, et = exts[0]
        lps = [lp for lp in body.loops() if eb in lp["body"]]
        rev = any(mir.last_seg(mir.callee(body.term(b)) or "") == "rev" for b in region if body.term(b)["k"] == "call")
        rets = _ret_keys(body, region)
        if lps and not _skips(body, min(lps, key=lambda l: len(l["body"])), {eb}) and not rev and _keys(body, et["args"][0]) <= rets | _keys(body, et["args"][0]) and _returns(body, region, et["args"][0]):
            res.ok({"construct": kind, "verdict": "every element's wires are appended, in source order, to the returned vector"})
        else:
            res.bad(Finding("V4", fid, "%s: an element can be left out or the order is changed" % kind, "every iteration must extend the returned vector with the element's wires (reversed iteration: %s)" % rev, et["sp"]))
    # struct literal: declaration order of the definition named by the literal
    succ, region = _region(body, {INNER: "StructLiteral"})
    exts = [(b, body.term(b)) for b in sorted(region) if body.term(b)["k"] == "call" and mir.last_seg(mir.callee(body.term(b)) or "") == "extend"]
    defs = [(b, body.term(b)) for b in sorted(region) if body.term(b)["k"] == "call" and mir.last_seg(mir.callee(body.term(b)) or "") == "get"
            and any(p[-1:] == ("struct_defs",) for (r, p) in body.trace_operand(body.term(b)["args"][0]))]
    if len(exts) != 1 or len(defs) != 1:
        res.bad(Finding("V4", fid, "StructLiteral: fields are not appended one by one", "expected a loop over the struct definition's fields", f["sp"]))
    else:
        eb, et = exts[0]
        db, dt = defs[0]
        own_def = any(r == SELF1 and p[-1:] == ("0",) and "as StructLiteral" in p for (r, p) in body.trace_operand(dt["args"][1]))
        lps = [lp for lp in body.loops() if eb in lp["body"]]
        lp = min(lps, key=lambda l: len(l["body"])) if lps else None
        # the loop iterates the definition's fields (a Vec: declaration order), the value is looked up by that field's name
        over_def = False
        by_name = False
        if lp:
            for b in lp["body"]:
                t = body.term(b)
                if t and t["k"] == "call" and mir.last_seg(mir.callee(t) or "") == "next":
                    if any(r[0] == "call" and r[1] in (db, db + 1) or (r[0] == "call" and mir.last_seg(r[2] or "") == "unwrap") for (r, p) in body.trace_operand(t["args"][0])) and \
                            any("fields" in p for (r, p) in body.trace_operand(t["args"][0])):
                        over_def = True
                if t and t["k"] == "call" and mir.last_seg(mir.callee(t) or "") in ("get", "remove") and b != db:
                    if any("fields" in p and p[-1:] == ("0",) for (r, p) in body.trace_operand(t["args"][1])):
                        by_name = True
        if own_def and lp and over_def and by_name and not _skips(body, lp, {eb}) and _returns(body, region, et["args"][0]):
            res.ok({"construct": "StructLiteral", "verdict": "fields appended in the order of the definition named by the literal, looked up by name"})
        else:
            res.bad(Finding("V4", fid, "StructLiteral: field order / completeness", "own definition: %s; loop over the definition's fields: %s; value looked up by field name: %s" % (own_def, over_def, by_name), et["sp"]))
    # ... and the field values are evaluated in the order in which the literal lists them (they may assign to variables): the
    # lowering of the values is driven by the literal's own field list, not by the definition's
    def from_literal_list(op):
        return any(r == SELF1 and "as StructLiteral" in p and "1" in p[p.index("as StructLiteral"):] for (r, p) in body.deep_sources(op, 6))
    drivers = []
    for b in sorted(region):
        t = body.term(b)
        if body.blocks[b]["cleanup"]:
            continue
        if t["k"] == "call" and mir.callee(t) == fid:
            for lp2 in [l for l in body.loops() if b in l["body"]]:
                for x in lp2["body"]:
                    tx = body.term(x)
                    if tx and tx["k"] == "call" and mir.last_seg(mir.callee(tx) or "") == "next":
                        drivers.append((t["sp"], from_literal_list(tx["args"][0])))
        for st in body.blocks[b]["stmts"]:
            cid = st["rv"].get("closure") if st["k"] == "assign" and st["rv"]["k"] == "aggregate" else None
            if cid and ctx.has_fn(cid) and any(mir.callee(ct) == fid for _, ct in ctx.body(cid).calls()):
                site = ctx.closure_item_sources(cid)
                drivers.append((st["sp"], bool(site) and any(from_literal_list(o) for o in site[1].values())))
    if not drivers:
        res.bad(Finding("V4", fid, "StructLiteral: cannot see what drives the evaluation of the field values", "expected the field values to be lowered in a loop / adaptor over the literal's own field list", f["sp"]))
    elif all(ok for _, ok in drivers):
        res.ok({"construct": "StructLiteral", "verdict": "field values are lowered in the order of the literal's own field list"})
    else:
        res.bad(Finding("V4", fid, "StructLiteral: field values are evaluated in another order than they are written",
                        "the lowering of the field values is driven by something else than the literal's field list (the struct definition: alphabetical order): "
                        "`S { b: { x = x + 1u8; x }, a: { x = x * 2u8; x } }` evaluates `a` first", [sp for sp, ok in drivers if not ok][0]))
    # (the parser must hand the fields over in the order in which they were written: no unconditional sort of a struct literal's fields)
    n_lit = 0
    for pf in ctx.fns.values():
        if not pf.get("mir") or pf["sp"][0] != "src/parse.rs":
            continue
        pb = ctx.body(pf["id"])
        aggs = [(b, st) for b, blk in enumerate(pb.blocks) if not blk["cleanup"] for st in blk["stmts"]
                if st["k"] == "assign" and st["rv"]["k"] == "aggregate" and st["rv"].get("adt") == "ast::ExprEnum" and st["rv"].get("variant") == "StructLiteral"]
        for (ab, ast_) in aggs:
            n_lit += 1
            fl = {r for (r, p) in pb.trace_operand(ast_["rv"]["ops"][1], through={})}
            for sb, stt in pb.calls():
                if mir.last_seg(mir.callee(stt) or "") in ("sort_by", "sort", "sort_unstable_by", "sort_by_key", "sort_unstable", "sort_by_cached_key") and stt["args"] and \
                        ({r for (r, p) in pb.trace_operand(stt["args"][0])} & fl or {r for (r, p) in pb.deep_sources(stt["args"][0], 3)} & fl) and pb.dominates(sb, ab):
                    res.bad(Finding("V4", pf["id"], "the parser sorts the fields of every struct literal",
                                    "the field list of a struct literal expression is sorted before it is handed on, so the order in which the field values were written (and must be evaluated) is lost", stt["sp"]))
    if n_lit and not any(x.site.startswith("the parser sorts") for x in res.findings):
        res.ok({"construct": "StructLiteral", "verdict": "the parser keeps the written order of the fields of struct literal expressions (%d construction site(s))" % n_lit})
    # repeat literals
    for kind in ("ArrayRepeatLiteral", "ArrayRepeatLiteralConst"):
        succ, region = _region(body, {INNER: kind})
        exts = [(b, body.term(b)) for b in sorted(region) if body.term(b)["k"] == "call" and mir.last_seg(mir.callee(body.term(b)) or "") == "extend_from_slice"
                and _children(body, body.term(b)["args"][1], kind, fid) == {"0"}]
        if len(exts) != 1:
            res.bad(Finding("V4", fid, "%s: element is not appended in a loop" % kind, "expected array.extend_from_slice(&elem) `size` times", f["sp"]))
            continue
        eb, et = exts[0]
        lps = [lp for lp in body.loops() if eb in lp["body"]]
        lp = min(lps, key=lambda l: len(l["body"])) if lps else None
        count_ok = False
        if lp:
            for b in lp["body"]:
                t = body.term(b)
                if t and t["k"] == "call" and mir.last_seg(mir.callee(t) or "") == "next":
                    for (r, p) in body.trace_operand(t["args"][0]):
                        if r[0] == "agg":
                            a = body.blocks[r[1]]["stmts"][r[2]]["rv"]
                            if "Range" in (a.get("adt") or "") and a["ops"][0]["k"] == "const" and a["ops"][0].get("val") == 0:
                                ends = body.trace_operand(a["ops"][1])
                                good = bool(ends)
                                for (r2, p2) in ends:
                                    if r2 == SELF1 and len(p2) >= 3 and p2[1] == "as " + kind and p2[2] == "1":
                                        continue
                                    if r2[0] == "call" and mir.last_seg(r2[2] or "") in ("unwrap", "get", "expect"):
                                        # const-sized: const_sizes.get(<the literal's size name>).unwrap()
                                        if any(r3 == SELF1 and len(p3) >= 3 and p3[1] == "as " + kind and p3[2] == "1" for (r3, p3) in body.deep_sources(a["ops"][1], 3)):
                                            continue
                                    good = False
                                count_ok = good
        if lp and count_ok and not _skips(body, lp, {eb}) and _returns(body, region, et["args"][0]):
            res.ok({"construct": kind, "verdict": "the element's wires are appended `size` times"})
        else:
            res.bad(Finding("V4", fid, "%s: repetition count" % kind, "the loop appending the element must run 0..size of the literal (found: %s)" % count_ok, et["sp"]))
    return res


def _ret_keys(body, region):
    out = set()
    for b in region:
        for st in body.blocks[b]["stmts"]:
            if st["k"] == "assign" and st["place"]["l"] == 0 and not st["place"]["p"] and st["rv"]["k"] == "use":
                out |= _keys(body, st["rv"]["op"])
    return out


def _returns(body, region, op):
    """the vector `op` refers to is what the arm returns"""
    k = _keys(body, op)
    return bool(k & _ret_keys(body, region))


# ---------------------------------------------------------------------------------------------------- V5

def rule_v5(ctx):
    res = RuleResult("V5", "enum literal fields are copied at a running offset behind the tag")
    f, body = _expr(ctx)
    fid = f["id"]
    succ, region = _region(body, {INNER: "EnumLiteral"})
    cps = [(b, body.term(b)) for b in sorted(region) if body.term(b)["k"] == "call" and mir.last_seg(mir.callee(body.term(b)) or "") == "copy_from_slice"]
    if len(cps) != 1:
        raise AnchorMissing("V5: expected one copy_from_slice in the EnumLiteral arm, found %d" % len(cps))
    cb, ct = cps[0]
    src_ok = _children(body, ct["args"][1], "EnumLiteral", fid) == {"2"}
    sl = None
    for (r, p) in body.trace_operand(ct["args"][0], through={}):
        if r[0] == "call" and mir.last_seg(r[2] or "") in ("index_mut", "index"):
            sl = body.term(r[1])
    rng = _range_agg(body, sl["args"][1]) if sl else None
    w = mir.base_local(body, rng["ops"][0]) if rng else None

    def is_len(op):
        for (r, p) in body.trace_operand(op):
            if r[0] == "call" and mir.last_seg(r[2] or "") == "len" and _children(body, body.term(r[1])["args"][0], "EnumLiteral", fid) == {"2"}:
                return True
        return False
    if not (src_ok and w is not None and _is_sum(body, rng["ops"][1], w, is_len)):
        res.bad(Finding("V5", fid, "field is not copied to wires[w .. w + width of the field]", "source is the lowered field: %s" % src_ok, ct["sp"]))
        return res
    lps = [lp for lp in body.loops() if cb in lp["body"]]
    lp = min(lps, key=lambda l: len(l["body"]))
    adds = [(b, o) for (b, o) in mir.add_defs(body, w) if b in lp["body"]]
    skip = _skips(body, lp, {b for b, o in adds if is_len(o)} )
    skip2 = _skips(body, lp, {cb})
    inits = [d for d in body.defs().get(w, []) if d[0] == "assign" and d[3]["rv"]["k"] == "use"]
    start_ok = any(any(r[0] == "call" and mir.last_seg(r[2] or "") == "enum_tag_size" for (r, p) in body.trace_operand(d[3]["rv"]["op"])) for d in inits)
    dest_ok = _returns(body, region, sl["args"][0])
    if skip or skip2 or not start_ok or not dest_ok or any(not is_len(o) for b, o in adds):
        res.bad(Finding("V5", fid, "running offset of the enum fields", "starts behind the tag: %s; advances by the field's width on every path: %s; every field copied: %s; into the returned vector: %s" % (start_ok, not skip, not skip2, dest_ok), ct["sp"]))
    else:
        res.ok({"verdict": "fields copied at w .. w + len, w starts at the tag size and advances by len on every path"})
    return res


# ---------------------------------------------------------------------------------------------------- V6

def rule_v6(ctx):
    res = RuleResult("V6", "a block evaluates to the wires of its last statement")
    body = ctx.body("compile::compile_block")
    sc = C02.fn_of(ctx, C02.STMT_COMPILE)["id"]
    calls = [(b, t) for b, t in body.calls() if mir.callee(t) == sc]
    if len(calls) != 1:
        raise AnchorMissing("V6: compile_block no longer lowers its statements with one call")
    cb, ct = calls[0]
    ret = set()
    for blk in body.blocks:
        for st in blk["stmts"]:
            if st["k"] == "assign" and st["place"]["l"] == 0 and not st["place"]["p"] and st["rv"]["k"] == "use":
                ret |= {(r, tuple(p)) for (r, p) in body.trace_operand(st["rv"]["op"])}
    from_stmt = any(r[0] == "call" and r[1] == cb for (r, p) in ret)
    others = [(r, p) for (r, p) in ret if not (r[0] == "call" and (r[1] == cb or mir.last_seg(r[2] or "") in ("new", "from_elem")))]
    lps = [lp for lp in body.loops() if cb in lp["body"]]
    over_all = lps and any(any(r == SELF1 for (r, p) in body.trace_operand(body.term(b)["args"][0])) for lp in lps for b in lp["body"] if body.term(b) and body.term(b)["k"] == "call" and mir.last_seg(mir.callee(body.term(b)) or "") == "next")
    rev = any(mir.last_seg(mir.callee(t) or "") in ("rev", "skip", "take", "step_by") for _, t in body.calls())
    # the statement's wires are stored unconditionally: the store block is on every path of the iteration
    stores = set()
    for b, blk in enumerate(body.blocks):
        for st in blk["stmts"]:
            if st["k"] == "assign" and st["rv"]["k"] == "use" and st["rv"]["op"]["k"] in ("copy", "move") and any(r[0] == "call" and r[1] == cb for (r, p) in body.trace_operand(st["rv"]["op"], through={})):
                stores.add(b)
    lp0 = min(lps, key=lambda l: len(l["body"])) if lps else None
    uncond_store = lp0 is not None and not _skips(body, lp0, {b for b in stores if b in lp0["body"]})
    if from_stmt and not others and over_all and not rev and not _skips(body, lp0, {cb}) and uncond_store:
        res.ok({"verdict": "every statement is lowered in order; the result is what the last one returned"})
    else:
        res.bad(Finding("V6", body.id, "block value", "the value of a block must be the wires returned by its last statement (from the statement call: %s, other origins: %s, all statements in order: %s)" % (from_stmt, others, bool(over_all) and not rev), body.fn["sp"]))
    return res


# ---------------------------------------------------------------------------------------------------- V7

def rule_v7(ctx):
    res = RuleResult("V7", "a call pairs parameters with arguments by position and returns the body of the function it names")
    f, body = _expr(ctx)
    fid = f["id"]
    succ, region = _region(body, {INNER: "FnCall"})
    gets = [(b, body.term(b)) for b in sorted(region) if body.term(b)["k"] == "call" and mir.last_seg(mir.callee(body.term(b)) or "") == "get"
            and any(p[-1:] == ("fn_defs",) for (r, p) in body.trace_operand(body.term(b)["args"][0]))]
    if len(gets) != 1:
        raise AnchorMissing("V7: expected one fn_defs lookup in the FnCall arm")
    gb, gt = gets[0]
    if any(r == SELF1 and p[-1:] == ("0",) and "as FnCall" in p for (r, p) in body.trace_operand(gt["args"][1])):
        res.ok({"clause": "callee", "verdict": "the definition is looked up under the call's own identifier"})
    else:
        res.bad(Finding("V7", fid, "callee looked up under a different name", "fn_defs.get is not given the identifier of the call", gt["sp"]))
    blocks = [(b, body.term(b)) for b in sorted(region) if body.term(b)["k"] == "call" and mir.last_seg(mir.callee(body.term(b)) or "") == "compile_block"]
    if len(blocks) == 1 and any(p[-1:] == ("body",) and r[0] == "call" for (r, p) in body.trace_operand(blocks[0][1]["args"][0])) and \
            any(r[0] == "call" and r[1] == blocks[0][0] for (r, p) in _ret_keys(body, region)):
        res.ok({"clause": "result", "verdict": "the call evaluates to the wires of the callee's body"})
    else:
        res.bad(Finding("V7", fid, "call result", "the FnCall arm must return compile_block(fn_def.body)", blocks[0][1]["sp"] if blocks else f["sp"]))
    # pairing: zip(params, args); the name bound comes from the same zip item as the argument that was lowered
    zips = [(b, body.term(b)) for b in sorted(region) if body.term(b)["k"] == "call" and mir.last_seg(mir.callee(body.term(b)) or "") == "zip"]
    ok_zip = False
    for b, t in zips:
        a0 = body.trace_operand(t["args"][0])
        a1 = body.trace_operand(t["args"][1])
        if any("params" in p for (r, p) in a0) and any(r == SELF1 and "as FnCall" in p and p[-1:] == ("1",) for (r, p) in a1):
            ok_zip = True
        if any("params" in p for (r, p) in a1) and any(r == SELF1 and "as FnCall" in p and p[-1:] == ("1",) for (r, p) in a0):
            ok_zip = True
    skipping = [mir.last_seg(mir.callee(body.term(b)) or "") for b in region if body.term(b)["k"] == "call" and mir.last_seg(mir.callee(body.term(b)) or "") in ("rev", "skip", "step_by", "take", "cycle")]
    lets = [(b, body.term(b)) for b in sorted(region) if body.term(b)["k"] == "call" and mir.callee(body.term(b)) == C14.ENV_LET]
    def bound_name(op):
        """does the name operand come from a parameter's `name` (directly or through a vector of (name, wires) pairs)?"""
        for (r, p) in body.trace_operand(op):
            if p[-1:] == ("name",):
                return True
            if r[0] == "call" and len(p) >= 2 and p[0] == "[]" and p[1].isdigit():
                k = int(p[1])
                for b2 in region:
                    t2 = body.term(b2)
                    if t2["k"] == "call" and mir.last_seg(mir.callee(t2) or "") == "push" and any(r3 == r for (r3, p3) in body.trace_operand(t2["args"][0])):
                        for (r4, p4) in body.trace_operand(t2["args"][1], through={}):
                            if r4[0] == "agg":
                                ops = body.blocks[r4[1]]["stmts"][r4[2]]["rv"]["ops"]
                                if k < len(ops) and any(p5[-1:] == ("name",) for (r5, p5) in body.trace_operand(ops[k])):
                                    return True
        return False
    name_ok = lets and all(bound_name(t["args"][1]) for b, t in lets)
    if ok_zip and not skipping and name_ok:
        res.ok({"clause": "pairing", "verdict": "parameters and arguments are zipped in order; each binding uses the parameter's name"})
    else:
        res.bad(Finding("V7", fid, "parameters and arguments are not paired by position", "zip(params, args): %s; iterator adaptors that change positions: %s; bound under the parameter's name: %s" % (ok_zip, skipping, bool(name_ok)), gt["sp"]))
    return res


# ---------------------------------------------------------------------------------------------------- V8

def rule_v8(ctx):
    res = RuleResult("V8", "array reads take the higher-index element when the index bit is set (both copies of the mux tree)")
    ef, eb = _expr(ctx)
    sf, sb = _stmt(ctx)
    sites = []
    succ, region = _region(eb, {INNER: "ArrayAccess"})
    sites.append(("ArrayAccess expression", eb, region))
    succ, region = _region(sb, {INNER: "VarAssign"})
    sites.append(("array accessor of an assignment", sb, region))
    layer_sigs = []
    for label, body, region in sites:
        muxes = []
        for b in sorted(region):
            t = body.term(b)
            if t["k"] != "call" or mir.callee(t) != C02.PUSH_MUX or body.blocks[b]["cleanup"]:
                continue
            # read-tree muxes: the selector is index[mux_layer] (an element of the lowered index), operands are elements of one array
            cls = []
            for a in t["args"][2:4]:
                c = "?"
                if a["k"] == "const":
                    c = "const"
                else:
                    for (r, p) in body.trace_operand(a, through={}):
                        if r[0] == "call" and mir.last_seg(r[2] or "") == "index":
                            key = body.term(r[1])["args"][1]
                            kl = mir.base_local(body, key)
                            kd = body.defs().get(kl, [])
                            # `array[i + stride]`: the key is a temporary holding one checked sum; `array[i]`: the key is the counter itself
                            if len(kd) == 1 and kd[0][0] == "assign" and kd[0][3]["rv"]["k"] == "use" and kd[0][3]["rv"]["op"]["k"] in ("copy", "move") and kd[0][3]["rv"]["op"]["place"]["p"]:
                                tl = kd[0][3]["rv"]["op"]["place"]["l"]
                                td = [x for x in body.defs().get(tl, []) if x[0] == "assign" and x[3]["rv"]["k"] == "binop" and x[3]["rv"]["op"].startswith("Add")]
                                c = "hi" if td else "?"
                            elif len(kd) > 1:
                                c = "lo"
                        elif r[0] == "const":
                            c = "const"
                cls.append(c)
            if "?" not in cls and ("hi" in cls or "const" in cls) and cls != ["const", "const"]:
                muxes.append((b, t, cls))
        if len(muxes) < 2 and not res.findings:
            raise AnchorMissing("V8: expected the two muxes of the read tree in the %s, found %d" % (label, len(muxes)))
        # which index bits drive the tree: the Range the selector's position comes from
        for b, t, cls in muxes[:1]:
            sig = None
            for (r, p) in body.trace_operand(t["args"][1], through={}):
                if r[0] == "call" and mir.last_seg(r[2] or "") == "index":
                    key = body.term(r[1])["args"][1]
                    for (r2, p2) in body.trace_operand(key):
                        if r2[0] in ("range", "iter"):
                            it = body.term(r2[1])
                            revd = r2[0] == "iter" and mir.last_seg(r2[2] or "") == "rev"
                            srcs = body.trace_operand(it["args"][0]) if r2[0] == "iter" else {(("agg", r2[1], None), ())}
                            for (r3, p3) in body.trace_operand(it["args"][0], through=mir.TRANSPARENT) if r2[0] == "iter" else ():
                                if r3[0] == "call" and (r3[2] or "") in ctx.fns:
                                    # the range of layers is computed by a helper of the crate
                                    sig = (("helper", r3[2]), ("helper", r3[2]), revd)
                                if r3[0] == "agg":
                                    a = body.blocks[r3[1]]["stmts"][r3[2]]["rv"]
                                    if "Range" in (a.get("adt") or ""):
                                        start = ("const", a["ops"][0].get("val")) if a["ops"][0]["k"] == "const" else ("computed",)
                                        end = ("len",) if any(rr[0] == "call" and mir.last_seg(rr[2] or "") == "len" for (rr, pp) in body.trace_operand(a["ops"][1])) else ("computed",)
                                        sig = (start, end, revd)
            # can the loop over the index bits stop before its iterator is exhausted (break / return inside the layer loop)?
            early = None
            from . import C06
            for (r2, p2) in body.trace_operand(key):
                if r2[0] not in ("range", "iter"):
                    continue
                # the loop driven by the iterator the selector position comes from
                holders = []
                for l9 in body.loops():
                    for x in l9["body"]:
                        tx = body.term(x)
                        if tx and tx["k"] == "call" and mir.last_seg(mir.callee(tx) or "") == "next" and \
                                any(r8[0] in ("call", "iter", "agg") and r8[1] == r2[1] for (r8, p8) in body.trace_operand(tx["args"][0])):
                            holders.append((l9, x))
                if not holders:
                    continue
                lp_, nx = min(holders, key=lambda h: len(h[0]["body"]))
                tests = C06._next_test_blocks(body, nx, lp_["body"])
                can_ret = C06._can_return(body)
                early = any(not body.blocks[u]["cleanup"] and u not in tests and any(v not in lp_["body"] and v in can_ret for v in body.succs(u)) for u in lp_["body"])
            sig = sig + (("early-exit", early),) if sig is not None else None
            layer_sigs.append((label, sig, t["sp"]))
        for b, t, cls in muxes:
            if cls in (["hi", "lo"], ["const", "lo"]):
                res.ok({"site": label, "line": t["sp"][1], "verdict": "push_mux(index bit, %s, %s)" % tuple(cls)})
            else:
                res.bad(Finding("V8", body.id, "%s: mux operands in the wrong order" % label,
                                "when the index bit is set the element at i + stride (or the out-of-bounds filler) must be selected: expected push_mux(s, hi, lo), found push_mux(s, %s, %s)" % tuple(cls), t["sp"]))
    # sibling consistency: both copies of the tree are driven by the same index bits
    if len(layer_sigs) == 2:
        (l0, s0, sp0), (l1, s1, sp1) = layer_sigs
        if s0 is None or s1 is None:
            raise AnchorMissing("V8: cannot see which index bits drive the read tree (%s / %s)" % (s0, s1))
        if s0 == s1:
            res.ok({"verdict": "both copies of the read tree are driven by the same range of index bits", "range": str(s0)})
        else:
            res.bad(Finding("V8", sites[1][1].id, "the two copies of the array read tree use different index bits",
                            "%s iterates %s, %s iterates %s: reading a[i] and reading the base of a[i].f = v select different elements" % (l0, s0, l1, s1), sp1))
    return res


# ---------------------------------------------------------------------------------------------------- V9

def rule_v9(ctx):
    res = RuleResult("V9", "write-back through tuple / struct accessors uses the offset and width that were used for reading")
    f, body = _stmt(ctx)
    fid = f["id"]
    succ, region = _region(body, {INNER: "VarAssign"})
    # Assign::Tuple(collection before, offset, width) records
    recs = []
    for b in sorted(region):
        for st in body.blocks[b]["stmts"]:
            if st["k"] == "assign" and st["rv"]["k"] == "aggregate" and (st["rv"].get("adt") or "") in C02.local_record_adts(body) and len(st["rv"]["ops"]) == 3 and \
                    all((o.get("ty") or o.get("place", {}).get("ty")) == "usize" for o in st["rv"]["ops"][1:3]):      # (collection, offset, width)
                recs.append((b, st))
    if len(recs) < 2 and not res.findings:
        raise AnchorMissing("V9: expected the two Assign::Tuple records (tuple and struct accessor), found %d" % len(recs))
    # the read slices: collection = collection[a .. a + w]
    slices = []
    for b in sorted(region):
        t = body.term(b)
        if t["k"] == "call" and mir.last_seg(mir.callee(t) or "") == "index" and not body.blocks[b]["cleanup"]:
            a = _range_agg(body, t["args"][1])
            if a and a["ops"][0]["k"] in ("copy", "move") and a["ops"][1]["k"] in ("copy", "move"):
                slices.append((b, t, a))
    for b, st in recs:
        off = mir.base_local(body, st["rv"]["ops"][1])
        wid = mir.base_local(body, st["rv"]["ops"][2])
        match = None
        for sb_, t, a in slices:
            o2 = mir.base_local(body, a["ops"][0])
            if o2 == off and _is_sum(body, a["ops"][1], off, lambda op: mir.base_local(body, op) == wid):
                match = t
        if match is not None and off is not None and wid is not None and off != wid:
            res.ok({"record": "line %d" % st["sp"][1], "verdict": "(offset, width) recorded = (start, length) of the slice that was read at line %d" % match["sp"][1]})
        else:
            res.bad(Finding("V9", fid, "recorded offset / width differ from the slice that was read", "the Assign record must carry the start and the length of the slice taken from the collection", st["sp"]))
    # the write-back: tuple[off .. off + width].copy_from_slice(&value), off / width being fields 1 and 2 of the record
    cps = [(b, body.term(b)) for b in sorted(region) if body.term(b)["k"] == "call" and mir.last_seg(mir.callee(body.term(b)) or "") == "copy_from_slice"]
    if len(cps) != 1:
        raise AnchorMissing("V9: expected one copy_from_slice write-back in the VarAssign arm, found %d" % len(cps))
    cb, ct = cps[0]
    sl = None
    for (r, p) in body.trace_operand(ct["args"][0], through={}):
        if r[0] == "call" and mir.last_seg(r[2] or "") in ("index_mut", "index"):
            sl = body.term(r[1])
    rng = _range_agg(body, sl["args"][1]) if sl else None
    ok = False
    if rng:
        s0 = body.trace_operand(rng["ops"][0])
        start_f = {p[-1] for (r, p) in s0 if p}
        end_ok = False
        for (r, p) in body.trace_operand(rng["ops"][1], through={}):
            if r[0] == "rv" and r[1] == "binop":
                rv = body.blocks[r[2]]["stmts"][r[3]]["rv"]
                if rv["op"].startswith("Add"):
                    fl = {p2[-1] for (r2, p2) in body.trace_operand(rv["l"]) if p2}
                    fr = {p2[-1] for (r2, p2) in body.trace_operand(rv["r"]) if p2}
                    if {tuple(sorted(fl)), tuple(sorted(fr))} == {("1",), ("2",)}:
                        end_ok = True
        ok = start_f == {"1"} and end_ok
    if ok:
        res.ok({"verdict": "write-back: tuple[record.1 .. record.1 + record.2].copy_from_slice(value)"})
    else:
        res.bad(Finding("V9", fid, "write-back range", "the assigned value must be copied to [recorded offset .. recorded offset + recorded width]", ct["sp"]))
    return res


def rule_v10(ctx):
    """Cross-reference: arguments are values of the caller's scope (C14-E7) - otherwise a call computes with the wrong wires."""
    res = RuleResult("V10", "call arguments are lowered in the caller's scope before any parameter is bound (cross-reference to C14-E7)")
    e7 = C14.rule_e7(ctx)
    for x in e7.findings:
        res.bad(Finding("V10", x.fn, x.site, x.message, x.span))
    if not e7.findings:
        res.ok({"verdict": "C14-E7 holds: no argument is lowered after a parameter of the callee was bound"})
    return res


GATE_SEM = {"Xor": ("binop", "BitXor", 2), "And": ("binop", "BitAnd", 2), "Not": ("unop", "Not", 1)}


def rule_v11(ctx):
    """Both reference evaluators apply the Boolean operation a gate is named after to the wires the gate names."""
    res = RuleResult("V11", "the evaluators compute xor / and / not of the operands named by the gate")
    for fid, adt, strip in (("circuit::Circuit::eval", "circuit::Gate", None), ("register_circuit::Circuit::eval", "register_circuit::Op", None)):
        body = ctx.body(fid)
        sw = None
        for b in range(body.n):
            info = body.switch_info(b)
            if info and info[2] == adt and info[0]:
                sw = (b, info)
        if sw is None:
            raise AnchorMissing("V11: %s does not switch over %s" % (fid, adt))
        b0, info = sw
        for variant, (k, opname, arity) in GATE_SEM.items():
            succ = body.pruned_succ({info[0]: variant})
            # blocks reachable from the switch under the assumption, up to the store of the result
            region = body.reachable([b0], succ=succ)
            others = set()
            for v2 in GATE_SEM:
                if v2 != variant:
                    others |= body.reachable([b0], succ=body.pruned_succ({info[0]: v2}))
            mine = region - others
            ops = []
            for b in sorted(mine):
                for st in body.blocks[b]["stmts"]:
                    if st["k"] == "assign" and st["rv"]["k"] in ("binop", "unop") and body.locals[st["place"]["l"]]["ty"] == "bool":
                        ops.append((b, st))
            label = "%s: %s" % (mir.last_seg(fid.rsplit("::", 1)[0]) + "::eval", variant)
            good = [st for (b, st) in ops if st["rv"]["k"] == k and st["rv"]["op"] == opname]
            if len(ops) != 1 or len(good) != 1:
                res.bad(Finding("V11", fid, "%s gate is not evaluated with %s" % (variant, opname), "found %s" % [(st["rv"]["k"], st["rv"]["op"]) for (b, st) in ops], body.term(b0)["sp"]))
                continue
            st = good[0]
            operands = [st["rv"]["l"], st["rv"]["r"]] if k == "binop" else [st["rv"].get("x") or st["rv"].get("operand") or st["rv"].get("op_") or st["rv"].get("o")]
            fields = []
            for o in operands:
                fs = set()
                if o is None:
                    continue
                for p in _index_key_paths(body, o):
                    for i, seg in enumerate(p):
                        if seg == "as " + variant:
                            fs.add(tuple(x for x in p[i + 1:] if x.isdigit()))
                fields.append(fs)
            want = [{("0",)}, {("1",)}] if arity == 2 else [{("0",)}]
            want_wrapped = [{("0", "0")}, {("0", "1")}] if arity == 2 else [{("0", "0")}]
            if fields in (want, want[::-1], want_wrapped, want_wrapped[::-1]):
                res.ok({"evaluator": fid, "gate": variant, "verdict": "%s of the wires named by the gate" % opname})
            else:
                res.bad(Finding("V11", fid, "%s gate reads the wrong operands" % variant, "operands of %s derive from payload fields %s" % (opname, fields), st["sp"]))
    return res


def _index_key_paths(body, op, depth=4):
    """Access paths of the keys with which the value `op` was read out of a vector (looks through unwrap / deref / copies)."""
    out = set()
    work = [(op, depth)]
    while work:
        o, d = work.pop()
        if o["k"] not in ("copy", "move") or d < 0:
            continue
        for (r, p) in body.trace_operand(o, through={}):
            if r[0] != "call":
                continue
            t = body.term(r[1])
            seg = mir.last_seg(r[2] or "")
            if seg in ("index", "index_mut", "get", "get_unchecked") and len(t["args"]) >= 2:
                for (r2, p2) in body.trace_operand(t["args"][1]):
                    out.add(tuple(p2))
            elif seg in ("unwrap", "expect", "deref", "clone", "copied", "cloned", "unwrap_or", "unwrap_or_default") and t["args"]:
                work.append((t["args"][0], d - 1))
    return out


# ---------------------------------------------------------------------------------------------------- V12
# Abstract interpretation of the one-bit builder primitives over the domain "Boolean function of the wire parameters"
# (a truth table with 2^k rows).  push_xor / push_and are the base gates (their meaning is what the evaluators compute,
# V11); everything else is a composition of calls, which the interpreter evaluates table-wise.  Branches on the identity of
# two wires (`if x0 == x1 { return x0 }`) are followed on both sides; on the equal side only the rows where the two
# functions agree are kept.

BUILDER = "circuit::CircuitBuilder::"


def _tt_specs():
    def tbl(k, fn):
        rows = 1 << k
        out = 0
        for row in range(rows):
            bits = [(row >> i) & 1 for i in range(k)]
            if fn(*bits):
                out |= 1 << row
        return out
    return {
        "push_not": (1, lambda x: (1 - x,)),
        "push_or": (2, lambda x, y: (x | y,)),
        "push_eq": (2, lambda x, y: (1 - (x ^ y),)),
        "push_mux": (3, lambda s_, a, b: (a if s_ else b,)),
        "push_adder": (3, lambda x, y, c: ((x + y + c) & 1, (x + y + c) >> 1)),
        "push_multiplier": (4, lambda x, y, z, c: (((x & y) + z + c) & 1, ((x & y) + z + c) >> 1)),
        "push_condswap": (3, lambda s_, x, y: ((y, x) if s_ else (x, y))),
    }, tbl


class _Disagree(Exception):
    pass


class _TT:
    def __init__(self, ctx, k):
        self.ctx = ctx
        self.k = k
        self.rows = 1 << k
        self.full = (1 << self.rows) - 1
        self.memo = {}

    def var(self, i):
        out = 0
        for row in range(self.rows):
            if (row >> i) & 1:
                out |= 1 << row
        return out

    def call(self, name, args, depth):
        """tables of the results of builder primitive `name` applied to argument tables"""
        seg = mir.last_seg(name)
        if seg == "push_xor":
            return (args[0] ^ args[1],)
        if seg == "push_and":
            return (args[0] & args[1],)
        if depth > 6:
            raise AnchorMissing("V12: call depth exceeded at %s" % name)
        key = (name, tuple(args))
        if key not in self.memo:
            outs = self.run(name, args, depth + 1)
            # all exits must agree on the rows they are valid for (exits that depend on the state of the cache / the
            # negation table are alternatives for the same rows); combine
            res = None
            for (vals, mask) in outs:
                if res is None:
                    res = [0] * len(vals)
                    seen = 0
                for i, v in enumerate(vals):
                    if (res[i] ^ v) & mask & seen:
                        raise _Disagree(name)
                    res[i] |= v & mask & ~seen
                seen |= mask
            if res is None or seen != self.full:
                raise AnchorMissing("V12: %s has rows without a result" % name)
            self.memo[key] = tuple(res)
        return self.memo[key]

    def run(self, fid, args, depth):
        """[(result tables, row mask)] for every exit of fid"""
        body = self.ctx.body(fid)
        env0 = {}
        for i, a in enumerate(args):
            env0[i + 2] = a          # _1 is self
        outs = []
        work = [(0, env0, self.full)]
        steps = 0
        while work:
            b, env, mask = work.pop()
            steps += 1
            if steps > 400:
                raise AnchorMissing("V12: %s: too many paths" % fid)
            env = dict(env)
            blk = body.blocks[b]
            for st in blk["stmts"]:
                if st["k"] != "assign":
                    continue
                d = st["place"]
                rv = st["rv"]
                val = None
                if rv["k"] == "use":
                    val = self.operand(env, rv["op"])
                elif rv["k"] == "aggregate" and rv.get("akind") == "tuple":
                    val = tuple(self.operand(env, o) for o in rv["ops"])
                elif rv["k"] == "binop" and rv["op"] in ("Eq", "Ne"):
                    l, r = self.operand(env, rv["l"]), self.operand(env, rv["r"])
                    if isinstance(l, int) and isinstance(r, int):
                        val = ("cmp", rv["op"], l, r)
                elif rv["k"] == "ref":
                    rp = rv["place"]
                    if not rp["p"]:
                        val = ("ref", rp["l"])
                    elif [e["k"] for e in rp["p"]] == ["deref"]:
                        val = env.get(rp["l"])      # reborrow
                    else:
                        names = [e.get("name") for e in rp["p"] if e["k"] == "field"]
                        val = ("self-field", names[-1] if names else None)
                elif rv["k"] == "aggregate" and rv.get("adt") == "circuit::BuilderGate":
                    ops_ = [self.operand(env, o) for o in rv["ops"]]
                    if all(isinstance(o, int) for o in ops_):
                        val = ("gate", rv.get("variant"), ops_[0], ops_[1])
                elif rv["k"] == "discriminant":
                    val = ("disc", self.place(env, rv["place"]))
                if not d["p"]:
                    env[d["l"]] = val
            t = blk["term"]
            if t["k"] == "goto":
                work.append((t["target"], env, mask))
            elif t["k"] == "return":
                v = env.get(0)
                outs.append(((v,) if isinstance(v, int) else tuple(v), mask))
            elif t["k"] == "switch":
                c = self.operand(env, t["discr"])
                if isinstance(c, tuple) and c and c[0] == "disc" and isinstance(c[1], tuple) and c[1] and c[1][0] == "opt":
                    some = c[1][1] is not None
                    tg = [x for v, x in t["targets"] if v == (1 if some else 0)]
                    work.append(((tg[0] if tg else t["otherwise"]), env, mask))
                    continue
                if not (isinstance(c, tuple) and c and c[0] == "cmp"):
                    raise AnchorMissing("V12: %s branches on something that is not a wire comparison" % fid)
                _, op, l, r = c
                same = ~(l ^ r) & self.full     # rows on which the two wires carry the same value
                zero_t = [tg for v, tg in t["targets"] if v == 0]
                other = [x for x in body.succs(b) if x not in zero_t and not body.blocks[x]["cleanup"]]
                eq_side, ne_side = (other, zero_t) if op == "Eq" else (zero_t, other)
                # identical wires imply identical values: the equal side is only meaningful on `same` rows; different
                # wires can still carry equal values, so the other side keeps every row
                for x in eq_side:
                    if mask & same:
                        work.append((x, env, mask & same))
                for x in ne_side:
                    work.append((x, env, mask))
            elif t["k"] == "call":
                name = mir.callee(t) or ""
                seg = mir.last_seg(name)
                # bookkeeping look-ups: both answers are explored; a hit yields the wire the table stands for
                # (`negated[x]` computes NOT x - C04-O6; a cached And / Xor gate computes that gate - C15-U2)
                if seg == "get" and t["args"] and self.operand(env, t["args"][0]) == ("self-field", "negated"):
                    k_ = self.deref(env, self.operand(env, t["args"][1]))
                    if not isinstance(k_, int):
                        raise AnchorMissing("V12: %s looks a non-wire up in `negated`" % fid)
                    for ans in (("opt", None), ("opt", ~k_ & self.full)):
                        e2 = dict(env)
                        e2[t["dest"]["l"]] = ans
                        work.append((t["target"], e2, mask))
                    continue
                if seg == "get_cached":
                    g_ = self.deref(env, self.operand(env, t["args"][1]))
                    if not (isinstance(g_, tuple) and g_ and g_[0] == "gate"):
                        raise AnchorMissing("V12: %s looks something up in the gate cache that is not a gate built from wires" % fid)
                    hit = (g_[2] & g_[3]) if g_[1] == "And" else (g_[2] ^ g_[3])
                    for ans in (("opt", None), ("opt", hit)):
                        e2 = dict(env)
                        e2[t["dest"]["l"]] = ans
                        work.append((t["target"], e2, mask))
                    continue
                if not name.startswith(BUILDER):
                    raise AnchorMissing("V12: %s calls %s" % (fid, name))
                cargs = [self.operand(env, a) for a in t["args"][1:]]
                if not all(isinstance(a, int) for a in cargs):
                    raise AnchorMissing("V12: %s passes a non-wire to %s" % (fid, name))
                vals = self.call(name, cargs, depth)
                if not t["dest"]["p"]:
                    env[t["dest"]["l"]] = vals[0] if len(vals) == 1 else tuple(vals)
                work.append((t["target"], env, mask))
            elif t["k"] == "assert":
                work.append((t["target"], env, mask))
            elif t["k"] == "drop":
                work.append((t["target"], env, mask))
            else:
                raise AnchorMissing("V12: %s: terminator %s" % (fid, t["k"]))
        return outs

    def deref(self, env, v):
        for _ in range(4):
            if isinstance(v, tuple) and v and v[0] == "ref":
                v = env.get(v[1])
            else:
                break
        return v

    def place(self, env, pl):
        v = env.get(pl["l"])
        for e in pl["p"]:
            if e["k"] == "deref":
                v = self.deref(env, v)
            elif e["k"] == "downcast":
                continue
            elif e["k"] == "field":
                if isinstance(v, tuple) and v and v[0] == "opt":
                    v = v[1]
                elif isinstance(v, tuple) and v and not isinstance(v[0], str):
                    v = v[e["i"]]
                else:
                    return None
            else:
                return None
        return v

    def operand(self, env, op):
        if op["k"] in ("copy", "move") and op["place"]["p"]:
            return self.place(env, op["place"])
        if op["k"] == "const":
            v = op.get("val")
            if v == 0:
                return 0
            if v == 1:
                return self.full
            return ("const", v)
        pl = op["place"]
        v = env.get(pl["l"])
        for e in pl["p"]:
            if e["k"] == "field" and isinstance(v, tuple) and v and not isinstance(v[0], str):
                v = v[e["i"]]
            elif e["k"] == "deref":
                pass
            else:
                return None
        return v


def rule_v12(ctx):
    res = RuleResult("V12", "the one-bit builder primitives compute the Boolean functions their callers rely on (truth-table interpretation)")
    specs, tbl = _tt_specs()
    for seg, (k, fn) in sorted(specs.items()):
        fid = BUILDER + seg
        if fid not in ctx.fns:
            raise AnchorMissing("V12: %s not found" % fid)
        tt = _TT(ctx, k)
        args = [tt.var(i) for i in range(k)]
        try:
            got = tt.call(fid, args, 0)
        except _Disagree as e:
            res.bad(Finding("V12", fid, "%s computes different functions depending on what is cached" % seg,
                            "two exits of %s (taken depending on the contents of the gate cache / the negation table) return different Boolean functions of the same operands: "
                            "at least one of its shortcuts is wrong" % mir.last_seg(str(e)), ctx.fns[fid]["sp"]))
            continue
        want = []
        n_out = len(fn(*([0] * k)))
        for j in range(n_out):
            want.append(tbl(k, lambda *bits, j=j: fn(*bits)[j]))
        if tuple(want) == tuple(got):
            res.ok({"primitive": seg, "inputs": k, "verdict": "truth table matches on all %d rows" % (1 << k)})
        else:
            rows = [r for r in range(1 << k) if any(((g >> r) & 1) != ((w >> r) & 1) for g, w in zip(got, want))]
            res.bad(Finding("V12", fid, "%s computes a different Boolean function" % seg,
                            "interpreting the body over truth tables of its wire parameters gives a result that differs from the function its callers assume on input rows %s "
                            "(bit i of a row number = value of the i-th wire parameter)" % rows[:8], ctx.fns[fid]["sp"]))
    return res


def rule_v13(ctx):
    """Cross-reference: assignments made while lowering a child are never lost (C14-E9) - else a later read returns a stale value."""
    res = RuleResult("V13", "no child is lowered on a copy of the environment that is thrown away (cross-reference to C14-E9)")
    e9 = C14.rule_e9(ctx)
    for x in e9.findings:
        res.bad(Finding("V13", x.fn, x.site, x.message, x.span))
    if not e9.findings:
        res.ok({"verdict": "C14-E9 holds for every arm of the expression / statement lowering"})
    return res


def rule_v14(ctx):
    """Cross-reference: the optimiser's rewrites keep the function (C04 O4 - O10): C01 holds with de-duplication on or off."""
    from . import C04
    res = RuleResult("V14", "peephole rewrites and the dead-gate sweep keep the function (cross-reference to C04 O1, O4 - O10)")
    ok = True
    for fn in (C04.rule_o1, C04.rule_o4, C04.rule_o5, C04.rule_o7, C04.rule_o8, C04.rule_o9, C04.rule_o10):
        r = fn(ctx)
        for x in r.findings:
            res.bad(Finding("V14", x.fn, x.site, x.message, x.span))
            ok = False
    if ok:
        res.ok({"verdict": "C04 O1, O4, O5, O7 - O10 hold"})
    return res


def rule_v15(ctx):
    """Cross-reference: patterns test what they say (C08 M3, M4) - a wrong match bit selects the wrong arm's value."""
    from . import C08
    res = RuleResult("V15", "range patterns compare with both bounds; compound patterns test each field's own bits (cross-reference to C08 M3 / M4)")
    ok = True
    for fn in (C08.rule_m3, C08.rule_m4):
        r = fn(ctx)
        for x in r.findings:
            res.bad(Finding("V15", x.fn, x.site, x.message, x.span))
            ok = False
    if ok:
        res.ok({"verdict": "C08 M3 / M4 hold"})
    return res


def rule_v16(ctx):
    """Cross-reference: a match evaluates to the arm of the first matching pattern only if some pattern matches: the exhaustiveness
    check must line up struct fields by name (C17-T14) and number patterns must be values of the matched type (C17-T15);
    otherwise an accepted match has no matching arm for some value and evaluates to 0."""
    from . import C17
    res = RuleResult("V16", "accepted matches are exhaustive: struct fields aligned by name, number patterns inside the matched type (cross-reference to C17-T14 / T15)")
    for sub in (C17.rule_t14(ctx), C17.rule_t15(ctx)):
        for x in sub.findings:
            res.bad(Finding("V16", x.fn, x.site, x.message, x.span))
        if not sub.findings:
            res.ok({"verdict": "C17-%s holds" % sub.rule})
    return res


def rule_v17(ctx):
    """Cross-reference: a match yields the value of the first matching arm only if the 'a previous arm matched' flag is an OR of
    the arms' verdicts and drives the selector (C08-M1)."""
    from . import C08
    res = RuleResult("V17", "match: first matching arm wins (cross-reference to C08-M1)")
    sub = C08.rule_m1(ctx)
    for x in sub.findings:
        res.bad(Finding("V17", x.fn, x.site, x.message, x.span))
    if not sub.findings:
        res.ok({"verdict": "C08-M1 holds"})
    return res


def rule_v18(ctx):
    """Cross-reference: every operator arm lowers with its own arithmetic circuit on every path; a rewrite into another expression
    (`x / 2^k` as a shift, `x - c` as `x + (-c)`) must be exact for every operand value and sign (C03-A3)."""
    from . import C03
    res = RuleResult("V18", "operators are lowered with their own circuits, rewrites are exact (cross-reference to C03-A3)")
    sub = C03.rule_a3(ctx)
    for x in sub.findings:
        res.bad(Finding("V18", x.fn, x.site, x.message, x.span))
    if not sub.findings:
        res.ok({"verdict": "C03-A3 holds"})
    return res


def rule_v19(ctx):
    """Cross-reference: a multiplication by a literal is lowered as sign handling + repeated addition; the value is only right if the
    sign of the literal and the magnitude are both applied on every path (C03-A4): `x * -1` lowered as `x` returns the operand."""
    from . import C03
    res = RuleResult("V19", "multiplication by a literal applies magnitude and sign of the literal (cross-reference to C03-A4)")
    sub = C03.rule_a4(ctx)
    for x in sub.findings:
        res.bad(Finding("V19", x.fn, x.site, x.message, x.span))
    if not sub.findings:
        res.ok({"verdict": "C03-A4 holds"})
    return res


def run(ctx):
    return ctx.run_rules([rule_v13, rule_v12, rule_v11, rule_v1, rule_v2, rule_v3, rule_v4, rule_v5, rule_v6, rule_v7, rule_v8, rule_v9, rule_v10, rule_v14, rule_v15, rule_v16, rule_v17, rule_v18, rule_v19])
