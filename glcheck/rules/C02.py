"""C02 - panic iff the source fails; first failure wins; untaken code is silent.

P1  push_panic_if accumulates monotonically (OR into has_panicked, keep earlier location via mux on the old flag);
    the memo of already-merged conditions is sound (inserted after the OR, intersected at merges)
P2  save / compile / restore / mux / install protocol of the running panic record around conditional code
P3  every failing operation raises, with the right reason, on every path through its lowering arm;
    operations that cannot fail stay silent
P4  the reported location is the failing node's own meta
P5  all six fields of the record are accumulated, merged, kept alive, renumbered and emitted in order
P6  every decoder parses the panic record before touching payload bits
P8  cross-reference: every operand and every callee body is lowered on every path (C14-E16), else a reachable failure is not recorded
P7  cross-reference: every operand is evaluated once (C14-E11 parser sugar, C14-E12 lowering), else a failure is reported that the source never reaches
"""
from .. import hir, mir, protocol
from ..core import AnchorMissing, Finding, RuleResult

PROPERTY = "C02"
TECHNIQUE = ("typestate / abstract interpretation of the panic-record protocol on MIR (variant-pruned paths), "
             "must-pass-through raise table per lowering arm, value-origin checks, sibling completeness over the ADT table")
LEVEL_TEXT = (
    "Decides the structural necessary conditions of every clause: (P1) the only accumulator, push_panic_if, ORs the "
    "condition into the flag and keeps the earlier reason/location through a mux on the old flag, for all six fields, "
    "and its memo of already-merged conditions is only filled after the OR and intersected at merges; (P2) in every "
    "conditional construct (if, match, &&, ||, for-join) an abstract interpreter over the variant-pruned MIR paths "
    "shows that the record seen at exit contains every effect raised on the path (nothing dropped or overwritten), "
    "that the effects of conditionally executed children are never unconditional (untaken code silent), that "
    "exclusive children never share a merge operand and that a loop iteration never starts from the previous "
    "iteration's record; (P3) each operator/array arm passes a raise with the right PanicReason on every path and "
    "non-failing arms raise nothing; (P4) the location operand is the node's own meta; (P5/P6) the record is carried "
    "to the outputs and decoded first. Not decided: that condition wires are arithmetically right (C03), the t/f "
    "operand order of merges, evaluation order between siblings."
    " Cross-references P7 / P8: every operand is evaluated exactly once and every operand / callee body is lowered on every path (C14 E11, E12, E16), else a failure is reported twice, spuriously, or not at all.")
LEVEL_NOTE = ("Trusted: rustc MIR/HIR and callee resolution; push_mux(s,a,b) selects a when s; callee lowering functions obey "
              "the same protocol (checked for each function that touches the record: inductive). Paths are pruned only on "
              "switches over the discriminant of the node being lowered.")
EXPLANATION = (
    "P1/P5 analyse CircuitBuilder::{push_panic_if,mux_panic,mux_uncached_panic,remove_unused_gates,build} and "
    "EvalPanic::parse on MIR; P2 runs glcheck.protocol (configurations of abstract record values per block) over "
    "TypedExpr::compile restricted to If / Match / ShortCircuitAnd / ShortCircuitOr and over the JoinLoop closure of "
    "TypedStmt::compile; P3/P4 use must-pass-through on paths pruned to one AST variant; P6 uses dominance.")
NOT_DECIDED = ("arithmetic correctness of the condition wires (C03); then/else operand order of mux_panic / push_mux "
               "(value level); evaluation order between sibling sub-expressions")
ASSUMPTIONS = ["push_mux(s, a, b) returns a when s is set (read from its definition: x0 ^ ((x0^x1) & !s))"]

PUSH_PANIC_IF = "circuit::CircuitBuilder::push_panic_if"
PEEK = "circuit::CircuitBuilder::peek_panic"
REPLACE = "circuit::CircuitBuilder::replace_panic_with"
MUX_PANIC = "circuit::CircuitBuilder::mux_panic"
MUX_UNCACHED = "circuit::CircuitBuilder::mux_uncached_panic"
PUSH_MUX = "circuit::CircuitBuilder::push_mux"
PUSH_OR = "circuit::CircuitBuilder::push_or"
BUILDER_T = "circuit::CircuitBuilder"
SELF1 = ("arg", 1)
INNER = (SELF1, ("inner",))

EXPR_COMPILE = ("compile", "&ast::Expr<ast::Type>")
STMT_COMPILE = ("compile", "&ast::Stmt<ast::Type>")
PAT_COMPILE = ("compile", "&ast::Pattern<ast::Type>")


def fn_of(ctx, spec):
    return ctx.find_fn(spec[0], spec[1], "compile.rs")


def record_fields(ctx):
    adt = ctx.adt("circuit::PanicResult")
    return [f["name"] for f in adt["variants"][0]["fields"]]


# ------------------------------------------------------------------------------------------------
# P1
# ------------------------------------------------------------------------------------------------

def rule_p1(ctx):
    res = RuleResult("P1", "push_panic_if accumulates monotonically; memo of merged conditions is sound")
    fields = record_fields(ctx)
    if fields[0] != "has_panicked" or len(fields) != 6:
        raise AnchorMissing("PanicResult is expected to have has_panicked + 5 arrays, found %r" % fields)
    body = ctx.body(PUSH_PANIC_IF)
    fid = PUSH_PANIC_IF
    RES = ("panic_gates", "result")
    writes = []   # (bb, idx, place, path-after-result)
    for b, blk in enumerate(body.blocks):
        if blk["cleanup"]:
            continue
        for i, st in enumerate(blk["stmts"]):
            if st["k"] != "assign":
                continue
            if not any(e["k"] == "deref" for e in st["place"]["p"]):
                continue  # a write to a local, not through `self` or a reference
            tr = body.trace(st["place"], through=protocol.DEREF_ONLY)
            for (r, p) in tr:
                if r == SELF1 and tuple(p[:2]) == RES:
                    writes.append((b, i, st, tuple(p[2:])))
        t = blk["term"]
        if t and t["k"] == "call" and mir.callee(t) not in (PUSH_OR, PUSH_MUX):
            # a callee that receives &mut into the record writes it in a way this rule does not know
            for a in t["args"]:
                if a["k"] in ("copy", "move") and a["place"]["ty"].startswith("&mut ") and "PanicResult" in a["place"]["ty"]:
                    for (r, p) in body.trace(a["place"], through=protocol.DEREF_ONLY):
                        if r == SELF1 and tuple(p[:2]) == RES:
                            res.bad(Finding("P1", fid, "opaque write via %s" % mir.last_seg(mir.callee(t) or "?"),
                                            "the running panic record is handed mutably to %s" % mir.callee(t), t["sp"]))
    flag_writes = [w for w in writes if w[3] == ("has_panicked",)]
    if not flag_writes:
        res.bad(Finding("P1", fid, "no-accumulate", "push_panic_if never writes has_panicked of the running record", body.fn["sp"]))
        return res
    flag_blocks = {w[0] for w in flag_writes}

    def reads_flag(op):
        if op["k"] not in ("copy", "move"):
            return False
        return any(r == SELF1 and tuple(p) == RES + ("has_panicked",) for (r, p) in body.trace(op["place"], through=protocol.DEREF_ONLY))

    def reads_old_flag(op):
        """operand is a copy of has_panicked taken before has_panicked is written."""
        if op["k"] not in ("copy", "move"):
            return False
        l = op["place"]["l"]
        if op["place"]["p"]:
            return False
        # follow plain copies back to the statement that read the field
        seen = set()
        while True:
            ds = [d for d in body.defs().get(l, []) if d[0] == "assign"]
            if len(ds) != 1 or l in seen:
                return False
            seen.add(l)
            d = ds[0]
            rv = d[3]["rv"]
            if rv["k"] != "use" or rv["op"]["k"] not in ("copy", "move"):
                return False
            src = rv["op"]["place"]
            tr = body.trace(src, through=protocol.DEREF_ONLY)
            if any(r == SELF1 and tuple(p) == RES + ("has_panicked",) for (r, p) in tr) and src["p"]:
                # the read must happen before every write of the flag: its block dominates the write blocks
                # and is not after them
                rb = d[1]
                return all(body.dominates(rb, wb) and (rb != wb or d[2] < min(w[1] for w in flag_writes if w[0] == wb)) for wb in flag_blocks)
            l = src["l"]

    def call_def(op):
        if op["k"] not in ("copy", "move") or op["place"]["p"]:
            return None
        ds = [d for d in body.defs().get(op["place"]["l"], []) if d[0] in ("assign", "call")]
        if len(ds) == 1 and ds[0][0] == "call":
            return ds[0][3]
        if len(ds) == 1 and ds[0][0] == "assign" and ds[0][3]["rv"]["k"] == "use":
            return call_def(ds[0][3]["rv"]["op"])
        return None

    new_rec_sources = {"start_line": ("start", "0"), "start_column": ("start", "1"), "end_line": ("end", "0"), "end_column": ("end", "1")}

    def new_field_ok(op, field):
        """operand reads field `field` of a freshly built PanicResult whose field comes from reason / meta."""
        if op["k"] not in ("copy", "move"):
            return False, "not a place"
        tr = body.trace(op["place"])
        if not tr:
            return False, "new value has no origin"
        for (r, p) in tr:
            if r[0] != "call":
                return False, "new value for %s is not a field of a record built from reason / meta (origin %s%s)" % (
                    field, r[0], "".join("." + x for x in p))
            c = body.term(r[1])
            if field == "panic_type":
                ok = mir.last_seg(mir.callee(c)) == "as_bits" and any(rr == ("arg", 3) for (rr, _p) in body.trace_operand(c["args"][0]))
                if not ok:
                    return False, "panic_type of the new record is not reason.as_bits()"
            else:
                want = new_rec_sources[field]
                if mir.last_seg(mir.callee(c)) != "unsigned_as_usize_bits":
                    return False, "%s of the new record is not the binary encoding of a meta component" % field
                trc = body.trace_operand(c["args"][0])
                if not any(rr == ("arg", 4) and tuple(pp) == want for (rr, pp) in trc):
                    return False, "%s of the new record is not taken from meta.%s.%s (found meta.%s)" % (
                        field, want[0], want[1], sorted(".".join(pp) for _r, pp in trc))
        return True, ""

    # (a)-(c): classify each write
    written_fields = set()
    for (b, i, st, sub) in writes:
        rv = st["rv"]
        site = "write %s" % (".".join(sub) or "<whole record>")
        if sub == ():
            # whole record overwritten: acceptable only if derived from the current record
            derived = False
            if rv["k"] == "use":
                c = call_def(rv["op"])
                if c is not None:
                    for a in c["args"]:
                        if a["k"] in ("copy", "move") and any(r == SELF1 and tuple(p[:2]) == RES for (r, p) in body.trace(a["place"], through=protocol.DEREF_ONLY)):
                            derived = True
            if derived:
                res.ok({"site": site, "verdict": "derived from the current record"})
            else:
                res.bad(Finding("P1", fid, "whole-record overwrite",
                                "the running panic record is overwritten with a value not derived from it "
                                "(panics accumulated so far are dropped)", st["sp"]))
            continue
        f = sub[0]
        written_fields.add(f)
        if f == "has_panicked":
            c = call_def(rv["op"]) if rv["k"] == "use" else None
            ok = c is not None and mir.callee(c) == PUSH_OR and len(c["args"]) == 3 and (
                (reads_flag(c["args"][1]) and any(r == ("arg", 2) for (r, _p) in body.trace_operand(c["args"][2]))) or
                (reads_flag(c["args"][2]) and any(r == ("arg", 2) for (r, _p) in body.trace_operand(c["args"][1]))))
            if ok:
                res.ok({"site": site, "verdict": "has_panicked := push_or(has_panicked, cond)"})
            else:
                res.bad(Finding("P1", fid, site, "has_panicked is not assigned push_or(<current has_panicked>, cond)", st["sp"]))
            continue
        c = call_def(rv["op"]) if rv["k"] == "use" else None
        if c is None or mir.callee(c) != PUSH_MUX or len(c["args"]) != 4:
            res.bad(Finding("P1", fid, site, "field %s is not assigned from push_mux(already_panicked, old, new)" % f, st["sp"]))
            continue
        sel, old, new = c["args"][1], c["args"][2], c["args"][3]
        probs = []
        if not reads_old_flag(sel):
            probs.append("selector is not the value of has_panicked read before it is updated")
        if not (old["k"] in ("copy", "move") and any(r == SELF1 and tuple(p[:3]) == RES + (f,) for (r, p) in body.trace(old["place"], through=protocol.DEREF_ONLY))):
            probs.append("kept-if-already-panicked operand is not the current %s" % f)
        okn, why = new_field_ok(new, f)
        if not okn:
            probs.append(why)
        if probs:
            res.bad(Finding("P1", fid, site, "; ".join(probs), st["sp"]))
        else:
            res.ok({"site": site, "verdict": "%s[i] := push_mux(old has_panicked, %s[i], new.%s[i])" % (f, f, f)})
    # completeness over the ADT table
    for f in fields:
        if f not in written_fields:
            res.bad(Finding("P1", fid, "field %s never accumulated" % f, "PanicResult.%s is not written on the accumulate path" % f, body.fn["sp"]))
        else:
            # every path from the flag write to the exit passes the loop (or block) that writes f
            wblocks = {w[0] for w in writes if w[3] and w[3][0] == f}
            via = set(wblocks)
            for lp in body.loops():
                if lp["body"] & wblocks:
                    via.add(lp["header"])
            w = None
            for fb in flag_blocks:
                w = w or body.must_pass(via, entry=fb) if f != "has_panicked" else None
            if w:
                res.bad(Finding("P1", fid, "field %s skipped on a path" % f, "a path from the flag update to the exit skips the update of %s" % f, body.term(w[-1])["sp"], witness=["bb%d" % x for x in w]))
            else:
                res.ok({"site": "field %s" % f, "verdict": "updated on every path after the flag update"})
    # paths that do not accumulate at all: only allowed behind a memo hit on `cond` (or cond == const false)
    w = body.must_pass(flag_blocks)
    if w:
        ok = False
        why = "a path returns without merging the condition"
        for x in w:
            info = body.term(x)
            if info and info["k"] == "switch" and info["discr"]["k"] in ("copy", "move"):
                ds = [d for d in body.defs().get(info["discr"]["place"]["l"], [])]
                for d in ds:
                    c = d[3] if d[0] == "call" else None
                    if d[0] == "assign" and d[3]["rv"]["k"] == "discriminant":
                        # discriminant of Option returned by cache.get(&cond)
                        pl = d[3]["rv"]["place"]
                        for dd in body.defs().get(pl["l"], []):
                            if dd[0] == "call":
                                c = dd[3]
                    if c is not None and mir.last_seg(mir.callee(c) or "") in ("get", "contains_key", "contains"):
                        recv = body.trace_operand(c["args"][0])
                        key = body.trace_operand(c["args"][1])
                        if any(r == SELF1 and tuple(p) == ("panic_gates", "cache") for (r, p) in recv) and any(r == ("arg", 2) for (r, _p) in key):
                            ok = True
        if ok:
            res.ok({"site": "early return", "verdict": "only behind a memo hit for `cond` in panic_gates.cache"})
            res.idioms.append("early return on a hit of cond in the memo of already-merged conditions")
        else:
            res.bad(Finding("P1", fid, "silent return", why, body.term(w[-1])["sp"], witness=["bb%d" % x for x in w]))
    # memo soundness (i): keys are inserted only after the OR
    ins = [(b, t) for b, t in body.calls() if mir.last_seg(mir.callee(t) or "") == "insert" and
           any(r == SELF1 and tuple(p) == ("panic_gates", "cache") for (r, p) in body.trace_operand(t["args"][0]))]
    for b, t in ins:
        if all(body.dominates(fb, b) for fb in flag_blocks):
            res.ok({"site": "memo insert", "verdict": "dominated by the has_panicked update"})
        else:
            res.bad(Finding("P1", fid, "memo insert before merge", "a condition is memoised before it is merged into has_panicked", t["sp"]))
    # memo soundness (ii): mux_panic keeps a key only if both branches have it
    mb = ctx.body(MUX_PANIC)
    inserts = [(b, t) for b, t in mb.calls() if mir.last_seg(mir.callee(t) or "") == "insert" and "HashMap" in (t["func"].get("declared") or "")]
    gets = []
    for b, t in mb.calls():
        if mir.last_seg(mir.callee(t) or "") in ("get", "contains_key"):
            roots = {r for (r, p) in mb.trace_operand(t["args"][0])}
            gets.append((b, t, roots))
    for b, t in inserts:
        # the insert must be control dependent on the Some edge of a lookup in *both* branch caches:
        # every path entry -> insert passes a `Some` edge for each of the two operand caches
        ok_roots = set()
        for gb, gt, roots in gets:
            if _dominated_by_edges(mb, _some_edges(mb, gt), b):
                ok_roots |= roots
        # `cache_t.get(k).and_then(|t| cache_f.get(k).map(|f| (t, f)))`: Some exactly when the receiver is Some and the closure
        # answers Some; a closure that returns (a `map` of) a lookup answers Some exactly when that lookup hits
        for ab, at in mb.calls():
            if at["func"].get("declared") != "std::option::Option::<T>::and_then" or len(at["args"]) != 2 or not _dominated_by_edges(mb, _some_edges(mb, at), b):
                continue
            for (r, pth) in mb.trace_operand(at["args"][0], through={}):
                for gb, gt, roots in gets:
                    if r[:2] == ("call", gb):
                        ok_roots |= roots
            if at["args"][1]["k"] not in ("copy", "move"):
                continue
            for (r, pth) in mb.trace(at["args"][1]["place"], through={}):
                cid = mb.blocks[r[1]]["stmts"][r[2]]["rv"].get("closure") if r[0] == "agg" else None
                if not cid or not ctx.has_fn(cid):
                    continue
                cb = ctx.body(cid)
                rets = set()
                for d in cb.defs().get(0, []):
                    if d[0] == "call":
                        rets.add(d[1])
                    elif d[0] == "assign" and d[3]["rv"]["k"] == "use" and d[3]["rv"]["op"]["k"] in ("copy", "move"):
                        rets |= {rr[1] for (rr, pp) in cb.trace(d[3]["rv"]["op"]["place"], through={}) if rr[0] == "call"}
                hits = set()
                for x in rets:
                    ct = cb.term(x)
                    if ct["func"].get("declared") == "std::option::Option::<T>::map":
                        hits |= {rr[1] for (rr, pp) in cb.trace_operand(ct["args"][0], through={}) if rr[0] == "call"}
                    else:
                        hits.add(x)
                if rets and all(mir.last_seg(mir.callee(cb.term(x)) or "") in ("get",) for x in hits) and hits:
                    for x in hits:
                        for (fid2, r2, p2) in ctx.lifted_trace(cb, cb.term(x)["args"][0]):
                            if fid2 == mb.id:
                                ok_roots.add(r2)
        # a key that is itself taken from iterating one of the operand memos is a member of that memo
        if len(t["args"]) > 1:
            for (r, pth) in mb.trace_operand(t["args"][1]):
                if r[0] == "arg" and pth and pth[0] == "cache":
                    ok_roots.add(r)
        have = {r for r in ok_roots if r[0] == "arg"}
        if {("arg", 3), ("arg", 4)} <= have:
            res.ok({"site": "mux_panic memo insert", "verdict": "only for conditions present in both branch memos"})
        else:
            res.bad(Finding("P1", MUX_PANIC, "memo union at merge",
                            "a condition checked in only one branch is kept in the merged memo: a later identical check is skipped although the other branch never made it",
                            t["sp"]))
    # who may write panic_gates
    allowed = {"circuit::CircuitBuilder::new", PUSH_PANIC_IF, REPLACE, "circuit::CircuitBuilder::remove_unused_gates"}
    n_w = 0
    for f in ctx.facts["fns"]:
        if "mir" not in f or not f["sp"][0].endswith(".rs"):
            continue
        bd = ctx.body(f["id"])
        for b, blk in enumerate(bd.blocks):
            for st in blk["stmts"]:
                if st["k"] == "assign" and any(e.get("name") == "panic_gates" for e in st["place"]["p"]):
                    n_w += 1
                    if f["id"] not in allowed:
                        res.bad(Finding("P1", f["id"], "foreign write to panic_gates", "panic_gates is written outside new / push_panic_if / replace_panic_with / remove_unused_gates", st["sp"]))
            t = blk["term"]
            if t and t["k"] == "call":
                for a in t["args"]:
                    if a["k"] in ("copy", "move") and a["place"]["ty"].startswith("&mut ") and ("CachedPanicResult" in a["place"]["ty"]) and f["id"] not in allowed | {MUX_PANIC}:
                        res.bad(Finding("P1", f["id"], "foreign &mut to panic record", "a mutable reference to the panic record escapes to %s" % mir.callee(t), t["sp"]))
    res.obligations += 1
    res.discharged += 1 if not any(x.site.startswith("foreign") for x in res.findings) else 0
    res.note("writes under panic_gates.result in push_panic_if: %d; statements writing panic_gates crate-wide: %d" % (len(writes), n_w))
    return res


def _some_edges(body, call_term):
    """CFG edges taken only when the lookup call returned `Some` / true."""
    cb = None
    for b, t in body.calls():
        if t is call_term:
            cb = b
    edges = set()
    if cb is None:
        return edges
    dest = call_term["dest"]["l"]
    for b in range(body.n):
        tt = body.term(b)
        if not tt or tt["k"] != "switch" or body.blocks[b]["cleanup"]:
            continue
        info = body.switch_info(b)
        if info and info[0] is not None and info[0][0][0] == "call" and info[0][0][1] == cb and info[0][1] == ():
            vmap = info[1]
            by_tgt = {}
            listed = set()
            for v, x in tt["targets"]:
                by_tgt.setdefault(x, set()).add(vmap.get(v))
                listed.add(v)
            for v, n in vmap.items():
                if v not in listed:
                    by_tgt.setdefault(tt["otherwise"], set()).add(n)
            for x, names in by_tgt.items():
                if names == {"Some"}:
                    edges.add((b, x))
        elif tt["discr"]["k"] in ("copy", "move") and not tt["discr"]["place"]["p"]:
            # bool result tested directly
            l = tt["discr"]["place"]["l"]
            roots = body.trace(tt["discr"]["place"], through={})
            if any(r[0] == "call" and r[1] == cb for (r, p) in roots) and body.locals[l]["ty"] == "bool":
                false_t = {x for v, x in tt["targets"] if v == 0}
                if tt["otherwise"] not in false_t:
                    edges.add((b, tt["otherwise"]))
    return edges


def local_record_adts(body):
    """Names of the enums / structs that are defined inside the function itself (the write-back record `Assign` of the assignment
    lowering, whatever it is called): ADTs whose path lies below the function's own path."""
    out = set()
    pre = body.id + "::"
    for b in range(body.n):
        for st in body.blocks[b]["stmts"]:
            if st["k"] == "assign" and st["rv"]["k"] == "aggregate" and (st["rv"].get("adt") or "").startswith(pre):
                out.add(st["rv"]["adt"])
        info = body.switch_info(b)
        if info and info[2].startswith(pre):
            out.add(info[2])
    return out


def _dominated_by_edges(body, edges, target):
    """every path entry -> target uses one of the edges."""
    if not edges:
        return False

    def succ(b):
        return [x for x in body.succs(b) if (b, x) not in edges]
    return body.path(0, [target], succ=succ) is None


# ------------------------------------------------------------------------------------------------
# P2
# ------------------------------------------------------------------------------------------------

class SigmaSpec(protocol.Spec):
    rec_type = "circuit::CachedPanicResult"
    implicit = "SIGMA"
    peek = (PEEK,)
    replace = (REPLACE,)
    mux = (MUX_PANIC,)
    mux_operands = (2, 3)

    def __init__(self, ctx):
        self.reach = ctx.cg.reach_set({PUSH_PANIC_IF, REPLACE})
        self.indirect_ok = True

    def is_mutator(self, body, t):
        names = mir.callee_names(t)
        if any(n in (PEEK, REPLACE, MUX_PANIC) for n in names):
            return None
        gets_builder = any(a["k"] in ("copy", "move") and a["place"]["ty"].startswith("&mut " + BUILDER_T) for a in t["args"])
        if not gets_builder:
            return None
        if not names:
            return "IMPLICIT"
        if any(n in self.reach for n in names):
            return "IMPLICIT"
        return None


CONSTRUCTS = [
    # name, function spec, assumptions, classifier(receiver paths) -> group, exclusive pairs
    ("If", EXPR_COMPILE, {INNER: "If"}, "if"),
    ("Match", EXPR_COMPILE, {INNER: "Match"}, "match"),
    ("ShortCircuitAnd", EXPR_COMPILE, {INNER: "Op", (SELF1, ("inner", "as Op", "0")): "ShortCircuitAnd"}, "sc"),
    ("ShortCircuitOr", EXPR_COMPILE, {INNER: "Op", (SELF1, ("inner", "as Op", "0")): "ShortCircuitOr"}, "sc"),
]


def _receiver_paths(body, t):
    if not t["args"] or t["args"][0]["k"] not in ("copy", "move"):
        return set()
    return body.trace(t["args"][0]["place"])


def _classify(kind, body, t):
    """Which conditional child (group) of the construct does mutator call t lower?  None = unconditional."""
    paths = _receiver_paths(body, t)

    def starts(prefix):
        return any(r == SELF1 and tuple(p[:len(prefix)]) == prefix for (r, p) in paths)
    if kind == "if":
        if starts(("inner", "as If", "1")):
            return "then"
        if starts(("inner", "as If", "2")):
            return "else"
        return None
    if kind == "sc":
        if starts(("inner", "as Op", "2")):
            return "rhs"
        return None
    if kind == "match":
        if starts(("inner", "as Match", "0")):
            return None
        return "clause"
    if kind == "join":
        return "joined"
    return None


def check_protocol(res, rule, ctx, name, body, succ, kind, spec, observe, what):
    it = protocol.Interp(body, spec, succ=succ, observe=observe)
    r = it.run()
    fid = body.id
    groups = {}
    for site, t in r.mutators.items():
        groups[site] = _classify(kind, body, t)
    cond_sites = {s for s, g in groups.items() if g}
    sample = {"construct": name, "function": fid, "blocks_on_pruned_paths": len(r.blocks), "configurations": r.configs,
              "mutator_sites": {("bb%d" % s): (mir.last_seg(mir.callee(t) or "?"), groups[s] or "unconditional") for s, t in r.mutators.items()},
              "merge_sites": ["bb%d" % s for s in r.mux_ops], "exits": len(r.finals)}
    if not cond_sites:
        raise AnchorMissing("%s: no conditional child of %s is lowered with the %s in reach (table out of date?)" % (rule, name, what))
    if not r.finals:
        raise AnchorMissing("%s: no exit reached for %s" % (rule, name))
    bad = False
    for (v, x) in r.finals:
        if v[0] == "U":
            res.bad(Finding(rule, fid, "%s: unknown record installed" % name, "the %s at exit has an origin the protocol analysis cannot name" % what, body.fn["sp"]))
            bad = True
            continue
        rs = protocol.reach(v, r)
        lost = [s for s in x if s not in rs]
        for s in lost:
            t = r.mutators.get(s) if not isinstance(s, tuple) else None
            if isinstance(s, tuple):
                sp = r.mux_spans.get(s[1])
                res.bad(Finding(rule, fid, "%s: merge result dropped" % name, "the merged %s computed here never becomes the current one" % what, sp))
            else:
                g = groups.get(s)
                res.bad(Finding(rule, fid, "%s: effects of %s (%s) lost" % (name, mir.last_seg(mir.callee(t) or "?"), g or "unconditional"),
                                "what this call did to the %s is not contained in the %s at exit (dropped or overwritten)" % (what, what), t["sp"]))
            bad = True
        un = protocol.uncond(v, r) or set()
        for s in sorted(s for s in x if not isinstance(s, tuple) and s in rs and s not in un and groups.get(s) is None and s in r.mutators):
            t = r.mutators[s]
            res.bad(Finding(rule, fid, "%s: unconditional %s kept on one side of the merge only" % (name, mir.last_seg(mir.callee(t) or "?")),
                            "this call is made whichever way the condition goes, but the %s at exit contains its effects only when one side of a merge is selected "
                            "(the other side was lowered from a record saved before the call)" % what, t["sp"]))
            bad = True
        for s in cond_sites & un:
            t = r.mutators[s]
            res.bad(Finding(rule, fid, "%s: %s child (%s) is unconditional" % (name, groups[s], mir.last_seg(mir.callee(t) or "?")),
                            "the %s at exit contains the effects of the %s child whichever way the condition goes (untaken code is not silent)" % (what, groups[s]), t["sp"]))
            bad = True
    # every record that takes part in a merge descends from the record this piece of code was entered with: a record
    # captured elsewhere (an upvar of a closure, another argument) is stale - whatever was raised since it was taken is
    # dropped when that side of the merge is selected
    def foreign(v, seen=None):
        seen = seen or set()
        base = v[0]
        if isinstance(base, tuple) and base and base[0] == "E":
            return base[1]
        if isinstance(base, tuple) and base and base[0] == "M" and base not in seen:
            seen.add(base)
            for (va, vb) in r.mux_ops.get(base[1], ()):
                for x_ in (va, vb):
                    fo = foreign(x_, seen)
                    if fo is not None:
                        return fo
        return None
    for site, pairs in r.mux_ops.items():
        for (va, vb) in pairs:
            for v in (va, vb):
                fo = foreign(v)
                if fo is not None:
                    res.bad(Finding(rule, fid, "%s: merge operand is a %s captured outside this code" % (name, what),
                                    "one operand of the merge does not descend from the %s this code was entered with (it comes from %s): everything recorded between taking that copy and this merge "
                                    "is dropped when this side is selected" % (what, fo,), r.mux_spans[site]))
                    bad = True
    # exclusivity of then / else
    if kind == "if":
        for site, pairs in r.mux_ops.items():
            for (va, vb) in pairs:
                for v in (va, vb):
                    gs = {groups.get(s) for s in protocol.reach(v, r) if not isinstance(s, tuple)} - {None}
                    if {"then", "else"} <= gs:
                        res.bad(Finding(rule, fid, "%s: both branches in one merge operand" % name,
                                        "one operand of the merge carries the effects of both the then and the else branch", r.mux_spans[site]))
                        bad = True
    # loop freshness / private copies: a conditional child never starts from a record that already has its own effects
    for site in (cond_sites if kind == "match" else ()):
        for (loc, v) in r.at_mutator[site]:
            if site in protocol.reach(v, r):
                t = r.mutators[site]
                res.bad(Finding(rule, fid, "%s: iteration starts from previous iteration's record" % name,
                                "the %s child is lowered on a %s that still carries the effects of the previous iteration" % (groups[site], what), t["sp"]))
                bad = True
    for (bb, why) in r.unknown:
        res.bad(Finding(rule, fid, "%s: unrecognised record operation" % name, why, body.term(bb)["sp"]))
        bad = True
    if not bad:
        res.ok(sample)
    else:
        res.samples.append(dict(sample, verdict="violations"))
    return r


def rule_p2(ctx):
    res = RuleResult("P2", "panic record protocol around conditional code: nothing lost, untaken code silent")
    spec = SigmaSpec(ctx)
    f = fn_of(ctx, EXPR_COMPILE)
    body = ctx.body(f["id"])
    for name, fspec, assume, kind in CONSTRUCTS:
        succ = body.pruned_succ(assume)
        check_protocol(res, "P2", ctx, name, body, succ, kind, spec, "SIGMA", "panic record")
    # JoinLoop: the closure that calls mux_panic inside TypedStmt::compile
    sf = fn_of(ctx, STMT_COMPILE)
    cls = [c for c in ctx.cg.closures_of.get(sf["id"], ()) if any(mir.callee(t) == MUX_PANIC or mir.callee(t) == REPLACE for _, t in ctx.body(c).calls())]
    # which closures lower conditionally joined bodies: the ones handed to compile_bitonic_merge in the JoinLoop arm
    jl = _joinloop_closures(ctx, sf)
    if not jl:
        raise AnchorMissing("P2: the JoinLoop arm passes no closure to compile_bitonic_merge")
    for c in jl:
        cb = ctx.body(c)
        check_protocol(res, "P2", ctx, "JoinLoop", cb, None, "join", spec, "SIGMA", "panic record")
    # all other functions that touch the record must be known
    touch = set()
    for fn in ctx.facts["fns"]:
        if "mir" not in fn:
            continue
        for _, t in ctx.body(fn["id"]).calls():
            if mir.callee(t) in (REPLACE, MUX_PANIC):
                touch.add(fn["id"])
    known = {f["id"]} | set(jl)
    extra = sorted(touch - known)
    if extra and not res.findings:
        # a function outside the table takes part in the protocol (new construct, or protocol steps moved into a helper):
        # the rule cannot decide such code - fail closed without a verdict rather than guess
        raise AnchorMissing("P2: %s replaces / merges the panic record but is not one of the constructs this rule analyses" % extra)
    res.note("constructs analysed: If, Match, ShortCircuitAnd, ShortCircuitOr, JoinLoop closure(s) %s" % jl)
    return res


def _joinloop_closures(ctx, sf):
    body = ctx.body(sf["id"])
    succ = body.pruned_succ({INNER: "JoinLoop"})
    blocks = body.reachable([0], succ=succ)
    out = []
    for b in sorted(blocks):
        for st in body.blocks[b]["stmts"]:
            if st["k"] == "assign" and st["rv"]["k"] == "aggregate" and st["rv"].get("akind") == "closure":
                out.append(st["rv"]["closure"])
    return out


# ------------------------------------------------------------------------------------------------
# P3 / P4
# ------------------------------------------------------------------------------------------------

OP0 = (SELF1, ("inner", "as Op", "0"))
RAISE_TABLE = [
    # label, function, assumptions, required reason
    ("Op::Add", EXPR_COMPILE, {INNER: "Op", OP0: "Add"}, "Overflow"),
    ("Op::Sub", EXPR_COMPILE, {INNER: "Op", OP0: "Sub"}, "Overflow"),
    ("Op::Mul", EXPR_COMPILE, {INNER: "Op", OP0: "Mul"}, "Overflow"),
    ("Op::ShiftLeft", EXPR_COMPILE, {INNER: "Op", OP0: "ShiftLeft"}, "Overflow"),
    ("Op::ShiftRight", EXPR_COMPILE, {INNER: "Op", OP0: "ShiftRight"}, "Overflow"),
    ("Op::Div", EXPR_COMPILE, {INNER: "Op", OP0: "Div"}, "DivByZero"),
    ("Op::Mod", EXPR_COMPILE, {INNER: "Op", OP0: "Mod"}, "DivByZero"),
    ("ExprEnum::ArrayAccess", EXPR_COMPILE, {INNER: "ArrayAccess"}, "OutOfBounds"),
]
SILENT_TABLE = [
    ("Op::BitAnd", {INNER: "Op", OP0: "BitAnd"}), ("Op::BitXor", {INNER: "Op", OP0: "BitXor"}),
    ("Op::BitOr", {INNER: "Op", OP0: "BitOr"}), ("Op::Eq", {INNER: "Op", OP0: "Eq"}),
    ("Op::NotEq", {INNER: "Op", OP0: "NotEq"}), ("Op::GreaterThan", {INNER: "Op", OP0: "GreaterThan"}),
    ("Op::LessThan", {INNER: "Op", OP0: "LessThan"}), ("ExprEnum::Cast", {INNER: "Cast"}),
    ("UnaryOp::Not", {INNER: "UnaryOp", (SELF1, ("inner", "as UnaryOp", "0")): "Not"}),
    ("ExprEnum::True", {INNER: "True"}), ("ExprEnum::False", {INNER: "False"}),
    ("ExprEnum::NumUnsigned", {INNER: "NumUnsigned"}), ("ExprEnum::NumSigned", {INNER: "NumSigned"}),
    ("ExprEnum::Identifier", {INNER: "Identifier"}), ("ExprEnum::ArrayLiteral", {INNER: "ArrayLiteral"}),
    ("ExprEnum::ArrayRepeatLiteral", {INNER: "ArrayRepeatLiteral"}),
    ("ExprEnum::ArrayRepeatLiteralConst", {INNER: "ArrayRepeatLiteralConst"}),
    ("ExprEnum::TupleLiteral", {INNER: "TupleLiteral"}), ("ExprEnum::TupleAccess", {INNER: "TupleAccess"}),
    ("ExprEnum::StructLiteral", {INNER: "StructLiteral"}), ("ExprEnum::StructAccess", {INNER: "StructAccess"}),
    ("ExprEnum::EnumLiteral", {INNER: "EnumLiteral"}), ("ExprEnum::Range", {INNER: "Range"}),
    ("ExprEnum::Block", {INNER: "Block"}), ("ExprEnum::FnCall", {INNER: "FnCall"}),
    ("ExprEnum::If", {INNER: "If"}), ("ExprEnum::Match", {INNER: "Match"}),
    ("Op::ShortCircuitAnd", {INNER: "Op", OP0: "ShortCircuitAnd"}), ("Op::ShortCircuitOr", {INNER: "Op", OP0: "ShortCircuitOr"}),
]


def _reason_of(body, t):
    """PanicReason variant passed as 2nd operand of a push_panic_if call (self, cond, reason, meta)."""
    op = t["args"][2]
    if op["k"] not in ("copy", "move"):
        return None
    out = set()
    for (r, p) in body.trace(op["place"]):
        if r[0] == "agg":
            st = body.blocks[r[1]]["stmts"][r[2]]
            if st["rv"].get("adt") == "circuit::PanicReason":
                out.add(st["rv"]["variant"])
            else:
                out.add("?")
        else:
            out.add("?")
    return out


def _is_compile_call(ctx, t):
    c = mir.callee(t) or ""
    seg = mir.last_seg(c)
    return (seg == "compile" or seg.startswith("compile_")) and c.startswith("compile::<impl ast::")


def _returned_as_is(ctx, body, l):
    """The local holds nothing but results of the expression lowering and is what the function returns (`let r = rewritten.compile(..); ..; return r`)."""
    ds = body.defs().get(l, [])
    if not ds or not all(d[0] == "call" and _is_compile_call(ctx, d[3]) for d in ds):
        return False
    for d in body.defs().get(0, []):
        if d[0] == "assign" and d[3]["rv"]["k"] == "use" and d[3]["rv"]["op"]["k"] in ("copy", "move") and \
                d[3]["rv"]["op"]["place"]["l"] == l and not d[3]["rv"]["op"]["place"]["p"]:
            return True
    return False


def rule_p3(ctx):
    res = RuleResult("P3", "every failing operation raises with the right reason on every path; silent arms raise nothing")
    f = fn_of(ctx, EXPR_COMPILE)
    body = ctx.body(f["id"])
    fid = f["id"]
    panic_reach = ctx.cg.reach_set({PUSH_PANIC_IF})
    for label, _fs, assume, reason in RAISE_TABLE:
        succ = body.pruned_succ(assume)
        region = body.reachable([0], succ=succ)
        raises = set()
        wrong = []
        deleg = set()
        for b in region:
            t = body.term(b)
            if not t or t["k"] != "call":
                continue
            if mir.callee(t) == PUSH_PANIC_IF:
                rs = _reason_of(body, t)
                if rs == {reason}:
                    raises.add(b)
                elif label == "Op::Div" and rs == {"Overflow"}:
                    pass  # signed MIN / -1 (C03-A1)
                else:
                    wrong.append((b, t, rs))
            elif _is_compile_call(ctx, t) and not t["dest"]["p"] and (t["dest"]["l"] == 0 or _returned_as_is(ctx, body, t["dest"]["l"])):
                # tail delegation: `return rewritten.compile(..)` - the rewritten node raises in its own arm
                # (for a constant factor 1 the rewritten node is the other operand itself: x * 1 cannot overflow)
                deleg.add(b)
        if len(region) < 5:
            raise AnchorMissing("P3: no path for %s (variant renamed?)" % label)
        w = body.must_pass(raises | deleg, succ=succ)
        site = "%s must raise %s" % (label, reason)
        if w:
            res.bad(Finding("P3", fid, site, "a path through the %s arm reaches the exit without push_panic_if(_, PanicReason::%s, _)" % (label, reason),
                            body.term(w[-1])["sp"], witness=["bb%d" % x for x in w[-12:]]))
        else:
            res.ok({"arm": label, "reason": reason, "raise_sites": ["bb%d" % b for b in sorted(raises)], "tail_delegations": len(deleg), "blocks": len(region)})
        for (b, t, rs) in wrong:
            res.bad(Finding("P3", fid, "%s raises %s" % (label, "/".join(sorted(rs or {"?"}))),
                            "the %s arm raises PanicReason::%s, expected only %s" % (label, "/".join(sorted(rs or {"?"})), reason), t["sp"]))
    for label, assume in SILENT_TABLE:
        succ = body.pruned_succ(assume)
        region = body.reachable([0], succ=succ)
        if len(region) < 3:
            raise AnchorMissing("P3: no path for %s (variant renamed?)" % label)
        bad = False
        for b in sorted(region):
            t = body.term(b)
            if not t or t["k"] != "call":
                continue
            names = mir.callee_names(t)
            if _is_compile_call(ctx, t) or mir.callee(t) == "compile::compile_block" or mir.callee(t) == "compile::compile_bitonic_merge":
                continue  # children raise in their own arms
            if any(n in panic_reach for n in names):
                res.bad(Finding("P3", fid, "%s must be silent" % label, "the %s arm can raise a panic through %s although the operation cannot fail" % (label, mir.callee(t)), t["sp"]))
                bad = True
        if not bad:
            res.ok({"arm": label, "verdict": "no raise except through children", "blocks": len(region)})
    # statement level: VarAssign with an array accessor raises OutOfBounds in the read phase and in the write-back phase
    sf = fn_of(ctx, STMT_COMPILE)
    sb = ctx.body(sf["id"])
    succ = sb.pruned_succ({INNER: "VarAssign"})
    region = sb.reachable([0], succ=succ)
    oob = [b for b in region if sb.term(b)["k"] == "call" and mir.callee(sb.term(b)) == PUSH_PANIC_IF and _reason_of(sb, sb.term(b)) == {"OutOfBounds"}]
    other = [b for b in region if sb.term(b)["k"] == "call" and mir.callee(sb.term(b)) == PUSH_PANIC_IF and _reason_of(sb, sb.term(b)) != {"OutOfBounds"}]
    # read phase: inside the accessor loop under Accessor::ArrayAccess; write phase: inside the write-back loop under Assign::Array
    acc_sw = [b for b in region if (sb.switch_info(b) or (None, None, ""))[2] == "ast::Accessor"]
    local_adts = local_record_adts(sb)
    asg_sw = [b for b in region if (sb.switch_info(b) or (None, None, ""))[2] in local_adts]
    # the read phase is the loop over the accessors that records what was read (Assign::*); a loop that only evaluates the
    # index expressions beforehand reads nothing
    def records(sw):
        lps = [l for l in sb.loops() if sw in l["body"]]
        if not lps:
            return True
        lp = min(lps, key=lambda l: len(l["body"]))
        return any(st["k"] == "assign" and st["rv"]["k"] == "aggregate" and (st["rv"].get("adt") or "") in local_adts
                   for x in lp["body"] for st in sb.blocks[x]["stmts"])
    acc_sw = [b for b in acc_sw if records(b)]
    if not acc_sw or not asg_sw:
        raise AnchorMissing("P3: VarAssign arm has no switch over Accessor / Assign (%d/%d)" % (len(acc_sw), len(asg_sw)))
    for phase, sws, variant in (("read phase", acc_sw, "ArrayAccess"), ("write-back phase", asg_sw, "Array")):
        for sw in sws:
            info = sb.switch_info(sw)
            t = sb.term(sw)
            tgt = [x for v, x in t["targets"] if info[1].get(v) == variant]
            if not tgt:
                tgt = [t["otherwise"]]
            lp = [l for l in sb.loops() if sw in l["body"]]
            hdr = min(lp, key=lambda l: len(l["body"]))["header"] if lp else None
            exits = [hdr] if hdr is not None else sb.returns()
            w = sb.path(tgt[0], exits, blocked=set(oob), succ=succ)
            site = "VarAssign %s must raise OutOfBounds" % phase
            if w:
                res.bad(Finding("P3", sf["id"], site, "an array accessor is lowered without an OutOfBounds raise in the %s" % phase, sb.term(w[-1])["sp"], witness=["bb%d" % x for x in w[-10:]]))
            else:
                res.ok({"arm": "StmtEnum::VarAssign / %s" % phase, "reason": "OutOfBounds"})
    for b in other:
        res.bad(Finding("P3", sf["id"], "VarAssign raises other reason", "VarAssign raises a reason other than OutOfBounds", sb.term(b)["sp"]))
    # the other statement arms are silent except through children
    for variant in ("Let", "LetMut", "Expr", "ForEachLoop", "JoinLoop"):
        succ = sb.pruned_succ({INNER: variant})
        region = sb.reachable([0], succ=succ)
        bad = False
        for b in sorted(region):
            t = sb.term(b)
            if t and t["k"] == "call" and mir.callee(t) == PUSH_PANIC_IF:
                res.bad(Finding("P3", sf["id"], "StmtEnum::%s must be silent" % variant, "statement arm raises a panic itself", t["sp"]))
                bad = True
        if not bad:
            res.ok({"arm": "StmtEnum::" + variant, "verdict": "no direct raise"})
    return res


def rule_p4(ctx):
    res = RuleResult("P4", "the location operand of every raise is the lowered node's own meta")
    n = 0
    for f in ctx.facts["fns"]:
        if "mir" not in f or not f["sp"][0].endswith("compile.rs"):
            continue
        body = ctx.body(f["id"])
        for b, t in body.calls():
            if mir.callee(t) != PUSH_PANIC_IF:
                continue
            n += 1
            tr = body.trace_operand(t["args"][3])
            ok = bool(tr) and all(r == SELF1 and tuple(p) == ("meta",) for (r, p) in tr)
            site = "raise %s" % "/".join(sorted(_reason_of(body, t) or {"?"}))
            if ok:
                res.ok({"function": f["id"], "site": site, "location": "self.meta"})
            else:
                res.bad(Finding("P4", f["id"], site + " location", "the reported location is not self.meta of the node being lowered (origin: %s)" %
                                sorted("%s%s" % (r[0], "".join("." + x for x in p)) for r, p in tr), t["sp"]))
    if (n < 1) and not res.findings:
        raise AnchorMissing("P4: no push_panic_if call site in compile.rs")
    res.note("raise sites in compile.rs: %d" % n)
    return res


# ------------------------------------------------------------------------------------------------
# P5 / P6
# ------------------------------------------------------------------------------------------------

def _field_order(body, pred, fields):
    """Order in which record fields are first touched by statements / call operands matching pred, in RPO."""
    order = []
    for b in body.rpo():
        blk = body.blocks[b]
        if blk["cleanup"]:
            continue
        items = [("s", st) for st in blk["stmts"] if st["k"] == "assign"]
        if blk["term"] and blk["term"]["k"] == "call":
            items.append(("t", blk["term"]))
        for kind, it in items:
            f = pred(kind, it)
            if f and f in fields and f not in order:
                order.append(f)
    return order


def rule_p5(ctx):
    res = RuleResult("P5", "all six record fields are merged, kept alive, renumbered and emitted in declaration order; decoder agrees")
    fields = record_fields(ctx)
    # (ii) mux_uncached_panic muxes every field of t with the same field of f
    mb = ctx.body(MUX_UNCACHED)
    muxed = {}

    def elementwise_mux(fid):
        """A helper (builder, condition, a, b) all of whose push_mux calls select between an element of a and an element of b by
        the condition it was given: calling it on t.F and f.F is the merge of the field F."""
        if not fid or not ctx.has_fn(fid) or fid in (PUSH_MUX, MUX_UNCACHED):
            return False
        hb = ctx.body(fid)
        if hb.arg_count != 4:
            return False
        calls = [t for _, t in hb.calls() if mir.callee(t) == PUSH_MUX]
        return bool(calls) and all({r for (r, p) in hb.trace_operand(t["args"][1])} == {("arg", 2)} and
                                   {r for (r, p) in hb.trace_operand(t["args"][2])} == {("arg", 3)} and
                                   {r for (r, p) in hb.trace_operand(t["args"][3])} == {("arg", 4)} for t in calls)
    for b, t in mb.calls():
        if mir.callee(t) != PUSH_MUX and not (len(t["args"]) == 4 and elementwise_mux(mir.callee(t))):
            continue
        fa = {p[0] for (r, p) in mb.trace_operand(t["args"][2]) if r == ("arg", 3) and p}
        fb = {p[0] for (r, p) in mb.trace_operand(t["args"][3]) if r == ("arg", 4) and p}
        sel = {r for (r, p) in mb.trace_operand(t["args"][1])}
        for x in fa | fb:
            muxed.setdefault(x, []).append((fa, fb, sel, b, t))
    for f in fields:
        ms = muxed.get(f, [])
        good = [m for m in ms if m[0] == {f} and m[1] == {f} and m[2] == {("arg", 2)}]
        if not good:
            res.bad(Finding("P5", MUX_UNCACHED, "merge of %s" % f, "field %s is not merged as push_mux(condition, t.%s, f.%s)" % (f, f, f), mb.fn["sp"]))
            continue
        # the muxed value must be stored into the same field of the result
        b, t = good[0][3], good[0][4]
        dest = t["dest"]["l"]
        stored = False
        for blk in mb.blocks:
            for st in blk["stmts"]:
                if st["k"] == "assign" and st["rv"]["k"] == "use" and st["rv"]["op"].get("place", {}).get("l") == dest and st["place"]["p"]:
                    if mir.proj_names(st["place"]["p"])[0] == f:
                        stored = True
                # or the record is built in one piece: PanicResult { f: <merged>, .. } (operands in declaration order)
                if st["k"] == "assign" and st["rv"]["k"] == "aggregate" and (st["rv"].get("adt") or "").endswith("PanicResult") and len(st["rv"]["ops"]) == len(fields):
                    o = st["rv"]["ops"][fields.index(f)]
                    if o["k"] in ("copy", "move") and any(r[:2] == ("call", b) for (r, p) in mb.trace_operand(o, through={})):
                        stored = True
        via = {m[3] for m in good}
        for lp in mb.loops():
            if lp["body"] & via:
                via.add(lp["header"])
        w = mb.must_pass(via)
        if w:
            res.bad(Finding("P5", MUX_UNCACHED, "merge of %s skipped on a path" % f,
                            "a path through mux_uncached_panic returns without selecting %s by the condition" % f,
                            mb.term(w[-1])["sp"], witness=["bb%d" % x for x in w]))
        elif stored:
            res.ok({"function": MUX_UNCACHED, "field": f, "verdict": "result.%s := push_mux(c, t.%s, f.%s) on every path" % (f, f, f)})
        else:
            res.bad(Finding("P5", MUX_UNCACHED, "store of merged %s" % f, "the merged %s is not stored in result.%s" % (f, f), t["sp"]))
    # (iii) remove_unused_gates: every field is a liveness root and is renumbered
    rb = ctx.body("circuit::CircuitBuilder::remove_unused_gates")

    def field_read(kind, it):
        places = []
        if kind == "s":
            rv = it["rv"]
            for k in ("place",):
                if k in rv:
                    places.append(rv[k])
            for k in ("op", "l", "r", "x"):
                if isinstance(rv.get(k), dict) and "place" in rv[k]:
                    places.append(rv[k]["place"])
        else:
            places = [a["place"] for a in it["args"] if "place" in a]
        for pl in places:
            names = mir.proj_names(pl["p"])
            if len(names) >= 3 and names[0] == "panic_gates" and names[1] == "result":
                return names[2]
        return None
    roots = set()
    renum = set()
    # the mark stack is the vector that is popped in the marking loop
    stacks = set()
    for b, t in rb.calls():
        if mir.last_seg(mir.callee(t) or "") == "pop" and t["args"]:
            for (r, p) in rb.trace_operand(t["args"][0], through=protocol.DEREF_ONLY):
                if r[0] == "local" or r[0] == "call":
                    stacks.add(r)
    if not stacks:
        raise AnchorMissing("P5: remove_unused_gates has no mark stack (no Vec::pop)")
    for b, t in rb.calls():
        if mir.last_seg(mir.callee(t) or "") in ("push", "extend") and t["args"]:
            recv = {r for (r, p) in rb.trace_operand(t["args"][0], through=protocol.DEREF_ONLY)}
            if recv & stacks:
                for a in t["args"][1:]:
                    for (r, p) in rb.deep_sources(a, depth=3):
                        if r == SELF1 and tuple(p[:2]) == ("panic_gates", "result") and len(p) > 2:
                            roots.add(p[2])
    for b, blk in enumerate(rb.blocks):
        if blk["cleanup"]:
            continue
        for st in blk["stmts"]:
            if st["k"] != "assign":
                continue
            names = mir.proj_names(st["place"]["p"])
            if len(names) >= 3 and names[:2] == ("panic_gates", "result"):
                renum.add(names[2])
            elif st["place"]["p"] and st["place"]["l"] != 1:
                # the write goes through a reborrow: `let panic = &mut self.panic_gates.result; panic.has_panicked = ..`
                for (r, p) in rb.trace(st["place"], through=protocol.DEREF_ONLY):
                    if r == SELF1 and tuple(p[:2]) == ("panic_gates", "result") and len(p) > 2:
                        renum.add(p[2])
    # writes through iter_mut(): `*w = shift(*w)` where w comes from an iterator over the field
    for b, t in rb.calls():
        if mir.last_seg(mir.callee(t) or "") == "iter_mut":
            for (r, p) in rb.trace_operand(t["args"][0]):
                if r == SELF1 and tuple(p[:2]) == ("panic_gates", "result") and len(p) > 2:
                    renum.add(p[2])
    for f in fields:
        if f in roots:
            res.ok({"function": "remove_unused_gates", "field": f, "verdict": "liveness root"})
        else:
            res.bad(Finding("P5", rb.id, "liveness root %s" % f, "PanicResult.%s is not pushed as a liveness root: gates only it depends on are swept" % f, rb.fn["sp"]))
        if f in renum:
            res.ok({"function": "remove_unused_gates", "field": f, "verdict": "renumbered"})
        else:
            res.bad(Finding("P5", rb.id, "renumbering of %s" % f, "PanicResult.%s is not renumbered after the sweep" % f, rb.fn["sp"]))
    # (iv) build: emitted in declaration order before the user outputs
    bb_ = ctx.body("circuit::CircuitBuilder::build")
    emit = []
    user_out_pos = None
    for b in bb_.rpo():
        blk = bb_.blocks[b]
        t = blk["term"]
        if blk["cleanup"] or not t or t["k"] != "call":
            continue
        seg = mir.last_seg(mir.callee(t) or "")
        if seg in ("push", "extend") and t["args"] and "Vec<usize>" in t["args"][0]["place"]["ty"]:
            # which record field feeds this push / extend?
            srcs = []
            for a in t["args"][1:]:
                for (r, p) in bb_.deep_sources(a, depth=4):
                    if r == SELF1 and tuple(p[:2]) == ("panic_gates", "result") and len(p) > 2:
                        if p[2] not in srcs:
                            srcs.append(p[2])
                    if r[0] == "call" and mir.last_seg(r[2] or "") == "remove_unused_gates":
                        if "<user outputs>" not in srcs:
                            srcs.append("<user outputs>")
            if len(srcs) > 1:
                res.bad(Finding("P5", bb_.id, "one output group from several fields", "an output group is computed from %s" % srcs, t["sp"]))
            for x in srcs:
                if x not in emit:
                    emit.append(x)
    want = fields + ["<user outputs>"]
    if emit == want:
        res.ok({"function": "build", "verdict": "outputs = " + ", ".join(emit)})
    else:
        res.bad(Finding("P5", bb_.id, "output order", "build emits %s, expected %s" % (emit, want), bb_.fn["sp"]))
    # decoder: EvalPanic::parse slices the same six groups in the same order (bounds folded from HIR)
    pf = ctx.fn("circuit::EvalPanic::parse")
    consts = _const_env(ctx)
    groups = []
    for n in hir.walk(pf["hir"]):
        if n["k"] == "LetStmt" or n["k"] != "Index":
            continue
        idx = n["i"]
        name = None
        if idx["k"] == "Struct" and "Range" in idx.get("ty", ""):
            lo = hi = None
            for fl in idx["fields"]:
                v = _fold(fl["e"], consts)
                if fl["name"] == "start":
                    lo = v
                if fl["name"] == "end":
                    hi = v
            groups.append((lo, hi, n["sp"]))
        elif idx["k"] == "Lit":
            groups.append((_fold(idx, consts), None, n["sp"]))
    # pair every slice with the local it is bound to
    bound = {}
    for n in hir.walk(pf["hir"]):
        pass
    lets = [st for st in pf["hir"]["stmts"] if st.get("k") == "LetStmt"]
    decoded = []
    for st in lets:
        nm = st["pat"].get("name")
        for n in hir.walk(st["init"]):
            if n["k"] == "Index":
                idx = n["i"]
                if idx["k"] == "Lit":
                    decoded.append((nm, _fold(idx, consts), _fold(idx, consts) + 1))
                elif idx["k"] == "Struct":
                    lo = hi = None
                    for fl in idx["fields"]:
                        if fl["name"] == "start":
                            lo = _fold(fl["e"], consts)
                        if fl["name"] == "end":
                            hi = _fold(fl["e"], consts)
                    decoded.append((nm, lo, hi))
                break
    U = consts.get("circuit::USIZE_BITS")
    if U is None:
        raise AnchorMissing("P5: circuit::USIZE_BITS is not a foldable constant")
    exp = [("has_panicked", 0, 1)] + [(f, 1 + i * U, 1 + (i + 1) * U) for i, f in enumerate(fields[1:])]
    got = [d for d in decoded if d[0] in fields]
    if got == exp:
        res.ok({"function": "EvalPanic::parse", "verdict": "slices " + ", ".join("%s=[%d..%d)" % d for d in got)})
    else:
        res.bad(Finding("P5", pf["id"], "decoder layout", "EvalPanic::parse reads %s, the builder emits %s" % (got, exp), pf["sp"]))
    # payload starts after the record
    tail = None
    for n in hir.walk(pf["hir"]):
        if n["k"] == "Index" and n["i"]["k"] == "Struct" and "RangeFrom" in n["i"].get("ty", ""):
            for fl in n["i"]["fields"]:
                if fl["name"] == "start":
                    tail = _fold(fl["e"], consts)
    psz = consts.get("circuit::PANIC_RESULT_SIZE_IN_BITS")
    if tail == 1 + 5 * U and psz == tail:
        res.ok({"function": "EvalPanic::parse", "verdict": "payload = bits[%d..], PANIC_RESULT_SIZE_IN_BITS = %d" % (tail, psz)})
    else:
        res.bad(Finding("P5", pf["id"], "payload offset", "payload starts at %r, record size constant is %r, expected %d" % (tail, psz, 1 + 5 * U), pf["sp"]))
    return res


def _const_env(ctx):
    """Fold the crate's integer consts that are literals / arithmetic over other consts."""
    env = {}
    pending = {f["id"]: f for f in ctx.facts["fns"] if f["kind"] == "const" and "hir" in f}
    for _ in range(4):
        for k, f in list(pending.items()):
            v = _fold(f["hir"], env)
            if v is not None:
                env[k] = v
                del pending[k]
    return env


def _fold(n, env):
    k = n.get("k")
    if k == "Lit":
        v = n["val"]
        import re
        m = re.match(r"Int\(Pu128\((\d+)\)", v)
        if m:
            return int(m.group(1))
        return None
    if k == "Path":
        r = n["res"]
        if r.get("kind") == "def":
            return env.get(r["path"])
        return None
    if k == "Binary":
        l = _fold(n["l"], env)
        r = _fold(n["r"], env)
        if l is None or r is None:
            return None
        return {"Add": l + r, "Sub": l - r, "Mul": l * r}.get(n["op"])
    if k == "Cast":
        return _fold(n["x"], env)
    if k == "Block" and not n["stmts"] and n.get("expr"):
        return _fold(n["expr"], env)
    return None


def rule_p6(ctx):
    res = RuleResult("P6", "every decoder parses the panic record before touching payload bits")
    PARSE = "circuit::EvalPanic::parse"
    users = []
    for f in ctx.facts["fns"]:
        if "mir" not in f:
            continue
        body = ctx.body(f["id"])
        if any(mir.callee(t) == PARSE for _, t in body.calls()):
            users.append(f["id"])
    # decoders: from_result_bits and everything reading EvalOutput.output
    decoders = []
    for f in ctx.facts["fns"]:
        if "mir" not in f:
            continue
        ins = f.get("inputs") or []
        if mir.last_seg(f["id"]) == "from_result_bits":
            decoders.append(f["id"])
        elif ins and "eval::EvalOutput" in ins[0] and f["kind"] in ("fn", "assoc_fn") and not f.get("from_expansion"):
            decoders.append(f["id"])
    if len(decoders) < 5:
        raise AnchorMissing("P6: expected the output decoders (from_result_bits, EvalOutput::into_*, TryFrom<EvalOutput>), found %r" % decoders)
    reach_parse = ctx.cg.reach_set({PARSE})
    for d in sorted(decoders):
        body = ctx.body(d)
        # blocks that touch the raw bits: reads of the `output` field of EvalOutput, or the bits parameter
        parse_blocks = {b for b, t in body.calls() if any(n in reach_parse for n in mir.callee_names(t))}
        touches = []
        for b, blk in enumerate(body.blocks):
            if blk["cleanup"]:
                continue
            for st in blk["stmts"]:
                if st["k"] == "assign":
                    for key in ("place",):
                        opx = st["rv"].get("op")
                        pl = st["rv"].get(key) or (opx.get("place") if isinstance(opx, dict) else None)
                        if pl and "output" in mir.proj_names(pl["p"]):
                            touches.append(b)
        if not parse_blocks:
            res.bad(Finding("P6", d, "no panic parse", "decoder never reaches EvalPanic::parse", body.fn["sp"]))
            continue
        # every path to a return passes a call that reaches EvalPanic::parse
        w = body.must_pass(parse_blocks)
        if w:
            res.bad(Finding("P6", d, "path skips panic parse", "a path returns a decoded value without parsing the panic record", body.term(w[-1])["sp"], witness=["bb%d" % x for x in w]))
        else:
            res.ok({"decoder": d, "verdict": "EvalPanic::parse on every path"})
    return res


def rule_p7(ctx):
    """Cross-reference: an operand that is evaluated twice can report a failure the source-level execution never reaches
    (`(if p { m = m + 1i8; m } else { m }) <= 0i8` with m = 126): C14-E11 (parser sugar) and C14-E12 (lowering)."""
    from . import C14
    res = RuleResult("P7", "every operand is evaluated once, so no failing operation is reached more often than in the source (cross-reference to C14-E11 / E12)")
    for sub in (C14.rule_e11(ctx), C14.rule_e12(ctx)):
        for x in sub.findings:
            res.bad(Finding("P7", x.fn, x.site, x.message, x.span))
        if not sub.findings:
            res.ok({"verdict": "C14-%s holds" % sub.rule})
    return res


def rule_p8(ctx):
    """Cross-reference: a failing operation is only recorded if the code that contains it is lowered: every operand and every callee
    body must be lowered on every path through the node's arm (C14-E16), else a panic the source reaches is dropped."""
    from . import C14
    res = RuleResult("P8", "every operand and every callee body is lowered on every path, so no reachable failing operation goes unrecorded (cross-reference to C14-E16)")
    sub = C14.rule_e16(ctx)
    for x in sub.findings:
        res.bad(Finding("P8", x.fn, x.site, x.message, x.span))
    if not sub.findings:
        res.ok({"verdict": "C14-E16 holds"})
    return res


def run(ctx):
    return ctx.run_rules([rule_p1, rule_p2, rule_p3, rule_p4, rule_p5, rule_p6, rule_p7, rule_p8])
