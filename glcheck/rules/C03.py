"""C03 - integer operators and casts (structural slice only).

A1  every operator whose exact result can leave the type raises Overflow (incl. unary minus and signed division)
A2  casts are silent and width-driven; extension fills exactly the gap it opened and uses the source type's signedness
A3  each operator is lowered by its own arithmetic circuit; rewrites into other operators only where listed / guarded
A6  shape of the ripple-carry adder (LSB first, x[i] / y[i] of one position, carry rippled, (sum, last carry, carry into the last
    position) returned) and of the Add arm's overflow bit (unsigned: last carry; signed: xor of the last two carries)
A5  a negative literal factor must negate the operand before summing: -(x + .. + x) panics for products equal to the minimum value
A4  the constant-multiplication rewrite splits the literal into magnitude and sign: every rewritten result is returned on one
    edge of a test of that sign (a fast path that looks at the magnitude only drops the sign)
A8  the overflow term of signed multiplication (computed on magnitudes) depends on the sign of the product
A9  cross-reference: untyped constant sub-expressions are re-typed together with their top node (C05-S13)
A10 the scanner bound of every suffixed number literal equals max() of its number type (token.rs): two tables that must agree
A11 every per-type table of constants over the unsigned number types gives usize what it gives u32 (usize has 32 bits)
A13 a conjunction over an operand's wires that starts at the second wire (`.iter().skip(1)`) also takes the first wire
A12 constrain_type recurses into the operands of unary / arithmetic / bitwise / shift operators (rows moved here from C05-S2)
A7  cross-reference: the peephole rewrites through which every operator network is built keep the function (C04 O4 / O5 / O7 / O9 / O10)
"""
from .. import mir
from ..core import AnchorMissing, Finding, RuleResult
from . import C02

PROPERTY = "C03"
TECHNIQUE = "variant-pruned must-pass-through tables and operand-origin consistency checks on the MIR of the lowering arms"
LEVEL_TEXT = (
    "Bit-exactness of adders, multipliers, dividers, shifters and comparators over all operand values is arithmetic (enumeration or "
    "solver work, other families) and is NOT decided. Decided, as necessary structural conditions: (A1) every operator whose exact "
    "result can be unrepresentable raises PanicReason::Overflow on every path through its arm - the table of C02-P3 extended by "
    "unary minus (-MIN) and signed division (MIN / -1, on the signed edge) - and division / remainder raise DivByZero; (A2) the Cast "
    "arm reaches no raise, selects truncate / keep / extend by comparing the target size with the operand length (all three Ordering "
    "arms), extends with the *source* type's signedness, and extend_to_bits fills exactly the prefix it opened by shifting (the end of "
    "the filled range has the same origin as the copy destination); (A3) each operator arm passes the arithmetic circuit that "
    "belongs to it on every path, and returns the lowering of a different, synthesised expression only in the listed place "
    "(multiplication by a small constant -> repeated addition) or behind an unsigned-only guard. Two defects of A1 and one of A2 "
    "were found and repaired."
    " Also: untyped constant sub-expressions are re-typed with their top node (A9 = C05-S13); the scanner bound of every suffixed literal equals max() of its type (A10); every per-type table of constants gives usize what it gives u32 (A11).")
LEVEL_NOTE = "Trusted: rustc MIR; the arithmetic circuits themselves (push_addition_circuit etc.) compute what their names say (not decided)."
EXPLANATION = "Functions analysed: TypedExpr::compile pruned per ExprEnum / Op / UnaryOp variant, compile::extend_to_bits."
NOT_DECIDED = "bit-exact results of all arithmetic circuits; exactness of the overflow conditions themselves; shift amount boundary"
ASSUMPTIONS = []

SELF1 = ("arg", 1)
INNER = C02.INNER
OP0 = C02.OP0
UOP0 = (SELF1, ("inner", "as UnaryOp", "0"))


def _body(ctx):
    f = C02.fn_of(ctx, C02.EXPR_COMPILE)
    return f, ctx.body(f["id"])


def _raises(body, region, reason):
    return {b for b in region if body.term(b)["k"] == "call" and mir.callee(body.term(b)) == C02.PUSH_PANIC_IF and C02._reason_of(body, body.term(b)) == {reason}}


def _delegations(ctx, body, region):
    return {b for b in region if body.term(b)["k"] == "call" and C02._is_compile_call(ctx, body.term(b)) and not body.term(b)["dest"]["p"]
            and (body.term(b)["dest"]["l"] == 0 or C02._returned_as_is(ctx, body, body.term(b)["dest"]["l"]))}


def _signed_true_edges(body, region):
    """edges taken when `is_signed(..)` answered true / a Type discriminant switch took the Signed edge."""
    edges = set()
    for b in region:
        t = body.term(b)
        if t["k"] == "call" and mir.last_seg(mir.callee(t) or "") == "is_signed":
            for x in region:
                tt = body.term(x)
                if tt["k"] == "switch" and tt["discr"]["k"] in ("copy", "move") and any(r[0] == "call" and r[1] == b for (r, p) in body.trace(tt["discr"]["place"], through={})):
                    false_t = {tg for v, tg in tt["targets"] if v == 0}
                    for s in body.succs(x):
                        if s not in false_t:
                            edges.add((x, s))
    return edges


def rule_a1(ctx):
    res = RuleResult("A1", "operators whose exact result can leave the type raise Overflow; division raises DivByZero")
    f, body = _body(ctx)
    table = [
        ("UnaryOp::Neg", {INNER: "UnaryOp", UOP0: "Neg"}, "Overflow", False),
        ("Op::Div (signed)", {INNER: "Op", OP0: "Div"}, "Overflow", True),
        ("Op::Div", {INNER: "Op", OP0: "Div"}, "DivByZero", False),
        ("Op::Mod", {INNER: "Op", OP0: "Mod"}, "DivByZero", False),
        ("Op::Add", {INNER: "Op", OP0: "Add"}, "Overflow", False),
        ("Op::Sub", {INNER: "Op", OP0: "Sub"}, "Overflow", False),
        ("Op::Mul", {INNER: "Op", OP0: "Mul"}, "Overflow", False),
        ("Op::ShiftLeft", {INNER: "Op", OP0: "ShiftLeft"}, "Overflow", False),
        ("Op::ShiftRight", {INNER: "Op", OP0: "ShiftRight"}, "Overflow", False),
    ]
    for label, assume, reason, signed_only in table:
        succ = body.pruned_succ(assume)
        region = body.reachable([0], succ=succ)
        if len(region) == len(body.reachable([0])) or len(region) < 4:
            raise AnchorMissing("A1: cannot isolate the %s arm" % label)
        raises = _raises(body, region, reason)
        deleg = _delegations(ctx, body, region)
        site = "%s must raise %s" % (label, reason)
        if signed_only:
            # on the signed edge: every path from the `is_signed == true` edge to the exit passes the raise
            edges = _signed_true_edges(body, region)
            calls_signed = [b for b in region if body.term(b)["k"] == "call" and "signed_division" in (mir.callee(body.term(b)) or "") and "unsigned" not in (mir.callee(body.term(b)) or "")]
            if not calls_signed:
                raise AnchorMissing("A1: the Div arm does not call the signed division circuit")
            bad = None
            for cb in calls_signed:
                if not raises or not all(True for _ in [0]) or body.path(0, [cb], blocked=raises, succ=succ):
                    bad = cb
            if bad is not None:
                res.bad(Finding("A1", f["id"], site, "the signed division circuit is reached on a path without an Overflow raise: MIN / -1 silently yields MIN", body.term(bad)["sp"]))
            else:
                res.ok({"arm": label, "reason": reason, "verdict": "raise precedes the signed division circuit on every path"})
            continue
        w = body.must_pass(raises | deleg, succ=succ)
        if w:
            res.bad(Finding("A1", f["id"], site, "a path through the %s arm reaches the exit without push_panic_if(_, PanicReason::%s, _)" % (label, reason),
                            body.term(w[-1])["sp"], witness=["bb%d" % x for x in w[-10:]]))
        else:
            res.ok({"arm": label, "reason": reason, "raise_sites": len(raises), "tail_delegations": len(deleg)})
    return res


def rule_a2(ctx):
    res = RuleResult("A2", "casts are silent, width-driven, extend with the source signedness; extension fills exactly the opened gap")
    f, body = _body(ctx)
    succ = body.pruned_succ({INNER: "Cast"})
    region = body.reachable([0], succ=succ)
    if len(region) == len(body.reachable([0])):
        raise AnchorMissing("A2: cannot isolate the Cast arm")
    reach_panic = ctx.cg.reach_set({C02.PUSH_PANIC_IF})
    noisy = [b for b in region if body.term(b)["k"] == "call" and not C02._is_compile_call(ctx, body.term(b)) and any(n in reach_panic for n in mir.callee_names(body.term(b)))]
    if noisy:
        res.bad(Finding("A2", f["id"], "Cast can raise", "the Cast arm can raise a panic through %s" % mir.callee(body.term(noisy[0])), body.term(noisy[0])["sp"]))
    else:
        res.ok({"arm": "Cast", "verdict": "no raise"})
    # truncation keeps the low bits: the kept suffix starts at (operand length - target size). Which comparison spelling
    # selects between truncating, keeping and extending is not load-bearing (extend_to_bits is a no-op for equal
    # widths), the subtraction is: without it the arm either never truncates or keeps the wrong end.
    def _has(op, name):
        return any(r[0] == "call" and mir.last_seg(r[2] or "") == name for (r, p) in body.deep_sources(op, 2))
    subs = []
    for x in sorted(region):
        for st in body.blocks[x]["stmts"]:
            if st["k"] == "assign" and st["rv"]["k"] == "binop" and st["rv"]["op"] in ("Sub", "SubWithOverflow", "SubUnchecked"):
                subs.append((st["rv"]["l"], st["rv"]["r"]))
        t = body.term(x)
        if t["k"] == "call" and mir.last_seg(mir.callee(t) or "") in ("saturating_sub", "checked_sub", "wrapping_sub") and len(t["args"]) == 2:
            subs.append((t["args"][0], t["args"][1]))
    if any(_has(l, "len") and _has(r, "size_in_bits_for_defs") for l, r in subs):
        res.ok({"arm": "Cast", "verdict": "truncation keeps the suffix starting at len(operand) - size_in_bits(target)"})
    else:
        res.bad(Finding("A2", f["id"], "Cast not width-driven", "the Cast arm never computes len(operand) - size_in_bits(target): a narrowing cast does not keep exactly the low bits", f["sp"]))
    # extension uses the *source* type
    ext = [b for b in region if body.term(b)["k"] == "call" and mir.last_seg(mir.callee(body.term(b)) or "") == "extend_to_bits"]
    if not ext:
        res.bad(Finding("A2", f["id"], "Cast never extends", "no call to extend_to_bits in the Cast arm", f["sp"]))
    for b in ext:
        t = body.term(b)
        tr = body.trace_operand(t["args"][1])
        if not _has(t["args"][2], "size_in_bits_for_defs"):
            res.bad(Finding("A2", f["id"], "Cast extends to another width", "extend_to_bits in the Cast arm is not given size_in_bits(target type) as the new width", t["sp"]))
        elif any(r == SELF1 and tuple(p[:3]) == ("inner", "as Cast", "1") and p[-1] == "ty" for (r, p) in tr):
            res.ok({"arm": "Cast", "verdict": "extend_to_bits(.., source type, size of the target type)"})
        else:
            res.bad(Finding("A2", f["id"], "Cast extends with the wrong type", "extension does not use the type of the casted expression (%s): signedness of the extension follows the target" %
                            sorted(".".join(p) for r, p in tr), t["sp"]))
    # extend_to_bits: the filled prefix is exactly the gap opened by copy_within
    eb = ctx.body("compile::extend_to_bits")
    cw = [(b, t) for b, t in eb.calls() if mir.last_seg(mir.callee(t) or "") == "copy_within"]
    fills = [(b, t) for b, t in eb.calls() if mir.last_seg(mir.callee(t) or "") == "fill"]
    if not cw or not fills:
        raise AnchorMissing("A2: extend_to_bits no longer shifts with copy_within and fills (found %d / %d)" % (len(cw), len(fills)))

    def origin_key(op):
        out = set()
        for (r, p) in eb.trace_operand(op, through={}):
            if r[0] == "rv" and r[1] == "binop":
                st = eb.blocks[r[2]]["stmts"][r[3]]
                # follow checked arithmetic: (a - b).0
                out.add((st["rv"]["op"].replace("WithOverflow", ""), frozenset(str(eb.trace_operand(st["rv"]["l"], through={}))), frozenset(str(eb.trace_operand(st["rv"]["r"], through={})))))
            else:
                out.add((str(r), tuple(p)))
        return frozenset(out)
    dest_key = origin_key(cw[0][1]["args"][2])
    for b, t in fills:
        # the receiver slice v[0..END]: find the Range aggregate used to index
        end_keys = set()
        for (r, p) in eb.trace_operand(t["args"][0], through={}):
            if r[0] == "call" and mir.last_seg(r[2] or "") in ("index_mut", "index"):
                ix = eb.term(r[1])["args"][1]
                for (r2, p2) in eb.trace_operand(ix, through={}):
                    if r2[0] == "agg":
                        rv = eb.blocks[r2[1]]["stmts"][r2[2]]["rv"]
                        if "Range" in (rv.get("adt") or "") and len(rv["ops"]) == 2:
                            end_keys.add(origin_key(rv["ops"][1]))
        if end_keys and all(k == dest_key for k in end_keys):
            res.ok({"function": "extend_to_bits", "verdict": "fill range ends where the shifted bits begin"})
        else:
            res.bad(Finding("A2", eb.id, "extension does not fill the whole gap",
                            "the prefix filled with the sign bit / zero does not end at the position the old bits were moved to: widening by more than the old width leaves stale bits", t["sp"]))
    return res


CIRCUITS = [
    ("Op::Add", {INNER: "Op", OP0: "Add"}, ["push_addition_circuit"]),
    ("Op::Sub", {INNER: "Op", OP0: "Sub"}, ["push_subtraction_circuit"]),
    ("Op::Mul", {INNER: "Op", OP0: "Mul"}, ["push_multiplier"]),
    ("Op::Div", {INNER: "Op", OP0: "Div"}, ["push_signed_division_circuit", "push_unsigned_division_circuit"]),
    ("Op::Mod", {INNER: "Op", OP0: "Mod"}, ["push_signed_division_circuit", "push_unsigned_division_circuit"]),
    ("Op::GreaterThan", {INNER: "Op", OP0: "GreaterThan"}, ["push_comparator_circuit"]),
    ("Op::LessThan", {INNER: "Op", OP0: "LessThan"}, ["push_comparator_circuit"]),
    ("Op::Eq", {INNER: "Op", OP0: "Eq"}, ["push_eq"]),
    ("Op::NotEq", {INNER: "Op", OP0: "NotEq"}, ["push_eq"]),
    ("Op::BitAnd", {INNER: "Op", OP0: "BitAnd"}, ["push_and"]),
    ("Op::BitOr", {INNER: "Op", OP0: "BitOr"}, ["push_or"]),
    ("Op::BitXor", {INNER: "Op", OP0: "BitXor"}, ["push_xor"]),
    ("Op::ShiftLeft", {INNER: "Op", OP0: "ShiftLeft"}, ["push_mux"]),
    ("Op::ShiftRight", {INNER: "Op", OP0: "ShiftRight"}, ["push_mux"]),
    ("UnaryOp::Neg", {INNER: "UnaryOp", UOP0: "Neg"}, ["push_negation_circuit"]),
    ("UnaryOp::Not", {INNER: "UnaryOp", UOP0: "Not"}, ["push_not"]),
]
REWRITE_OK = {"Op::Mul"}   # multiplication by a small constant -> repeated addition (and negation)


def rule_a3(ctx):
    res = RuleResult("A3", "each operator is lowered by its own circuit; rewrites into other operators only where listed or behind an unsigned guard")
    f, body = _body(ctx)
    for label, assume, circuits in CIRCUITS:
        succ = body.pruned_succ(assume)
        region = body.reachable([0], succ=succ)
        if len(region) == len(body.reachable([0])) or len(region) < 4:
            raise AnchorMissing("A3: cannot isolate the %s arm" % label)
        via = ctx.blocks_calling(body, set(circuits), region=set(region))
        for lp in body.loops():
            if lp["body"] & via:
                via.add(lp["header"])
        deleg = _delegations(ctx, body, region)
        bad_deleg = []
        for d in deleg:
            if label in REWRITE_OK:
                continue
            # accepted only behind an unsigned-type guard: the is_signed == false edge dominates the delegation
            edges = set()
            for (x, s) in _signed_true_edges(body, region):
                for s2 in body.succs(x):
                    if s2 != s:
                        edges.add((x, s2))
            if not C02._dominated_by_edges(body, edges, d):
                bad_deleg.append(d)
        for d in bad_deleg:
            res.bad(Finding("A3", f["id"], "%s rewritten into another expression" % label,
                            "the %s arm returns the lowering of a different, synthesised expression without an unsigned-only guard: the rewrite must be exact for every operand value and sign" % label,
                            body.term(d)["sp"]))
        exits_via = via | (deleg if label in REWRITE_OK else set())
        w = body.must_pass(exits_via | set(d for d in deleg if d not in bad_deleg), succ=succ)
        if w:
            res.bad(Finding("A3", f["id"], "%s without %s" % (label, "/".join(circuits)), "a path through the %s arm does not use %s" % (label, " or ".join(circuits)), body.term(w[-1])["sp"]))
        elif not bad_deleg:
            res.ok({"arm": label, "circuit": "/".join(circuits), "sites": len(via), "rewrites": len(deleg)})
    return res


def rule_a4(ctx):
    """Multiplication by a literal: the literal's sign and magnitude are split; every rewritten result must look at the sign."""
    res = RuleResult("A4", "every result of the constant-multiplication rewrite depends on the sign of the literal")
    f, body = _body(ctx)
    succ = body.pruned_succ({INNER: "Op", OP0: "Mul"})
    region = body.reachable([0], succ=succ)
    # the (magnitude, bits, is_negative) triples
    triples = []
    for b in sorted(region):
        for i, st in enumerate(body.blocks[b]["stmts"]):
            if st["k"] != "assign" or st["rv"]["k"] != "aggregate" or len(st["rv"]["ops"]) != 3:
                continue
            tys = [o.get("ty") or o.get("place", {}).get("ty") for o in st["rv"]["ops"]]
            # (magnitude, bits, sign) as a tuple, or as a struct that is defined inside the lowering function itself
            local_struct = st["rv"].get("akind") == "adt" and (st["rv"].get("adt") or "").startswith(body.id + "::")
            if (st["rv"].get("akind") == "tuple" or local_struct) and sorted(tys) == ["bool", "u64", "u64"]:
                if tys.index("bool") != 2:
                    # normalise: the sign is looked at through its own position / field name below
                    pass
                triples.append((b, i, st))
    if len(triples) < 2 and not res.findings:
        raise AnchorMissing("A4: the constant-multiplication rewrite no longer splits the literal into (magnitude, bits, sign) (found %d triples)" % len(triples))
    def sign_pos(st):
        tys = [o.get("ty") or o.get("place", {}).get("ty") for o in st["rv"]["ops"]]
        return tys.index("bool")

    def sign_names(st):
        k = sign_pos(st)
        names = {str(k)}
        if st["rv"].get("fields") and k < len(st["rv"]["fields"]):
            names.add(st["rv"]["fields"][k])
        return names
    signed = [t for t in triples if t[2]["rv"]["ops"][sign_pos(t[2])]["k"] != "const"]
    if not signed:
        res.bad(Finding("A4", f["id"], "sign of a signed literal factor is never computed", "no (magnitude, bits, sign) triple has a computed sign", triples[0][2]["sp"]))
        return res
    sign_switches = set()
    sign_srcs = set()
    for (b, i, st) in triples:
        sign_srcs |= {(r, tuple(p)) for (r, p) in body.trace_operand(st["rv"]["ops"][sign_pos(st)])}
    for x in region:
        tt = body.term(x)
        if tt["k"] == "switch" and tt["discr"]["k"] in ("copy", "move"):
            tr = {(r, tuple(p)) for (r, p) in body.trace_operand(tt["discr"])}
            if any(r[0] == "agg" and any((r[1], r[2]) == (b, i) and len(p) == 1 and p[0] in sign_names(st3) for (b, i, st3) in triples) for (r, p) in tr):
                sign_switches.add(x)
            elif tr and tr <= sign_srcs and any(r[0] != "const" for (r, p) in tr):
                sign_switches.add(x)
    loops = [lp for lp in body.loops() if any(b in lp["body"] for (b, i, _) in triples)]
    lp = min(loops, key=lambda l: len(l["body"])) if loops else None
    deleg = [d for d in _delegations(ctx, body, region) if any(body.path(b, [d], succ=succ) for (b, i, _) in triples)]
    if not deleg:
        res.ok({"verdict": "the rewrite returns no lowering of a synthesised expression"})
        return res
    def ctrl_dep(x, blk):
        return body.dominates(x, blk) and len({y for y in body.succs(x) if blk == y or body.path(y, [blk], blocked={x})}) < len(body.succs(x))
    for d in deleg:
        if any(ctrl_dep(x, d) for x in sign_switches):
            res.ok({"site": "line %d" % body.term(d)["sp"][1], "verdict": "returned on one edge of the test of the literal's sign"})
            continue
        # or: the lowered expression itself was chosen by the sign (built on one edge of the test)
        built = set()
        for (r, p) in body.deep_sources(body.term(d)["args"][0], 6):
            if r[0] == "agg":
                built.add(r[1])
        if any(ctrl_dep(x, blk) for x in sign_switches for blk in built):
            res.ok({"site": "line %d" % body.term(d)["sp"][1], "verdict": "the lowered expression is assembled on one edge of the test of the literal's sign"})
        else:
            res.bad(Finding("A4", f["id"], "rewritten product ignores the sign of the literal",
                            "this result of the constant-multiplication rewrite is returned whether the literal factor is negative or not (only its magnitude was inspected)", body.term(d)["sp"]))
    return res


def rule_a5(ctx):
    """x * (-n) rewritten as -(x + ... + x) is not exact: the sum overflows when the product is exactly the minimum value."""
    res = RuleResult("A5", "a negative literal factor negates the operand before summing (negating the sum is inexact at the minimum value)")
    f, body = _body(ctx)
    succ = body.pruned_succ({INNER: "Op", OP0: "Mul"})
    region = body.reachable([0], succ=succ)
    negs = []
    for b in sorted(region):
        for st in body.blocks[b]["stmts"]:
            if st["k"] == "assign" and st["rv"]["k"] == "aggregate" and st["rv"].get("adt") == "ast::ExprEnum" and st["rv"].get("variant") == "UnaryOp":
                negs.append((b, st))
    if not negs:
        res.ok({"verdict": "the constant-multiplication rewrite synthesises no negation"})
        return res
    for b, st in negs:
        # the negated operand: a synthesised Op(Add, ..) chain, or the original operand of the product?
        operand = st["rv"]["ops"][-1]
        synth_add = False
        for (r, p) in body.deep_sources(operand, 4):
            if r[0] == "agg":
                a = body.blocks[r[1]]["stmts"][r[2]]["rv"]
                if a.get("adt") == "ast::ExprEnum" and a.get("variant") == "Op":
                    synth_add = True
        if synth_add:
            res.bad(Finding("A5", f["id"], "negation of the synthesised sum",
                            "x * (-n) is lowered as -(x + ... + x): for x * n == 2^(bits-1) (e.g. 64i8 * -2i8 = -128) the sum overflows although the product is representable - a panic for a representable result",
                            st["sp"]))
        else:
            res.ok({"site": "line %d" % st["sp"][1], "verdict": "the original operand is negated, then summed"})
    return res


def rule_a6(ctx):
    """Ripple-carry shape of the adder and the way the Add arm picks its overflow bit."""
    res = RuleResult("A6", "the adder ripples the carry from the least significant bit; signed overflow = last two carries differ, unsigned = last carry")
    fid = "circuit::CircuitBuilder::push_addition_circuit"
    body = ctx.body(fid)
    adders = [(b, t) for b, t in body.calls() if mir.last_seg(mir.callee(t) or "") == "push_adder"]
    if len(adders) != 1:
        raise AnchorMissing("A6: push_addition_circuit no longer calls push_adder once (in a loop)")
    ab, at = adders[0]
    loops = [lp for lp in body.loops() if ab in lp["body"]]
    if not loops:
        raise AnchorMissing("A6: push_adder is not called in a loop")
    lp = min(loops, key=lambda l: len(l["body"]))
    # least significant bit first: bit vectors are MSB first, so the loop runs over (0..bits).rev()
    nxt = [b for b in lp["body"] if body.term(b) and body.term(b)["k"] == "call" and mir.last_seg(mir.callee(body.term(b)) or "") == "next"]
    revd = any("Rev<" in (mir.callee(body.term(b)) or "") or "Rev<" in body.term(b)["args"][0].get("place", {}).get("ty", "") for b in nxt)
    if revd:
        res.ok({"clause": "direction", "verdict": "bits are added from the last (least significant) to the first"})
    else:
        res.bad(Finding("A6", fid, "adder does not start at the least significant bit", "the loop over the bit positions is not reversed: the carry would ripple from the most significant bit", at["sp"]))
    # operands: x[i], y[i] with the same i; carry in = loop-carried local that receives this call's second result
    ix = []
    for a in at["args"][1:3]:
        k = None
        if a["k"] in ("copy", "move"):
            for d in body.defs().get(a["place"]["l"], []):
                if d[0] == "assign" and d[3]["rv"]["k"] == "use" and d[3]["rv"]["op"]["k"] in ("copy", "move"):
                    pp = d[3]["rv"]["op"]["place"]
                    idx = [e for e in pp["p"] if e["k"] == "index"]
                    if idx:
                        k = (pp["l"], frozenset((r, tuple(p)) for (r, p) in body.trace({"l": idx[0]["local"], "p": []})))
        ix.append(k)
    if ix[0] and ix[1] and ix[0][0] != ix[1][0] and ix[0][1] == ix[1][1] and {ix[0][0], ix[1][0]} == {2, 3}:
        res.ok({"clause": "operands", "verdict": "push_adder(x[i], y[i], carry) with one i"})
    else:
        res.bad(Finding("A6", fid, "adder operands are not x[i], y[i] of one position", "found %s" % (ix,), at["sp"]))
    cin = mir.base_local(body, at["args"][3])
    carried = False
    prev_local = None
    upd_pos = prev_pos = None
    for b in lp["body"]:
        for i_, st in enumerate(body.blocks[b]["stmts"]):
            if st["k"] == "assign" and st["place"]["l"] == cin and not st["place"]["p"] and st["rv"]["k"] == "use":
                if any(r[0] == "call" and r[1] == ab and p == ("1",) for (r, p) in body.trace_operand(st["rv"]["op"], through={})):
                    carried = True
                    upd_pos = (b, i_)
            if st["k"] == "assign" and st["rv"]["k"] == "use" and not st["place"]["p"] and mir.base_local(body, st["rv"]["op"]) == cin and st["place"]["l"] != cin and \
                    len(body.defs().get(st["place"]["l"], [])) > 1:
                prev_local = st["place"]["l"]
                prev_pos = (b, i_)
    if prev_pos and upd_pos:
        before = (prev_pos[0] == upd_pos[0] and prev_pos[1] < upd_pos[1]) or (prev_pos[0] != upd_pos[0] and body.dominates(prev_pos[0], upd_pos[0]))
        if not before:
            res.bad(Finding("A6", fid, "previous carry saved after the carry was updated", "the carry into the last position must be copied before the carry is overwritten with the new carry out; otherwise both returned carries are equal and signed overflow is never seen", at["sp"]))
            prev_local = None
    if carried:
        res.ok({"clause": "carry", "verdict": "carry in = carry out of the previous position"})
    else:
        res.bad(Finding("A6", fid, "carry is not rippled", "the carry input of push_adder is not the loop-carried second result of the previous push_adder", at["sp"]))
    # result tuple: (sum, carry, carry before the last position)
    ret = None
    for blk in body.blocks:
        for st in blk["stmts"]:
            if st["k"] == "assign" and st["place"]["l"] == 0 and st["rv"]["k"] == "aggregate" and len(st["rv"]["ops"]) == 3:
                ret = st
    if ret and mir.base_local(body, ret["rv"]["ops"][1]) == cin and prev_local is not None and mir.base_local(body, ret["rv"]["ops"][2]) == prev_local:
        res.ok({"clause": "results", "verdict": "returns (sum, last carry, carry into the last position)"})
    else:
        res.bad(Finding("A6", fid, "returned carries", "the adder must return the last carry and the carry into the most significant position, in this order", (ret or at)["sp"]))
    # Add arm: overflow selection
    f, cb = _body(ctx)
    succ = cb.pruned_succ({INNER: "Op", OP0: "Add"})
    region = cb.reachable([0], succ=succ)
    adds = [b for b in region if cb.term(b)["k"] == "call" and mir.callee(cb.term(b)) == fid]
    raises = [(b, cb.term(b)) for b in region if cb.term(b)["k"] == "call" and mir.callee(cb.term(b)) == C02.PUSH_PANIC_IF]
    if len(adds) != 1 or not raises:
        raise AnchorMissing("A6: the Add arm no longer calls push_addition_circuit once and raises")
    srcs = set()
    for b, t in raises:
        for (r, p) in cb.trace_operand(t["args"][1]):
            srcs.add((r[0], r[1] if r[0] == "call" else None, tuple(p), mir.last_seg(r[2] or "") if r[0] == "call" else None))
    plain = any(k == "call" and bb == adds[0] and p == ("1",) for (k, bb, p, n) in srcs)
    xors = [bb for (k, bb, p, n) in srcs if k == "call" and n == "push_xor"]
    xor_ok = False
    for xb in xors:
        xt = cb.term(xb)
        ps = {tuple(p) for a in xt["args"][1:3] for (r, p) in cb.trace_operand(a) if r[0] == "call" and r[1] == adds[0]}
        if ps == {("1",), ("2",)}:
            # the xor is taken on the signed edge
            edges = _signed_true_edges(cb, region)
            if C02._dominated_by_edges(cb, edges, xb):
                xor_ok = True
    if plain and xor_ok:
        res.ok({"clause": "overflow", "verdict": "signed: xor(last carry, carry into the last position) on the is_signed edge; unsigned: last carry"})
    else:
        res.bad(Finding("A6", f["id"], "overflow bit of the addition", "expected: unsigned -> the last carry; signed (on the is_signed edge) -> xor of the last two carries; found unsigned ok: %s, signed ok: %s" % (plain, xor_ok), raises[0][1]["sp"]))
    return res


def _xref(res, rule, other):
    for x in other.findings:
        res.bad(Finding(rule, x.fn, x.site, x.message, x.span))
    return not other.findings


def rule_a7(ctx):
    """Cross-reference: the peephole rewrites of the gate builder keep the function (C04 O4, O5, O7, O9, O10) - every operator network is built through them."""
    from . import C04
    res = RuleResult("A7", "the gate builder's peephole rewrites keep the function of the requested gate (cross-reference to C04 O4 / O5 / O7 / O9 / O10)")
    ok = True
    for fn in (C04.rule_o4, C04.rule_o5, C04.rule_o7, C04.rule_o9, C04.rule_o10):
        ok = _xref(res, "A7", fn(ctx)) and ok
    if ok:
        res.ok({"verdict": "C04 O4 / O5 / O7 / O9 / O10 hold"})
    return res


def rule_a8(ctx):
    """Signed multiplication works on magnitudes: whether the magnitude 2^(bits-1) overflows depends on the sign of the result."""
    res = RuleResult("A8", "the signed-multiplication overflow term depends on the sign of the result")
    f, body = _body(ctx)
    succ = body.pruned_succ({INNER: "Op", OP0: "Mul"})
    region = body.reachable([0], succ=succ)
    edges = _signed_true_edges(body, region)
    # the mux that applies the sign to the magnitude: push_mux(sign, negated magnitude, magnitude) fed by push_negation_circuit
    sign = set()
    for b in region:
        t = body.term(b)
        if t["k"] == "call" and mir.callee(t) == C02.PUSH_MUX and C02._dominated_by_edges(body, edges, b):
            if any(r[0] == "call" and mir.last_seg(r[2] or "") == "push_negation_circuit" for (r, p) in body.trace_operand(t["args"][2])):
                for (r, p) in body.trace_operand(t["args"][1]):
                    if r[0] == "call" and mir.last_seg(r[2] or "") == "push_xor":
                        sign.add(r[1])
    if not sign:
        raise AnchorMissing("A8: cannot find the sign of the product (selector of the final negation mux) in the Mul arm")
    # terms or-ed into the overflow flag on the signed edge
    terms = []
    for b in sorted(region):
        t = body.term(b)
        if t["k"] == "call" and mir.last_seg(mir.callee(t) or "") == "push_or" and C02._dominated_by_edges(body, edges, b) and not body.blocks[b]["cleanup"]:
            for a in t["args"][1:3]:
                tr = body.trace_operand(a)
                if any(r[0] == "call" and r[1] == b for (r, p) in tr):
                    continue  # the accumulator itself
                terms.append((b, a, t))
    if not terms:
        res.bad(Finding("A8", f["id"], "signed multiplication adds no overflow term", "on the signed edge nothing is or-ed into the overflow flag", f["sp"]))
        return res
    for (b, a, t) in terms:
        deep = body.deep_sources(a, 6)
        if any(r[0] == "call" and r[1] in sign for (r, p) in deep):
            res.ok({"site": "line %d" % t["sp"][1], "verdict": "the overflow term looks at the sign of the result"})
        else:
            res.bad(Finding("A8", f["id"], "signed overflow term ignores the sign of the product",
                            "the magnitude 2^(bits-1) is representable only when the product is negative; this term is computed from the magnitude alone, so a product of +2^(bits-1) "
                            "(e.g. -128i8 * -1i8, 2i8 * 64i8) is returned as the minimum value without a panic", t["sp"]))
    return res


def rule_a9(ctx):
    """Cross-reference: an untyped constant sub-expression has to be computed in the type it is used with (C05-S13), else
    `a == (255 + 1)` is true for a = 0u8 and `x + ((0 - 1) + 0)` panics for an i8."""
    from . import C05
    res = RuleResult("A9", "untyped constant sub-expressions are computed in the type they are used with (cross-reference to C05-S13)")
    sub = C05.rule_s13(ctx)
    for x in sub.findings:
        res.bad(Finding("A9", x.fn, x.site, x.message, x.span))
    if not sub.findings:
        res.ok({"verdict": "C05-S13 holds"})
    return res


def _max_table(ctx, fid):
    """variant -> constant returned as Some(..) by token::<NumType>::max (None for `None`)."""
    body = ctx.body(fid)
    out = {}
    for b in range(body.n):
        info = body.switch_info(b)
        if not info:
            continue
        t = body.term(b)
        for v, x in t["targets"]:
            name = info[1].get(v)
            val = "?"
            for st in body.blocks[x]["stmts"]:
                if st["k"] == "assign" and st["rv"]["k"] == "cast" and st["rv"]["op"]["k"] == "const":
                    val = st["rv"]["op"].get("val")
                if st["k"] == "assign" and st["place"]["l"] == 0 and st["rv"]["k"] == "aggregate":
                    if st["rv"].get("variant") == "None":
                        val = None
                    elif st["rv"]["ops"] and st["rv"]["ops"][0]["k"] == "const":
                        val = st["rv"]["ops"][0].get("val")
            out[name] = val
    return out


def rule_a10(ctx):
    """Sibling agreement of two tables: the scanner accepts a suffixed number literal only up to a bound written in scan.rs, every
    later stage (range checks, wire widths) uses token::<NumType>::max().  A scanner bound above max() lets a literal through that
    is then cut down to the width of its type (`4294967296usize as u64` = 0)."""
    from . import C02
    res = RuleResult("A10", "the scanner's bound for every suffixed number literal equals max() of that number type")
    tables = {"token::UnsignedNumType": _max_table(ctx, "token::UnsignedNumType::max"), "token::SignedNumType": _max_table(ctx, "token::SignedNumType::max")}
    fs = [f for f in ctx.fns.values() if f.get("mir") and f["id"].endswith("::scan") and f["sp"][0] == "src/scan.rs" and "Scanner" in f["id"]]
    if len(fs) != 1:
        raise AnchorMissing("A10: Scanner::scan not found")
    body = ctx.body(fs[0]["id"])
    # comparisons `n <= K` with a constant K and the edge on which they hold
    les = []
    for b, blk in enumerate(body.blocks):
        for i, st in enumerate(blk["stmts"]):
            if st["k"] == "assign" and st["rv"]["k"] == "binop" and st["rv"]["op"] == "Le":
                if st["rv"]["r"]["k"] == "const" and isinstance(st["rv"]["r"].get("val"), int):
                    ks = [st["rv"]["r"]["val"]]
                elif st["rv"]["r"]["k"] in ("copy", "move"):
                    ks = [d[3]["rv"]["op"].get("val") for d in body.defs().get(st["rv"]["r"]["place"]["l"], [])
                          if d[0] == "assign" and d[3]["rv"]["k"] in ("cast", "use") and d[3]["rv"]["op"]["k"] == "const"]
                else:
                    ks = []
                if len(ks) != 1:
                    continue
                res_local = st["place"]["l"]
                for sb in range(body.n):
                    t = body.term(sb)
                    if t and t["k"] == "switch" and t["discr"]["k"] in ("copy", "move") and t["discr"]["place"]["l"] == res_local and all(v == 0 for v, _ in t["targets"]):
                        les.append((ks[0], (sb, t["otherwise"])))
    n = 0
    for b, blk in enumerate(body.blocks):
        if blk["cleanup"]:
            continue
        for st in blk["stmts"]:
            if st["k"] != "assign" or st["rv"]["k"] != "aggregate" or st["rv"].get("adt") != "token::TokenEnum" or st["rv"].get("variant") not in ("UnsignedNum", "SignedNum"):
                continue
            ops = st["rv"]["ops"]
            if len(ops) != 2 or ops[1]["k"] not in ("copy", "move"):
                continue
            var = None
            for (r, p) in body.trace(ops[1]["place"], through={}):
                if r[0] == "agg" and not p:
                    a = body.blocks[r[1]]["stmts"][r[2]]["rv"]
                    if a.get("adt") in tables:
                        var = (a["adt"], a["variant"]) if var in (None, (a["adt"], a["variant"])) else "many"
                else:
                    var = "many"
            if not var or var == "many":
                continue
            mx = tables[var[0]].get(var[1], "?")
            if mx is None or mx == "?":
                continue
            n += 1
            holding = [k for (k, e) in les if C02._dominated_by_edges(body, {e}, b)]
            if mx in holding or (mx == 2**64 - 1 and not holding):
                res.ok({"suffix": var[1], "bound": mx, "verdict": "scanner bound = max() of the type"})
            elif not holding:
                res.bad(Finding("A10", body.id, "%s literal accepted without a bound" % var[1], "no comparison with a constant dominates the token of a %s literal (max() = %s)" % (var[1], mx), st["sp"]))
            else:
                res.bad(Finding("A10", body.id, "%s literal bounded by %s, max() is %s" % (var[1], "/".join(str(k) for k in sorted(set(holding))), mx),
                                "the scanner accepts %s literals above max() of the type; later stages cut them down to the width of the type "
                                "(`7 < 4294967296usize` is false, `4294967296usize as u64` is 0)" % var[1], st["sp"]))
    if n < 7 and not res.findings:
        raise AnchorMissing("A10: expected the suffixed literal tokens of the scanner, found %d" % n)
    return res


def rule_a11(ctx):
    """`usize` has 32 bits in Garble (size_in_bits_for_defs, UnsignedNumType::max).  Every other table over the unsigned number types
    that yields a number per type (bit counts, shift limits, bounds) has to give usize what it gives u32 - a table written with
    the host's 64-bit usize in mind lets `x << 40` through for a usize x."""
    res = RuleResult("A11", "every per-type table of constants treats usize like u32 (sibling agreement with size_in_bits_for_defs)")
    n = 0
    for f in ctx.fns.values():
        if not f.get("mir") or not f["sp"][0].startswith("src/") or f.get("from_expansion"):
            continue
        body = ctx.body(f["id"])
        for b in range(body.n):
            info = body.switch_info(b)
            if not info or info[2] != "token::UnsignedNumType":
                continue
            t = body.term(b)
            tg = {}
            for v, x in t["targets"]:
                tg[info[1].get(v)] = x
            for name in info[1].values():
                tg.setdefault(name, t["otherwise"])
            vals = {}
            for name, x in tg.items():
                cs = []
                for st in body.blocks[x]["stmts"]:
                    if st["k"] != "assign":
                        continue
                    rv = st["rv"]
                    if rv["k"] in ("use", "cast") and rv["op"]["k"] == "const" and isinstance(rv["op"].get("val"), int) and not isinstance(rv["op"].get("val"), bool):
                        cs.append(rv["op"]["val"])
                    if rv["k"] == "aggregate":
                        cs += [o["val"] for o in rv["ops"] if o["k"] == "const" and isinstance(o.get("val"), int)]
                vals[name] = tuple(cs)
            if not vals.get("Usize") or not vals.get("U32"):
                continue
            n += 1
            if vals["Usize"] == vals["U32"]:
                res.ok({"function": f["id"], "line": t["sp"][1], "usize": list(vals["Usize"]), "verdict": "same as u32"})
            else:
                res.bad(Finding("A11", f["id"], "table gives usize %s and u32 %s" % (list(vals["Usize"]), list(vals["U32"])),
                                "usize is a 32-bit type, but this per-type table treats it differently from u32%s: e.g. a shift limit of 64 lets `x << 40` return 0 without a panic for a usize x"
                                % (" (like u64)" if vals["Usize"] == vals.get("U64") else ""), t["sp"]))
    if n < 2 and not res.findings:
        raise AnchorMissing("A11: expected at least the tables of size_in_bits_for_defs and UnsignedNumType::max, found %d" % n)
    return res


def rule_a12(ctx):
    """An operand of a number operator that shares the operator's type has to be re-typed with it (constrain_type recurses into it
    on every path): otherwise `(65535 + 1) << n` as a u16 is a 32-bit sum cut down to 0 instead of an Overflow.  (These rows of the
    recursion table were part of C05-S2 until the width-adjusting wrapper made them irrelevant for the circuit's shape.)"""
    from . import C05
    res = RuleResult("A12", "constrain_type reaches the operands of unary, arithmetic, bitwise and shift operators (they are computed in the operator's type)")
    C05._recursion_table(ctx, res, "check::constrain_type", C05.S2_OPERATOR_TABLE, True)
    for x in res.findings:
        x.rule = "A12"
    return res


def rule_a13(ctx):
    """The raise conditions of Neg / Mul / Div are conjunctions over all wires of an operand (`is the smallest value`, `is -1`).  Where
    such a conjunction is folded over `v.iter().skip(1)`, the first wire has to enter it separately (`let mut acc = v[0]`); a fold that
    merely skips the sign bit (`for &w in y.iter().skip(1)` for `y == -1`) holds for MAX as well: `MIN / MAX` panics although the
    quotient -1 is representable."""
    res = RuleResult("A13", "a conjunction over the wires of an operand that starts at the second wire also takes the first wire")
    f, main_body = _body(ctx)
    n = 0
    # the lowering itself and the helpers it calls with the wires of an operand (a fold moved into a function of its own)
    bodies = [(f, main_body)]
    for _b, t in main_body.calls():
        cal = mir.callee(t) or ""
        if ctx.has_fn(cal) and cal != f["id"] and cal.startswith("compile::") and "circuit::" not in cal and all(cal != x[0]["id"] for x in bodies):
            hb = ctx.body(cal)
            if hb.loops() and any("[usize]" in (a.get("place") or {}).get("ty", "") or "Vec<usize>" in (a.get("place") or {}).get("ty", "") for a in t["args"]):
                bodies.append((ctx.fns[cal], hb))
    for f, body in bodies:
      is_main = body is main_body
      for lp in body.loops():
          nexts = [b for b in lp["body"] if body.term(b) and body.term(b)["k"] == "call" and body.term(b)["func"].get("declared") == "std::iter::Iterator::next"]
          if len(nexts) != 1:
              continue
          # the adaptor chain of the loop's iterator
          chain, cur, src = [], body.term(nexts[0])["args"][0], None
          for _ in range(8):
              nxt = None
              for (r, p) in body.trace_operand(cur, through={}) if cur["k"] in ("copy", "move") else ():
                  if r[0] == "call":
                      t = body.term(r[1])
                      chain.append((mir.last_seg(r[2] or ""), t))
                      if t["args"]:
                          nxt = t["args"][0]
                          if mir.last_seg(r[2] or "") in ("iter", "into_iter", "deref"):
                              src = t["args"][0]
              if nxt is None:
                  break
              cur = nxt
          skips = [t for seg, t in chain if seg == "skip" and len(t["args"]) == 2 and t["args"][1].get("val") == 1]
          if not skips or src is None:
              continue
          folds = [b for b in lp["body"] if body.term(b) and body.term(b)["k"] == "call" and mir.last_seg(mir.callee(body.term(b)) or "") == "push_and" and not body.blocks[b]["cleanup"]]
          if not folds:
              continue        # not a conjunction (e.g. a loop that rewrites the remaining elements)
          n += 1
          vec = {(r, tuple(p)) for (r, p) in body.trace_operand(src)}
          # the first wire of the same vector, read with a constant index 0, feeds the accumulator of the fold
          # (only reads in the operator arm(s) the loop belongs to count: the operands are shared by all arms)
          arm = set()
          for label, assume, _c in (CIRCUITS if is_main else ()):
              reg = set(body.reachable([0], succ=body.pruned_succ(assume)))
              if lp["header"] in reg:
                  arm |= reg
          firsts = [b for b, t in body.calls() if t["func"].get("declared") in ("std::ops::Index::index",) and len(t["args"]) == 2 and t["args"][1].get("val") == 0 and
                    {(r, tuple(p)) for (r, p) in body.trace_operand(t["args"][0])} & vec and (not arm or b in arm) and not body.blocks[b]["cleanup"]]
          # (a slice is indexed by a place projection, not by a call of Index::index)
          for b, blk in enumerate(body.blocks):
              if blk["cleanup"] or (arm and b not in arm):
                  continue
              for st in blk["stmts"]:
                  op = st["rv"].get("op") if st["k"] == "assign" and st["rv"]["k"] == "use" else None
                  if not (isinstance(op, dict) and op.get("k") in ("copy", "move")):
                      continue
                  pr = op["place"]["p"]
                  ix = [e for e in pr if e["k"] in ("index", "constant_index")]
                  if not ix:
                      continue
                  e = ix[-1]
                  zero = e.get("offset") == 0 if e["k"] == "constant_index" else any(
                      d[0] == "assign" and d[3]["rv"]["k"] == "use" and d[3]["rv"]["op"].get("k") == "const" and d[3]["rv"]["op"].get("val") == 0
                      for d in body.defs().get(e.get("local"), []))
                  base = {"l": op["place"]["l"], "p": [], "ty": body.locals[op["place"]["l"]]["ty"]}
                  if zero and {(r, tuple(p)) for (r, p) in body.trace(base)} & vec:
                      firsts.append(b)
          if arm:
              # ... and not in the part of the function that every arm shares
              shared = None
              for label, assume, _c in CIRCUITS:
                  reg = set(body.reachable([0], succ=body.pruned_succ(assume)))
                  shared = reg if shared is None else shared & reg
              firsts = [b for b in firsts if b not in (shared or set())]
          acc_srcs = set()
          for b in folds:
              for a in body.term(b)["args"][1:3]:
                  acc_srcs |= {r[1] for (r, p) in body.deep_sources(a, 3, through=protocol_deref()) if r[0] == "call"}
          if any(fb in acc_srcs for fb in firsts):
              res.ok({"loop": "line %d" % body.term(nexts[0])["sp"][1], "verdict": "the skipped first wire starts the accumulator"})
          elif firsts:
              # (the first wire is looked at on its own, e.g. `all_bits_except_msb_are_zero` next to `result[0]`)
              res.ok({"loop": "line %d" % body.term(nexts[0])["sp"][1], "verdict": "the skipped first wire of the same vector is read separately (line %d)" % body.term(firsts[0])["sp"][1]})
          else:
              res.bad(Finding("A13", f["id"], "a conjunction over an operand's wires leaves out the first wire",
                              "the fold runs over `.iter().skip(1)` and the first wire of the same vector never enters the accumulator: the condition also holds for values that differ in the "
                              "sign bit (`y == -1` tested without the sign bit holds for MAX: MIN / MAX panics with Overflow although -1 is representable)", body.term(nexts[0])["sp"]))
    if n < 2 and not res.findings:
        raise AnchorMissing("A13: expected the `is the smallest value` folds of Neg / Div (skip(1) + first wire), found %d" % n)
    return res


def protocol_deref():
    from .. import protocol
    return protocol.DEREF_ONLY


def run(ctx):
    return ctx.run_rules([rule_a1, rule_a2, rule_a3, rule_a4, rule_a5, rule_a6, rule_a7, rule_a8, rule_a9, rule_a10, rule_a11, rule_a12, rule_a13])
