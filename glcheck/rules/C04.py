"""C04 - optimisations never change the computed function (structural clauses only).

O1  every wire index is renumbered in both renumbering passes (sweep and final numbering)
O2  the NOT encoding (xor with constant 1) is the only special case of the final numbering; constants become the two first gates
O3  the de-duplication switch only switches the cache
O4  sibling consistency of the xor-cancellation rewrites: the operand tested for cancellation is not the one returned
O5  the folding table of optimize_and / optimize_xor (x&0, x&1, x&x, x^0, x^x) returns the right operand
O7  and-absorption rewrites of push_and ((x1&x2)&(y1&y2) with a shared input, (x1&x2)&x1) keep every input of both operands
O9  the and-over-xor distribution of push_and looks up (other operand & input 0 of the XOR gate) and (other operand & input 1)
O10 the and-factoring rewrite of push_xor: four complete input pairings; under a1 == b1 the gate is And(a1, Xor(a2, b2))
O8  the dead-gate sweep has all roots (outputs, every field of the panic record) and follows every operand of every gate kind
O6  `negated` records exactly (operand, new gate) and (new gate, operand) under the `== 1` test of the other operand
O11 cross-reference: the merge of panic records has no wire-identity shortcut (C02-P5); such a shortcut differs between de-duplication on / off
O12 cross-reference: the one-bit primitives compute one Boolean function whatever the gate cache / negation table contain (C01-V12)
"""
from .. import mir
from ..core import AnchorMissing, Finding, RuleResult

PROPERTY = "C04"
TECHNIQUE = "operand-origin / completeness checks over the two renumbering passes and a who-may-branch rule for the option switch, on MIR"
LEVEL_TEXT = (
    "That each algebraic rewrite of optimize_xor / optimize_and / push_xor / push_and preserves the Boolean function is an "
    "equivalence over all request sequences (enumeration or SAT: other families) and is NOT decided. Decided: (O1) in "
    "remove_unused_gates and in build every datum that carries a wire index - both operands of both builder gate kinds, the six "
    "panic-record fields (C02-P5) and the user outputs - is rewritten through the pass's index-shifting closure applied to its own "
    "old value, and each final Gate operand comes from the shifted builder operand in the same position; (O2) the only special "
    "case of the final numbering is xor-with-constant-1 -> Not(other operand), handled for both operand positions, AND has none, and "
    "the constants are materialised as Xor(0,0) and Not(first input) before all other gates; (O3) nothing but push_gate and "
    "get_cached branches on the cache switch, and nothing but get_cached / push_gate touches the cache - so switching "
    "de-duplication off cannot change which gate requests are made, only whether a request is answered from the cache; (O4) in the "
    "xor-cancellation rewrites the operand tested for cancellation is never the one returned (a structural lint for one class of slips).")
LEVEL_NOTE = "Trusted: rustc MIR; that an identical request answered from the cache denotes the same wire function (hash-consing) is the cache's definition."
EXPLANATION = "Functions analysed: CircuitBuilder::{remove_unused_gates, build} and their closures; every switch terminator of the crate for O3."
NOT_DECIDED = "function preservation of the algebraic rewrites, of constant folding and of the sweep for all request sequences"
ASSUMPTIONS = []

SELF1 = ("arg", 1)
RUG = "circuit::CircuitBuilder::remove_unused_gates"
BUILD = "circuit::CircuitBuilder::build"


def rule_o1(ctx):
    res = RuleResult("O1", "every wire index is renumbered in both passes")
    # pass 1: the sweep
    body = ctx.body(RUG)
    shifters = {c for c in ctx.cg.closures_of.get(RUG, ())}
    done = set()
    for b, blk in enumerate(body.blocks):
        if blk["cleanup"]:
            continue
        for st in blk["stmts"]:
            if st["k"] != "assign" or not any(e["k"] == "deref" for e in st["place"]["p"]):
                continue
            for (r, p) in body.trace(st["place"]):
                if r == SELF1 and p and p[0] == "gates":
                    names = [x for x in p if x.startswith("as ") or x.isdigit()]
                    if len(names) >= 2:
                        # the new value is shift(old value of the same place)
                        rv = st["rv"]
                        good = False
                        if rv["k"] == "use" and rv["op"]["k"] in ("copy", "move"):
                            for (r2, p2) in body.trace(rv["op"]["place"], through={}):
                                if r2[0] == "call" and (mir.callee(body.term(r2[1])) in shifters):
                                    ct = body.term(r2[1])
                                    for a in ct["args"][1:]:
                                        for (r3, p3) in body.deep_sources(a, 2):
                                            if r3 == SELF1 and tuple(p3) == tuple(p):
                                                good = True
                        if good:
                            done.add((names[0][3:], names[1]))
                        else:
                            res.bad(Finding("O1", RUG, "operand %s.%s renumbered from something else" % (names[0][3:], names[1]),
                                            "the operand is overwritten with a value that is not the shifted old value of the same operand", st["sp"]))
    for v in ("Xor", "And"):
        for i in ("0", "1"):
            if (v, i) in done:
                res.ok({"pass": "sweep", "operand": "%s.%s" % (v, i), "verdict": "shift(old value)"})
            else:
                res.bad(Finding("O1", RUG, "sweep does not renumber %s.%s" % (v, i), "operand %s of builder %s gates keeps its stale index after dead gates are removed" % (i, v), body.fn["sp"]))
    # outputs of the sweep: every returned index comes from an output shifted by the same table
    outs = set()
    for c in shifters:
        cb = ctx.body(c)
        for (b, kind, ops, sp) in mir.trapping_arith_sites(cb):
            pass
    ret_srcs = set()
    ret_calls = []
    for b, t in body.calls():
        if t["dest"]["l"] == 0 and not t["dest"]["p"] and not body.blocks[b]["cleanup"]:
            ret_calls.append(mir.last_seg(mir.callee(t) or ""))
            for a in t["args"]:
                ret_srcs |= body.deep_sources(a, 4)
    mapped = any(r[0] == "agg" and body.blocks[r[1]]["stmts"][r[2]]["rv"].get("akind") == "closure" for (r, p) in ret_srcs)
    if any(r == ("arg", 2) for (r, p) in ret_srcs) and "collect" in ret_calls and mapped:
        res.ok({"pass": "sweep", "outputs": "mapped through the shift closure and collected"})
    else:
        res.bad(Finding("O1", RUG, "outputs not renumbered", "the returned output indices are not the mapped input outputs", body.fn["sp"]))
    # pass 2: final numbering (closure of build that converts BuilderGate -> Gate)
    conv = None
    for c in sorted(ctx.cg.closures_of.get(BUILD, ())):
        cb = ctx.body(c)
        if any(st["k"] == "assign" and st["rv"]["k"] == "aggregate" and st["rv"].get("adt") == "circuit::Gate" for blk in cb.blocks for st in blk["stmts"]):
            conv = cb
    if conv is None:
        raise AnchorMissing("O1: build has no closure that constructs Gate values")
    shift_closures = {c for c in ctx.cg.closures_of.get(BUILD, ())}
    seen = set()
    for blk in conv.blocks:
        for st in blk["stmts"]:
            if st["k"] == "assign" and st["rv"]["k"] == "aggregate" and st["rv"].get("adt") == "circuit::Gate":
                v = st["rv"]["variant"]
                for i, o in enumerate(st["rv"]["ops"]):
                    srcs = set()
                    shifted = False
                    for (r, p) in conv.trace_operand(o, through={}):
                        if r[0] == "call" and mir.callee(conv.term(r[1])) in shift_closures:
                            shifted = True
                            ct = conv.term(r[1])
                            for a in ct["args"][1:]:
                                for (r3, p3) in conv.deep_sources(a, 2):
                                    if r3 == ("arg", 2) and p3:
                                        srcs.add(tuple(x for x in p3 if x.startswith("as ") or x.isdigit()))
                    if not shifted:
                        res.bad(Finding("O1", conv.id, "Gate::%s.%d not renumbered" % (v, i), "a final gate operand does not pass through the final index mapping", st["sp"]))
                        continue
                    want = ("as " + v, str(i)) if v != "Not" else None
                    if v == "Not":
                        ok = all(s and s[0] == "as Xor" for s in srcs) and srcs
                    else:
                        ok = srcs == {want}
                    if ok:
                        seen.add((v, i, tuple(sorted(srcs))))
                    else:
                        res.bad(Finding("O1", conv.id, "Gate::%s.%d takes the wrong builder operand" % (v, i), "operand comes from %s" % sorted(srcs), st["sp"]))
    for v, i in (("Xor", 0), ("Xor", 1), ("And", 0), ("And", 1)):
        if any(s[0] == v and s[1] == i for s in seen):
            res.ok({"pass": "final numbering", "operand": "%s.%d" % (v, i)})
        else:
            res.bad(Finding("O1", conv.id, "final numbering drops %s.%d" % (v, i), "no final %s gate takes operand %d from the shifted builder operand %d" % (v, i, i), conv.fn["sp"]))
    nots = {s[2] for s in seen if s[0] == "Not"}
    if {(("as Xor", "0"),), (("as Xor", "1"),)} <= nots:
        res.ok({"pass": "final numbering", "Not": "built from either operand of xor-with-1"})
    else:
        res.bad(Finding("O1", conv.id, "NOT encoding incomplete", "Not gates are built from %s, expected from both operand positions of Xor" % sorted(nots), conv.fn["sp"]))
    return res


def rule_o2(ctx):
    res = RuleResult("O2", "xor-with-1 -> Not is the only special case; constants are the first two gates")
    conv = None
    for c in sorted(ctx.cg.closures_of.get(BUILD, ())):
        cb = ctx.body(c)
        if any(st["k"] == "assign" and st["rv"]["k"] == "aggregate" and st["rv"].get("adt") == "circuit::Gate" for blk in cb.blocks for st in blk["stmts"]):
            conv = cb
    if conv is None:
        raise AnchorMissing("O2: build has no Gate-constructing closure")
    eqs = []
    for blk in conv.blocks:
        for st in blk["stmts"]:
            if st["k"] == "assign" and st["rv"]["k"] == "binop" and st["rv"]["op"] == "Eq":
                l, r = st["rv"]["l"], st["rv"]["r"]
                c = l.get("val") if l["k"] == "const" else (r.get("val") if r["k"] == "const" else None)
                o = r if l["k"] == "const" else l
                paths = {tuple(x for x in p if x.startswith("as ") or x.isdigit()) for (rr, p) in conv.trace_operand(o)}
                eqs.append((c, paths))
    # the same test as a literal pattern (`BuilderGate::Xor(1, y) => ..`): an integer switch on the operand itself
    for b in range(conv.n):
        t = conv.term(b)
        if t and t["k"] == "switch" and t["discr"]["k"] in ("copy", "move") and conv.switch_info(b) is None and not conv.blocks[b]["cleanup"] and \
                conv.locals[t["discr"]["place"]["l"]]["ty"] not in ("bool", "isize"):
            paths = {tuple(x for x in p if x.startswith("as ") or x.isdigit()) for (rr, p) in conv.trace_operand(t["discr"])}
            for v, _ in t["targets"]:
                eqs.append((v, paths))
    want = [(1, {("as Xor", "0")}), (1, {("as Xor", "1")})]
    for w in want:
        if w in eqs:
            res.ok({"test": "%s == %d" % (".".join(next(iter(w[1]))), w[0])})
        else:
            res.bad(Finding("O2", conv.id, "no test %s == 1" % ".".join(next(iter(w[1]))), "a NOT written as xor(1, x) in this operand position is emitted as an XOR with the constant wire", conv.fn["sp"]))
    extra = [e for e in eqs if e not in want]
    if extra:
        res.bad(Finding("O2", conv.id, "additional special case in the final numbering", "the conversion tests %s" % extra, conv.fn["sp"]))
    else:
        res.ok({"verdict": "no other special case"})
    body = ctx.body(BUILD)
    # the first two pushes into the gate vector are Xor(0, 0) and Not(input_shift)
    pushes = []
    for b in body.rpo():
        t = body.term(b)
        if t and t["k"] == "call" and mir.last_seg(mir.callee(t) or "") in ("push", "extend") and "circuit::Gate" in t["args"][0]["place"]["ty"] and not body.blocks[b]["cleanup"]:
            desc = mir.last_seg(mir.callee(t))
            for (r, p) in body.trace_operand(t["args"][1], through={}):
                if r[0] == "agg":
                    rv = body.blocks[r[1]]["stmts"][r[2]]["rv"]
                    if rv.get("adt") == "circuit::Gate":
                        desc = "%s(%s)" % (rv["variant"], ",".join(str(o.get("val")) if o["k"] == "const" else "var" for o in rv["ops"]))
            pushes.append(desc)
    if pushes[:3] == ["Xor(0,0)", "Not(var)", "extend"]:
        res.ok({"gate_vector": pushes[:3]})
    else:
        res.bad(Finding("O2", BUILD, "constant gates not first", "the final gate vector starts with %s, expected Xor(0,0), Not(first input), then the builder's gates" % pushes[:3], body.fn["sp"]))
    return res


def rule_o3(ctx):
    res = RuleResult("O3", "the de-duplication switch only switches the cache")
    allowed = {"circuit::CircuitBuilder::push_gate", "circuit::CircuitBuilder::get_cached"}
    n = 0
    for f in ctx.facts["fns"]:
        if "mir" not in f or f.get("from_expansion"):
            continue
        body = ctx.body(f["id"])
        for b in range(body.n):
            t = body.term(b)
            if not t or t["k"] != "switch" or t["discr"]["k"] not in ("copy", "move") or body.blocks[b]["cleanup"]:
                continue
            for (r, p) in body.trace(t["discr"]["place"]):
                if any(x in ("cache_gates", "optimize_duplicate_gates") for x in p):
                    n += 1
                    if f["id"] in allowed:
                        res.ok({"function": f["id"], "branches_on": ".".join(p)})
                    else:
                        res.bad(Finding("O3", f["id"], "branches on the de-duplication switch", "code other than the cache lookup / insert depends on the switch: on and off may request different gates", t["sp"]))
        # the cache map itself
        for blk in body.blocks:
            if blk["cleanup"]:
                continue
            t = blk["term"]
            if t and t["k"] == "call":
                for a in t["args"]:
                    if a["k"] in ("copy", "move"):
                        for (r, p) in body.trace(a["place"], through={"std::ops::Deref::deref": 0}):
                            if r == SELF1 and tuple(p) == ("cache",) and "circuit::CircuitBuilder" in body.locals[1]["ty"]:
                                if f["id"] not in allowed:
                                    res.bad(Finding("O3", f["id"], "touches the gate cache", "the cache is used outside get_cached / push_gate", t["sp"]))
    if (n < 2) and not res.findings:
        raise AnchorMissing("O3: nobody branches on cache_gates any more (expected push_gate and get_cached)")
    return res


def rule_o4(ctx):
    res = RuleResult("O4", "xor-cancellation rewrites return the operand that was NOT matched")
    from .C02 import _dominated_by_edges
    fid = "circuit::CircuitBuilder::push_xor"
    body = ctx.body(fid)

    def xor_operands(op):
        out = set()
        if op["k"] not in ("copy", "move"):
            return out
        for (r, p) in body.trace(op["place"], through={}):
            if r[0] == "call" and "as Xor" in p:
                i = p[p.index("as Xor") + 1] if p.index("as Xor") + 1 < len(p) else None
                if i in ("0", "1"):
                    out.add((r[1], i))
        return out
    # comparisons: (switch block, true target, {(gate, i)})
    cmps = []
    for b, blk in enumerate(body.blocks):
        for st in blk["stmts"]:
            if st["k"] == "assign" and st["rv"]["k"] == "binop" and st["rv"]["op"] in ("Eq", "Ne"):
                ops = xor_operands(st["rv"]["l"]) | xor_operands(st["rv"]["r"])
                if not ops:
                    continue
                for (x, s_) in mir.equality_edges(body, st):
                    cmps.append((x, s_, ops))
    n = 0
    for b, blk in enumerate(body.blocks):
        if blk["cleanup"]:
            continue
        rets = set()
        sp = None
        for st in blk["stmts"]:
            if st["k"] == "assign" and st["place"]["l"] == 0 and not st["place"]["p"] and st["rv"]["k"] == "use":
                rets |= xor_operands(st["rv"]["op"])
                sp = st["sp"]
        t = blk["term"]
        if t and t["k"] == "call" and t["dest"]["l"] == 0 and not t["dest"]["p"]:
            for a in t["args"][1:]:
                rets |= xor_operands(a)
            sp = t["sp"]
        if not rets:
            continue
        n += 1
        bad = None
        for (sw, tgt, ops) in cmps:
            if _dominated_by_edges(body, {(sw, tgt)}, b):
                both = ops & rets
                if both:
                    bad = both
        if bad:
            res.bad(Finding("O4", fid, "rewrite returns the matched operand",
                            "an operand of an existing XOR gate is tested for cancellation and then returned itself instead of its sibling: x ^ (x' ^ z) no longer equals the rewritten value",
                            sp))
        else:
            res.ok({"site": "return at line %d" % sp[1], "returns": sorted("operand %s of gate read in bb%d" % (i, g) for g, i in rets)})
    if (n < 6) and not res.findings:
        raise AnchorMissing("O4: expected the xor-cancellation returns of push_xor (10 on the pinned tree), found %d" % n)
    return res


FOLD_TABLE = {
    "circuit::CircuitBuilder::optimize_and": {("x", 0): {"const 0"}, ("y", 0): {"const 0"}, ("x", 1): {"y"}, ("y", 1): {"x"}, ("x", "y"): {"x", "y"},
                                              ("!x", "y"): {"const 0"}, ("!y", "x"): {"const 0"}},
    "circuit::CircuitBuilder::optimize_xor": {("x", 0): {"y"}, ("y", 0): {"x"}, ("x", "y"): {"const 0"},
                                              ("!x", "y"): {"const 1"}, ("!y", "x"): {"const 1"}},
}


def rule_o5(ctx):
    res = RuleResult("O5", "constant / idempotence folding returns the algebraically right operand")
    for fid, table in FOLD_TABLE.items():
        body = ctx.body(fid)

        def who(op):
            if op["k"] == "const":
                return op.get("val")
            names = set()
            for (r, p) in body.trace_operand(op):
                if r == ("arg", 2) and not p:
                    names.add("x")
                elif r == ("arg", 3) and not p:
                    names.add("y")
                elif r[0] == "call" and mir.last_seg(r[2] or "") == "get" and p == ("as Some", "0"):
                    t = body.term(r[1])
                    if any(pp and pp[-1] == "negated" for (_, pp) in body.trace_operand(t["args"][0])):
                        k = {("x" if rr == ("arg", 2) else "y") for (rr, pp) in body.trace_operand(t["args"][1]) if rr in (("arg", 2), ("arg", 3)) and not pp}
                        if len(k) == 1:
                            names.add("!" + next(iter(k)))
            return next(iter(names)) if len(names) == 1 else None
        seen = {}
        for b, blk in enumerate(body.blocks):
            for st in blk["stmts"]:
                if st["k"] == "assign" and st["rv"]["k"] == "binop" and st["rv"]["op"] in ("Eq", "Ne"):
                    l, r = who(st["rv"]["l"]), who(st["rv"]["r"])
                    key = None
                    if l in ("x", "y") and r in (0, 1):
                        key = (l, r)
                    elif r in ("x", "y") and l in (0, 1):
                        key = (r, l)
                    elif {l, r} == {"x", "y"}:
                        key = ("x", "y")
                    elif {l, r} in ({"!x", "y"}, {"!y", "x"}):
                        key = tuple(sorted((l, r)))
                    if key is None or key not in table:
                        continue
                    # follow the true edge through gotos to the returned value
                    if True:
                        if True:
                            for (x, s_) in sorted(mir.equality_edges(body, st)):
                                cur = s_
                                val = None
                                for _ in range(6):
                                    for st2 in body.blocks[cur]["stmts"]:
                                        if st2["k"] == "assign" and st2["place"]["l"] == 0 and st2["rv"]["k"] == "aggregate" and st2["rv"].get("variant") == "Some":
                                            o = st2["rv"]["ops"][0]
                                            w = who(o)
                                            val = ("const %s" % w) if o["k"] == "const" else w
                                    nx = body.succs(cur)
                                    if val is not None or len(nx) != 1 or body.term(cur)["k"] != "goto":
                                        break
                                    cur = nx[0]
                                seen[key] = (val, st["sp"])
        for key, want in table.items():
            if key not in seen:
                continue  # existence of the tests is U2 (C15); here only the returned value
            val, sp = seen[key]
            if val in want:
                res.ok({"function": mir.last_seg(fid), "case": "%s == %s" % key, "returns": val})
            else:
                res.bad(Finding("O5", fid, "case %s == %s returns %s" % (key[0], key[1], val),
                                "folding %s with %s == %s must return %s" % ("AND" if fid.endswith("and") else "XOR", key[0], key[1], " or ".join(sorted(want))), sp))
    if res.obligations < 6 and not res.findings:
        raise AnchorMissing("O5: found only %d folding cases in optimize_and / optimize_xor" % res.obligations)
    return res


def rule_o6(ctx):
    res = RuleResult("O6", "the negation bookkeeping records (operand <-> new gate) for xor-with-constant-1 only")
    fid = "circuit::CircuitBuilder::push_xor"
    body = ctx.body(fid)
    ins = []
    for b, t in body.calls():
        if mir.last_seg(mir.callee(t) or "") == "insert" and any(p and p[-1] == "negated" for (r, p) in body.trace_operand(t["args"][0])):
            def cls(op):
                out = set()
                for (r, p) in body.trace_operand(op):
                    if r == ("arg", 2) and not p:
                        out.add("x")
                    elif r == ("arg", 3) and not p:
                        out.add("y")
                    elif r[0] == "call" and mir.last_seg(r[2] or "") == "push_gate":
                        out.add("new")
                    else:
                        out.add("?")
                return next(iter(out)) if len(out) == 1 else "?"
            ins.append((b, cls(t["args"][1]), cls(t["args"][2]), t["sp"]))
    if (len(ins) < 4) and not res.findings:
        raise AnchorMissing("O6: expected four insertions into `negated` in push_xor, found %d" % len(ins))
    # which test guards each insert: x == 1 -> (y, new), (new, y);  y == 1 -> (x, new), (new, x)
    tests = {}
    for b, blk in enumerate(body.blocks):
        for st in blk["stmts"]:
            if st["k"] == "assign" and st["rv"]["k"] == "binop" and st["rv"]["op"] in ("Eq", "Ne"):
                l, r = st["rv"]["l"], st["rv"]["r"]
                c = r if r["k"] == "const" else (l if l["k"] == "const" else None)
                o = l if c is r else r
                if c is None or c.get("val") != 1:
                    continue
                who = {("x" if rr == ("arg", 2) else "y") for (rr, pp) in body.trace_operand(o) if rr in (("arg", 2), ("arg", 3)) and not pp}
                if len(who) != 1:
                    continue
                for e in mir.equality_edges(body, st):
                    tests.setdefault(next(iter(who)), set()).add(e)
    from .C02 import _dominated_by_edges
    for (b, k, v, sp) in ins:
        guard = None
        for who, edges in tests.items():
            if _dominated_by_edges(body, edges, b):
                guard = who
        other = {"x": "y", "y": "x"}.get(guard)
        if guard is None:
            res.bad(Finding("O6", fid, "negation recorded without the `== 1` test", "a pair is entered into `negated` although the new gate is not a NOT", sp))
        elif {k, v} == {other, "new"}:
            res.ok({"guard": "%s == 1" % guard, "records": "(%s, %s)" % (k, v)})
        else:
            res.bad(Finding("O6", fid, "wrong pair recorded under %s == 1" % guard,
                            "under %s == 1 the new gate is NOT %s; recorded (%s, %s)" % (guard, other, k, v), sp))
    return res


def rule_o7(ctx):
    """AND-absorption rewrites of push_and keep every input: (x1 & x2) & (y1 & y2) with a shared input, (x1 & x2) & y with y an input."""
    res = RuleResult("O7", "and-absorption rewrites of push_and still contain every input of both operands")
    fid = "circuit::CircuitBuilder::push_and"
    body = ctx.body(fid)

    def item(op):
        """symbolic items an operand may be: 'x', 'y', ('x', i), ('y', j) for inputs of the AND gate stored at x / y"""
        out = set()
        if op["k"] not in ("copy", "move"):
            return out
        for (r, p) in body.trace(op["place"], through={}):
            if r == ("arg", 2) and not p:
                out.add("x")
            elif r == ("arg", 3) and not p:
                out.add("y")
            elif r[0] == "call" and "as And" in p:
                k = p.index("as And")
                i = p[k + 1] if k + 1 < len(p) else None
                t = body.term(r[1])
                who = set()
                for a in t["args"][1:]:
                    for (r2, p2) in body.deep_sources(a, 3):
                        if r2 == ("arg", 2) and not p2:
                            who.add("x")
                        elif r2 == ("arg", 3) and not p2:
                            who.add("y")
                if len(who) == 1 and i in ("0", "1"):
                    out.add((next(iter(who)), i))
                else:
                    out.add("?")
            elif r[0] == "call" and "as Xor" in p:
                out.add("xor-input")
        return out

    def nsuccs(b):
        return [x for x in body.succs(b) if not body.blocks[x]["cleanup"]]
    # equality tests and the straight-line region behind their true edge
    guards = []  # (pair, set of blocks reached in a straight line from the true edge)
    for b, blk in enumerate(body.blocks):
        for st in blk["stmts"]:
            if st["k"] == "assign" and st["rv"]["k"] == "binop" and st["rv"]["op"] in ("Eq", "Ne"):
                l, r = item(st["rv"]["l"]), item(st["rv"]["r"])
                if len(l) != 1 or len(r) != 1:
                    continue
                if True:
                    if True:
                        for (x, s_) in sorted(mir.equality_edges(body, st)):
                            if body.blocks[s_]["cleanup"]:
                                continue
                            line = set()
                            cur = s_
                            while cur not in line:
                                line.add(cur)
                                nx = nsuccs(cur)
                                if len(nx) != 1 or (body.term(cur) and body.term(cur)["k"] == "switch"):
                                    break
                                cur = nx[0]
                            guards.append(((next(iter(l)), next(iter(r))), line, st["sp"]))
    n = 0
    for b, blk in enumerate(body.blocks):
        if blk["cleanup"]:
            continue
        rets, sp = set(), None
        for st in blk["stmts"]:
            if st["k"] == "assign" and st["place"]["l"] == 0 and not st["place"]["p"] and st["rv"]["k"] == "use":
                rets |= item(st["rv"]["op"])
                sp = st["sp"]
        t = blk["term"]
        if t and t["k"] == "call" and t["dest"]["l"] == 0 and not t["dest"]["p"] and mir.callee(t) == fid:
            for a in t["args"][1:]:
                rets |= item(a)
            sp = t["sp"]
        if not rets or "xor-input" in rets:
            continue
        reaching = [(pair, gsp) for (pair, line, gsp) in guards if b in line]
        if not reaching:
            continue
        n += 1
        for (pair, gsp) in reaching:
            cov = set(rets)
            for _ in range(3):
                for w in ("x", "y"):
                    if w in cov:
                        cov |= {(w, "0"), (w, "1")}
                if pair[0] in cov or pair[1] in cov:
                    cov |= set(pair)
                for w in ("x", "y"):
                    if (w, "0") in cov and (w, "1") in cov:
                        cov.add(w)
            if "?" in rets:
                res.bad(Finding("O7", fid, "rewrite with an operand of unknown origin", "cannot name the inputs this rewrite returns", sp))
            elif "x" in cov and "y" in cov:
                res.ok({"site": "line %d" % sp[1], "guard": "%s == %s" % pair, "returns": sorted(map(str, rets))})
            else:
                missing = [w for w in ("x", "y") if w not in cov]
                res.bad(Finding("O7", fid, "rewrite under %s == %s drops an input of %s" % (pair[0], pair[1], " and ".join(missing)),
                                "the rewritten conjunction %s no longer contains every input of the requested x & y when only %s == %s is known" % (sorted(map(str, rets)), pair[0], pair[1]), sp))
    if n < 4 and not res.findings:
        raise AnchorMissing("O7: expected the and-absorption rewrites of push_and (4 guarded returns on the pinned tree), found %d" % n)
    return res


def rule_o8(ctx):
    """The liveness sweep starts from every root and follows every operand (dropping one removes live gates)."""
    res = RuleResult("O8", "the dead-gate sweep marks from all outputs, all panic-record fields and both operands of both gate kinds")
    fid = "circuit::CircuitBuilder::remove_unused_gates"
    body = ctx.body(fid)
    pops = [(b, t) for b, t in body.calls() if mir.last_seg(mir.callee(t) or "") == "pop"]
    if len(pops) != 1:
        raise AnchorMissing("O8: remove_unused_gates no longer has one worklist pop (found %d)" % len(pops))
    pb, pt = pops[0]
    wl = {(r, tuple(p)) for (r, p) in body.trace_operand(pt["args"][0])}
    lp = [l for l in body.loops() if pb in l["body"]]
    if not lp:
        raise AnchorMissing("O8: the worklist is not popped in a loop")
    lp = min(lp, key=lambda l: len(l["body"]))
    fed = set()
    inloop = set()
    thru = dict(mir.TRANSPARENT)
    thru["std::iter::Iterator::filter"] = 0
    for b, t in body.calls():
        if mir.last_seg(mir.callee(t) or "") in ("push", "extend", "extend_from_slice", "append") and len(t["args"]) >= 2 and wl & {(r, tuple(p)) for (r, p) in body.trace_operand(t["args"][0])}:
            for (r, p) in body.trace_operand(t["args"][1], through=thru):
                (inloop if b in lp["body"] else fed).add((r, tuple(p)))
    # roots may be filtered only by `wire >= shift` (constants and inputs are skipped when popped anyway)
    for b, t in body.calls():
        if t["func"].get("declared") == "std::iter::Iterator::filter" or mir.callee(t) == "std::iter::Iterator::filter":
            ok = False
            why = "the predicate is not a single comparison `wire >= shift`"
            for (r, p) in body.trace_operand(t["args"][1], through={}):
                if r[0] == "agg":
                    cl = body.blocks[r[1]]["stmts"][r[2]]["rv"].get("closure")
                    if cl:
                        cb = ctx.body(cl)
                        for blk in cb.blocks:
                            for st in blk["stmts"]:
                                if st["k"] == "assign" and st["place"]["l"] == 0 and st["rv"]["k"] == "binop":
                                    l_item = any(rr == ("arg", 2) for (rr, pp) in cb.trace_operand(st["rv"]["l"]))
                                    r_item = any(rr == ("arg", 2) for (rr, pp) in cb.trace_operand(st["rv"]["r"]))
                                    other = st["rv"]["r"] if l_item else st["rv"]["l"]
                                    is_shift = any(pp and pp[-1] == "shift" for (f2, rr, pp) in ctx.lifted_trace(cb, other))
                                    op = st["rv"]["op"]
                                    if is_shift and ((l_item and op == "Ge") or (r_item and op == "Le")):
                                        ok = True
                                    elif is_shift:
                                        why = "the predicate `wire %s shift` also drops the first gate (index == shift)" % op if (l_item and op == "Gt") or (r_item and op == "Lt") else "the predicate compares with %s" % op
            if ok:
                res.ok({"site": "filter at line %d" % t["sp"][1], "verdict": "roots filtered by `wire >= shift` only"})
            else:
                res.bad(Finding("O8", fid, "roots of the sweep are filtered", "wires are kept off the worklist by a filter: %s" % why, t["sp"]))
    # roots: output gates (the argument the worklist is cloned from) and every field of the panic record
    if any(r == ("arg", 2) for (r, p) in wl):
        res.ok({"root": "output_gates", "verdict": "the worklist starts as a copy of the outputs"})
    else:
        res.bad(Finding("O8", fid, "outputs are not roots of the sweep", "the worklist does not start from the output gates", body.fn["sp"]))
    rec = ctx.adt("circuit::PanicResult")
    for f in rec["variants"][0]["fields"]:
        if any(r == ("arg", 1) and p[-1:] == (f["name"],) and "panic_gates" in p for (r, p) in fed):
            res.ok({"root": "panic record field %s" % f["name"], "verdict": "on the worklist before the loop"})
        else:
            res.bad(Finding("O8", fid, "panic record field %s is not a root of the sweep" % f["name"],
                            "gates that only feed this field of the panic record are removed as dead: the reported panic is wrong or an index points past the end", body.fn["sp"]))
    # an operand is followed whenever it is a gate that is not marked yet: no test on the *other* operand may guard its push
    for b, t in body.calls():
        if b in lp["body"] and mir.last_seg(mir.callee(t) or "") == "push" and len(t["args"]) == 2 and wl & {(r, tuple(p)) for (r, p) in body.trace_operand(t["args"][0])}:
            mine = {p[-1] for (r, p) in body.trace_operand(t["args"][1]) if len(p) >= 2 and p[-2].startswith("as ")}
            for x in lp["body"]:
                tt = body.term(x)
                if tt and tt["k"] == "switch" and tt["discr"]["k"] in ("copy", "move") and body.dominates(x, b) and x != b:
                    # control dependence within one iteration: some successor cannot reach the push without going round the loop
                    def it_succ(z):
                        return [q for q in body.succs(z) if q in lp["body"] and q != lp["header"] and not body.blocks[q]["cleanup"]]
                    if all(b == q or body.path(q, [b], succ=it_succ) for q in it_succ(x)) and len(it_succ(x)) == len([q for q in body.succs(x) if not body.blocks[q]["cleanup"]]):
                        continue
                    other = {p[-1] for (r, p) in body.deep_sources(tt["discr"], 4) if len(p) >= 2 and p[-2].startswith("as ") and r == ("arg", 1)}
                    if other - mine:
                        res.bad(Finding("O8", fid, "operand %s is followed only under a test of operand %s" % ("/".join(sorted(mine)), "/".join(sorted(other - mine))),
                                        "whether the sweep continues into an operand must depend on that operand alone (is it a gate, is it marked)", tt["sp"]))
    gate = ctx.adt("circuit::BuilderGate")
    for v in gate["variants"]:
        for i, f in enumerate(v["fields"]):
            if any(len(p) >= 2 and p[-2] == "as " + v["name"] and p[-1] == str(i) for (r, p) in inloop):
                res.ok({"operand": "%s.%d" % (v["name"], i), "verdict": "pushed onto the worklist"})
            else:
                res.bad(Finding("O8", fid, "operand %d of %s gates is never followed" % (i, v["name"]),
                                "the sweep does not continue into this operand: gates feeding a live gate are removed", body.term(pb)["sp"]))
    return res


def rule_o9(ctx):
    """x & (y1 ^ y2) -> (x & y1) ^ (x & y2): each looked-up conjunction pairs one input of the XOR gate with the *other* operand."""
    res = RuleResult("O9", "and-over-xor distribution looks up (other operand & xor input 0) and (other operand & xor input 1)")
    fid = "circuit::CircuitBuilder::push_and"
    body = ctx.body(fid)

    def gate_owner(index_bb):
        """which argument's gate was read by this `self.gates[..]` call"""
        who = set()
        t = body.term(index_bb)
        for a in t["args"][1:]:
            for (r, p) in body.deep_sources(a, 3):
                if r == ("arg", 2) and not p:
                    who.add("x")
                elif r == ("arg", 3) and not p:
                    who.add("y")
        return next(iter(who)) if len(who) == 1 else None
    n = 0
    for b, t in body.calls():
        if mir.last_seg(mir.callee(t) or "") != "push_xor" or body.blocks[b]["cleanup"]:
            continue
        def classify(o):
            c = "?"
            for (r, p) in body.trace_operand(o, through={}):
                if r == ("arg", 2) and not p:
                    c = "x"
                elif r == ("arg", 3) and not p:
                    c = "y"
                elif r[0] == "call" and "as Xor" in p:
                    c = ("xor", gate_owner(r[1]), p[p.index("as Xor") + 1])
            return c
        keys = []       # (variant, [classified operand, ..])
        for a in t["args"][1:3]:
            for (r, p) in body.trace_operand(a):
                if r[0] == "call" and mir.last_seg(r[2] or "") == "get_cached":
                    for (r2, p2) in body.trace_operand(body.term(r[1])["args"][1], through={}):
                        if r2[0] == "agg":
                            st = body.blocks[r2[1]]["stmts"][r2[2]]
                            keys.append((st["rv"]["variant"], [classify(o) for o in st["rv"]["ops"]]))
                elif r[0] == "call" and ctx.has_fn(str(r[2])) and str(r[2]).startswith("circuit::") and p and p[-1].isdigit():
                    # a helper of the builder that does the look-ups: read them off its body, in terms of its parameters
                    hb = ctx.body(str(r[2]))
                    looked = []
                    for hbb, ht in hb.calls():
                        if mir.last_seg(mir.callee(ht) or "") == "get_cached":
                            for (r2, p2) in hb.trace_operand(ht["args"][1], through={}):
                                if r2[0] == "agg":
                                    hst = hb.blocks[r2[1]]["stmts"][r2[2]]
                                    params = []
                                    for o in hst["rv"]["ops"]:
                                        ps = [rr[1] for (rr, pp) in hb.trace_operand(o, through={}) if rr[0] == "arg" and not pp]
                                        params.append(ps[0] if len(ps) == 1 else None)
                                    looked.append((hst["rv"]["variant"], params))
                    k = int(p[-1])
                    if k < len(looked) and all(x is not None for x in looked[k][1]):
                        call = body.term(r[1])
                        keys.append((looked[k][0], [classify(call["args"][i - 1]) for i in looked[k][1]]))
        if len(keys) != 2:
            continue
        n += 1
        desc = keys
        ok = all(v == "And" for v, _ in desc)
        inputs = set()
        for v, parts in desc:
            xs = [c for c in parts if isinstance(c, tuple)]
            plain = [c for c in parts if not isinstance(c, tuple)]
            if len(xs) != 1 or len(plain) != 1 or xs[0][1] is None or plain[0] not in ("x", "y") or plain[0] == xs[0][1]:
                ok = False
            else:
                inputs.add((xs[0][1], xs[0][2]))
        if ok and len(inputs) == 2 and len({o for o, i in inputs}) == 1 and {i for o, i in inputs} == {"0", "1"}:
            res.ok({"site": "line %d" % t["sp"][1], "verdict": "xor(cached(other & in0), cached(other & in1))"})
        else:
            res.bad(Finding("O9", fid, "distribution of AND over XOR pairs the wrong wires",
                            "for x & (y1 ^ y2) the two looked-up conjunctions must be (x & y1) and (x & y2) - the other operand with each input of the XOR gate; found %s" % desc, t["sp"]))
    if n < 2 and not res.findings:
        raise AnchorMissing("O9: expected the two mirrored and-over-xor rewrites of push_and, found %d" % n)
    return res


def rule_o10(ctx):
    """(a1 & a2) ^ (b1 & b2) with a1 == b1  ->  a1 & (a2 ^ b2), tried for all four ways of naming the inputs."""
    res = RuleResult("O10", "and-factoring rewrite of push_xor: the four input pairings are complete and the rewritten gate is shared & (rest ^ rest)")
    fid = "circuit::CircuitBuilder::push_xor"
    body = ctx.body(fid)
    arrays = []
    for b, blk in enumerate(body.blocks):
        for i, st in enumerate(blk["stmts"]):
            if st["k"] == "assign" and st["rv"]["k"] == "aggregate" and st["rv"].get("akind") == "array" and len(st["rv"]["ops"]) == 4:
                tuples = []
                for o in st["rv"]["ops"]:
                    for (r, p) in body.trace_operand(o, through={}):
                        if r[0] == "agg":
                            tp = body.blocks[r[1]]["stmts"][r[2]]["rv"]
                            if tp.get("akind") == "tuple" and len(tp["ops"]) == 4:
                                row = []
                                for oo in tp["ops"]:
                                    c = None
                                    for (r2, p2) in body.trace_operand(oo, through={}):
                                        if r2[0] == "call" and "as And" in p2:
                                            c = (r2[1], p2[p2.index("as And") + 1])
                                    row.append(c)
                                tuples.append(tuple(row))
                if len(tuples) == 4:
                    arrays.append((b, i, st, tuples))
    if len(arrays) < 2 and not res.findings:
        raise AnchorMissing("O10: expected the two pairing tables of the and-factoring rewrite in push_xor, found %d" % len(arrays))
    for (b, i, st, tuples) in arrays:
        gates = sorted({c[0] for row in tuples for c in row if c})
        ok = len(gates) == 2 and all(all(row) for row in tuples)
        combos = set()
        if ok:
            gx, gy = gates
            for row in tuples:
                (a1, a2, b1, b2) = row
                if not (a1[0] == a2[0] == gx and b1[0] == b2[0] == gy and {a1[1], a2[1]} == {"0", "1"} and {b1[1], b2[1]} == {"0", "1"}):
                    ok = False
                combos.add((a1[1], b1[1]))
        if ok and len(combos) == 4:
            res.ok({"table": "line %d" % st["sp"][1], "verdict": "(x_i, x_other, y_j, y_other) for all four (i, j)"})
        else:
            res.bad(Finding("O10", fid, "pairing table of the and-factoring rewrite", "each row must be (an input of x, the other input of x, an input of y, the other input of y) and the four rows must cover all pairings; found %s" % (tuples,), st["sp"]))
    # the use of a row: test .0 == .2, inner gate Xor(.1, .3), outer gate And(.0, inner)

    def fld(op):
        out = set()
        for (r, p) in body.trace_operand(op, through={}):
            if r[0] == "call" and mir.last_seg(r[2] or "") == "next" and p and p[-1].isdigit():
                out.add((r[1], p[-1]))
        return out
    n = 0
    for b, blk in enumerate(body.blocks):
        for st in blk["stmts"]:
            if st["k"] == "assign" and st["rv"]["k"] == "aggregate" and st["rv"].get("adt") == "circuit::BuilderGate" and st["rv"]["variant"] == "And":
                ops = st["rv"]["ops"]
                f0 = fld(ops[0])
                inner = None
                for (r, p) in body.trace_operand(ops[1]):
                    if r[0] == "call" and mir.last_seg(r[2] or "") in ("get_cached", "push_gate"):
                        for (r2, p2) in body.trace_operand(body.term(r[1])["args"][1], through={}):
                            if r2[0] == "agg":
                                inner = body.blocks[r2[1]]["stmts"][r2[2]]["rv"]
                if not f0 or inner is None:
                    continue
                n += 1
                it = next(iter(f0))[0]
                i_ops = [fld(o) for o in inner["ops"]]
                eq_ok = False
                for b2, blk2 in enumerate(body.blocks):
                    for st2 in blk2["stmts"]:
                        if st2["k"] == "assign" and st2["rv"]["k"] == "binop" and st2["rv"]["op"] in ("Eq", "Ne"):
                            if {frozenset(fld(st2["rv"]["l"])), frozenset(fld(st2["rv"]["r"]))} == {frozenset({(it, "0")}), frozenset({(it, "2")})}:
                                from .C02 import _dominated_by_edges
                                if _dominated_by_edges(body, mir.equality_edges(body, st2), b):
                                    eq_ok = True
                if f0 == {(it, "0")} and inner.get("variant") == "Xor" and {frozenset(x) for x in i_ops} == {frozenset({(it, "1")}), frozenset({(it, "3")})} and eq_ok:
                    res.ok({"site": "line %d" % st["sp"][1], "verdict": "under row.0 == row.2: And(row.0, Xor(row.1, row.3))"})
                else:
                    res.bad(Finding("O10", fid, "and-factoring builds the wrong gate", "under a1 == b1 the rewritten gate must be And(a1, Xor(a2, b2)); found And(%s, %s(%s)) guarded by a1 == b1: %s" % (sorted(f0), inner.get("variant"), [sorted(x) for x in i_ops], eq_ok), st["sp"]))
    if n < 2 and not res.findings:
        raise AnchorMissing("O10: expected the two And(shared, Xor(rest, rest)) constructions in push_xor, found %d" % n)
    return res


def _xref(res, rule, other):
    for x in other.findings:
        res.bad(Finding(rule, x.fn, x.site, x.message, x.span))
    return not other.findings


def rule_o11(ctx):
    """Cross-reference: the merge of two panic records never depends on wire identity (C02-P5) - with de-duplication on, wires coincide
    that are distinct gates with it off, so an identity shortcut makes the two configurations compute different outputs."""
    from . import C02
    res = RuleResult("O11", "panic records are merged field by field on every path, whatever wires coincide (cross-reference to C02-P5)")
    if _xref(res, "O11", C02.rule_p5(ctx)):
        res.ok({"verdict": "C02-P5 holds: mux_uncached_panic has no shortcut around the per-field merge"})
    return res


def rule_o12(ctx):
    """Cross-reference: shortcuts inside the one-bit primitives that depend on the cache / the negation table return the same function (C01-V12)."""
    from . import C01
    res = RuleResult("O12", "one-bit primitives compute one Boolean function whatever the cache contains (cross-reference to C01-V12)")
    if _xref(res, "O12", C01.rule_v12(ctx)):
        res.ok({"verdict": "C01-V12 holds for not / or / eq / mux / adder / multiplier cell / conditional swap"})
    return res


def run(ctx):
    return ctx.run_rules([rule_o1, rule_o2, rule_o3, rule_o4, rule_o5, rule_o6, rule_o7, rule_o8, rule_o9, rule_o10, rule_o11, rule_o12])
