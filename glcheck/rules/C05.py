"""C05 - accepted programs compile to circuits whose I/O shape matches their types (shape clauses only).

S1  parameter wiring: every parameter (every element of a single array parameter) registers one input party whose bit count is
    size_in_bits of its type, and is bound to exactly that many consecutive fresh wires, numbered from 2
S2  literal inference keeps types and wires together: constrain_type pushes the expected type into every child that shares the
    node's type (operands, branches, clause bodies, block tail, literal elements) before it overwrites the node's own type
S7  cross-reference: forward references between const definitions are rejected (C17-T9)
S6  no integer logarithm (panics on 0) of a size in compile.rs without a dominating zero test / clamp
S5  (removed: since the width-adjusting wrapper of b5e5554 every number has the wires of its type whatever an arm returns; the rule would only fire on harmless edits)
S4  cross-reference: rows of a join are truncated to their own element width (C13-J6), else the value is wider than its type
S3  the circuit is built from the wires of the function body: outputs = panic record ++ wires returned by the body (C02-P5 for the
    record), and the input parties handed to the builder are the ones collected in S1
S9  array reads take the element stride from the array's own type, not from the type the result is used with
S10 either check_or_constrain_* never re-types identifiers / elements / fields, or the lowering adjusts every number to its type's width
S8  cross-reference: array outputs are decoded with the element count of the type (C09-L7)
S11 cross-reference: resolved const definitions are visible to later ones (C12-K6)
S13 the one-node re-typers check_or_constrain_* are only the leaf case of constrain_type (operands of an untyped compound expression are re-typed too)
S14 inside a collection an unspecified number type is only re-typed in place to a number type of the same (32-bit) width
S15 zero-sized types and empty arrays: no division by a type width, no trapping `element count - constant` in the lowering
S16 a function whose parameters have no bits is refused before the circuit is built (`some input bit`)
S17 a re-typed match / if / array literal takes over the type of its branches / elements only when all of their types compared equal
S19 the split of a single array parameter into per-element parties covers all three array type variants
S20 the size of an array type is not computed with trapping arithmetic on a number of elements the program text chooses (known findings)
S21 a difference in a size expression the type checker synthesises cannot underflow (known finding: join of two empty arrays)
S18 the Range arm of constrain_type re-types an untyped range for signed as well as for unsigned expected element types
S12 the number type stored in a Range node (which the lowering sizes the elements with) follows the re-typing of the range
"""
from .. import mir, protocol
from ..core import AnchorMissing, Finding, RuleResult
from . import C12, C14

PROPERTY = "C05"
TECHNIQUE = ("operand-origin and loop-discipline checks on the MIR of the parameter wiring; variant-pruned must-pass-through table for the "
             "recursive type constraint; both are structural necessary conditions, not the checker => compiler invariant itself")
LEVEL_TEXT = (
    "The property as a whole (every accepted program compiles without an internal panic to a valid circuit) relates the type checker "
    "and the compiler and is NOT decided. Decided are the clauses whose truth is in the shape of the code: (S1) in "
    "compile_with_constants each parameter - or each element when the only parameter is an array - pushes one entry "
    "size_in_bits_for_defs(its type) onto input_gates, its wires are produced by a loop 0..that size which pushes the running wire "
    "counter and increments it on every path, the counter starts at 2 (after the two constant wires), and the vector is bound under "
    "the parameter's own name; (S2) for every expression kind whose children share the node's type (array / tuple literals, repeat "
    "literals, unary operators, arithmetic and bitwise operators, the left operand of shifts, if branches, match clause bodies, the "
    "tail of a block) constrain_type calls itself on those children, with the expected (element) type, on every path to its "
    "accepting exit - otherwise the node's type says u16 while its literals are still lowered as 32-bit values and the circuit has "
    "the wrong output width; (S3) the builder receives the collected input parties, and build() is given exactly the wires "
    "returned by the function body. The 161 panic bits are C02-P5, the literal layout is C09, the join row widths are C13-J6."
    " Also decided since the hunter rounds: the number type stored in a Range node follows re-typing (S12); the one-node re-typers are only the leaf case of constrain_type (S13); inside a collection an unspecified number type is re-typed in place only to a 32-bit type (S14); no division by a type width or element count and no trapping `count - c` in the lowering (S15); a function without any input bit is refused before the circuit is built (S16); a re-typed match / if / array literal adopts its branches' / elements' type only when they all agree (S17); an untyped range can be re-typed for signed as well as unsigned element types (S18). S19: the split of a single array parameter into one party per element covers all three spellings of an array type. Two structural clauses of 'compiling completes without an internal panic': S20 - the size of an array type is not computed with trapping arithmetic on a number of elements the program text chooses (three known findings: array sizes are unbounded); S21 - a difference in a size expression that the type checker writes itself cannot underflow (known finding: the type of `join` of two empty arrays).")
LEVEL_NOTE = ("Trusted: rustc MIR. The S2 table (which children share the node's type) was filled by reading the language documentation; "
              "it names children by their position in the ExprEnum variant.")
EXPLANATION = "Functions analysed: TypedProgram::compile_with_constants (parameter wiring, builder construction, build call), check::constrain_type."
NOT_DECIDED = ("that every accepted program compiles without an internal panic; that unify / check_or_constrain_* assign the documented types; "
               "validity of the built circuit; decoding of the outputs")
ASSUMPTIONS = ["S2: an expression kind not in the table has no child that shares its type (read from the AST definition)"]

SELF1 = ("arg", 1)
INNER = (SELF1, ("inner",))
EXPECTED = (("arg", 2), ())


def rule_s1(ctx):
    res = RuleResult("S1", "each parameter registers one party of size_in_bits(type) and gets that many fresh consecutive wires")
    f, body = C12._cwc(ctx)
    news = [(b, t) for b, t in body.calls() if mir.last_seg(mir.callee(t) or "") == "new" and "CircuitBuilder" in (mir.callee(t) or "")]
    if len(news) != 1:
        raise AnchorMissing("S1: expected one CircuitBuilder::new in compile_with_constants, found %d" % len(news))
    nb, nt = news[0]
    parties = {(r, tuple(p)) for (r, p) in body.trace_operand(nt["args"][0])}
    regs = [(b, t) for b, t in body.calls() if mir.last_seg(mir.callee(t) or "") == "push" and {(r, tuple(p)) for (r, p) in body.trace_operand(t["args"][0])} == parties]
    if len(regs) < 2 and not res.findings:
        raise AnchorMissing("S1: expected the two party registrations (single array parameter / one per parameter), found %d" % len(regs))
    counters = set()
    for rb, rt in regs:
        name = "party registration at line %d" % rt["sp"][1]
        size_calls = {r[1] for (r, p) in body.trace_operand(rt["args"][1]) if r[0] == "call" and mir.last_seg(r[2] or "") == "size_in_bits_for_defs"}
        if len(size_calls) != 1 or len(body.trace_operand(rt["args"][1])) != 1:
            res.bad(Finding("S1", f["id"], "%s: party size is not size_in_bits of a type" % name, "the number of input bits of a party must be size_in_bits_for_defs of the parameter (element) type", rt["sp"]))
            continue
        sc = next(iter(size_calls))
        st_ = body.term(sc)
        recv = body.trace_operand(st_["args"][0])
        is_param_ty = all(("params" in p and p[-1:] == ("ty",)) or (r[0] == "agg") for (r, p) in recv)
        loops = [lp for lp in body.loops() if rb in lp["body"]]
        if not loops:
            res.bad(Finding("S1", f["id"], "%s: not inside the parameter loop" % name, "cannot see one registration per parameter", rt["sp"]))
            continue
        lp = min(loops, key=lambda l: len(l["body"]))
        if not is_param_ty:
            res.bad(Finding("S1", f["id"], "%s: size of something that is not the parameter's type" % name, "the size is computed from %s" % sorted(recv)[:2], st_["sp"]))
            continue

        def inloop(b, lp=lp):
            return [x for x in body.succs(b) if x in lp["body"] and not body.blocks[x]["cleanup"]]
        latches = [b for b in lp["body"] if lp["header"] in body.succs(b)]
        if body.path(lp["header"], latches, blocked={rb}, succ=inloop):
            res.bad(Finding("S1", f["id"], "%s: a parameter can be skipped" % name, "an iteration of the parameter loop can end without registering a party", rt["sp"]))
            continue
        # the wires: an inner loop 0..size pushing the counter
        inner = [l for l in body.loops() if l["body"] < lp["body"]]
        wire_pushes = []
        for il in inner:
            for b in il["body"]:
                t = body.term(b)
                if t and t["k"] == "call" and mir.last_seg(mir.callee(t) or "") == "push" and "Vec" in (mir.callee(t) or ""):
                    wire_pushes.append((il, b, t))
        if len(wire_pushes) != 1:
            res.bad(Finding("S1", f["id"], "%s: wires are not produced by one inner loop" % name, "expected one loop pushing the wires of the parameter, found %d" % len(wire_pushes), rt["sp"]))
            continue
        il, wb, wt = wire_pushes[0]
        # bound of the inner loop = the same size
        bound_ok = False
        for blk in body.blocks:
            for st in blk["stmts"]:
                if st["k"] == "assign" and st["rv"]["k"] == "aggregate" and "Range" in (st["rv"].get("adt") or "") and len(st["rv"]["ops"]) == 2:
                    if any(r[0] == "call" and r[1] == sc for (r, p) in body.trace_operand(st["rv"]["ops"][1])) and st["rv"]["ops"][0]["k"] == "const" and st["rv"]["ops"][0].get("val") == 0:
                        # this range must be the one iterated by the inner loop
                        nxt = [x for x in il["body"] if body.term(x) and body.term(x)["k"] == "call" and mir.last_seg(mir.callee(body.term(x)) or "") == "next"]
                        for x in nxt:
                            if any(r[0] == "agg" and body.blocks[r[1]]["stmts"][r[2]] is st for (r, p) in body.trace_operand(body.term(x)["args"][0])):
                                bound_ok = True
        cnt = mir.base_local(body, wt["args"][1])
        bumps = {b for (b, other) in mir.add_defs(body, cnt) if b in il["body"] and other["k"] == "const" and other.get("val") == 1}

        def in_inner(b, il=il):
            return [x for x in body.succs(b) if x in il["body"] and not body.blocks[x]["cleanup"]]
        il_latches = [b for b in il["body"] if il["header"] in body.succs(b)]
        skip = body.path(il["header"], il_latches, blocked=bumps, succ=in_inner) if bumps else [il["header"]]
        skip2 = body.path(il["header"], il_latches, blocked={wb}, succ=in_inner)
        other_bumps = [b for (b, other) in mir.add_defs(body, cnt) if b not in bumps and b in lp["body"]]
        if not bound_ok:
            res.bad(Finding("S1", f["id"], "%s: number of wires differs from the registered size" % name,
                            "the loop that produces the parameter's wires does not run 0..size_in_bits of the same type", wt["sp"]))
        elif skip or skip2 or other_bumps:
            res.bad(Finding("S1", f["id"], "%s: wires are not consecutive fresh numbers" % name,
                            "every iteration must push the running wire number and increment it by one (blocks %s)" % (skip or skip2 or other_bumps), wt["sp"]))
        else:
            counters.add(cnt)
            res.ok({"site": name, "verdict": "party size = size_in_bits(type); wires = size consecutive counter values"})
        # bound under the parameter's name
        wires_root = {(r, tuple(p)) for (r, p) in body.trace_operand(wt["args"][0])}
        lets = [(b, t) for b, t in body.calls() if mir.callee(t) == C14.ENV_LET and {(r, tuple(p)) for (r, p) in body.trace_operand(t["args"][2])} == wires_root]
        # or staged: (param.name, wires) pushed into a list, every item of which is bound later
        staged = False
        for pb, pt in body.calls():
            if mir.last_seg(mir.callee(pt) or "") != "push" or len(pt["args"]) < 2 or pt["args"][1]["k"] not in ("copy", "move"):
                continue
            for (r, p) in body.trace_operand(pt["args"][1]):
                if r[0] != "agg" or p:
                    continue
                ops = body.blocks[r[1]]["stmts"][r[2]]["rv"]["ops"]
                if len(ops) == 2 and all(pp[-1:] == ("name",) for (_, pp) in body.trace_operand(ops[0])) and \
                        {(rr, tuple(pp)) for (rr, pp) in body.trace_operand(ops[1])} == wires_root:
                    lst = {rr for (rr, pp) in body.trace_operand(pt["args"][0]) if not pp}
                    for lb, lt in body.calls():
                        if mir.callee(lt) == C14.ENV_LET and lst and \
                                {(rr, tuple(pp)) for (rr, pp) in body.trace_operand(lt["args"][1])} == {(x, ("[]", "0")) for x in lst} and \
                                {(rr, tuple(pp)) for (rr, pp) in body.trace_operand(lt["args"][2])} == {(x, ("[]", "1")) for x in lst}:
                            staged = True
        if staged:
            res.ok({"site": name, "verdict": "wires are listed with the parameter's name and every listed pair is bound (name, wires)"})
        elif lets and all(any(p[-1:] == ("name",) for (r, p) in body.trace_operand(t["args"][1])) for _, t in lets):
            res.ok({"site": name, "verdict": "wires are bound under the parameter's name"})
        else:
            res.bad(Finding("S1", f["id"], "%s: wires are not bound under the parameter's name" % name, "the produced wires never reach let_in_current_scope(param.name, wires)", wt["sp"]))
    if len(counters) == 1:
        cnt = next(iter(counters))
        inits = [d for d in body.defs().get(cnt, []) if d[0] == "assign" and d[3]["rv"]["k"] == "use" and d[3]["rv"]["op"]["k"] == "const"]
        if len(inits) == 1 and inits[0][3]["rv"]["op"].get("val") == 2:
            res.ok({"verdict": "one wire counter for all parameters, starting at 2 (after the constant wires)"})
        else:
            res.bad(Finding("S1", f["id"], "wire numbering does not start at 2", "input wires must be numbered from 2: wires 0 and 1 are the constants of the builder", f["sp"]))
    elif counters:
        res.bad(Finding("S1", f["id"], "parameters are numbered from different counters", "all parameters must take their wires from one running counter", f["sp"]))
    return res


# (expression kind, expected-type kinds or None, extra assumption or None, children that share the node's type, every-path?)
S2_TABLE = [
    ("ArrayLiteral", ("Array", "ArrayConst"), None, ["0"], True),
    ("ArrayRepeatLiteral", ("Array", "ArrayConst"), None, ["0"], True),
    ("ArrayRepeatLiteralConst", ("Array", "ArrayConst"), None, ["0"], True),
    ("TupleLiteral", ("Tuple",), None, ["0"], False),   # guarded by equal lengths; a mismatch is reported by the caller's comparison
    ("Match", None, None, ["1"], True),
    ("If", None, None, ["1", "2"], True),
    ("Block", None, None, ["block-tail"], False),       # only when the block ends in an expression statement
]
# operands of number operators: their width no longer decides about the circuit's shape (every number is adjusted to the width of
# its type, b5e5554), but an operand that is not re-typed is *computed* in 32 bits: C03-A12 checks these rows
S2_OPERATOR_TABLE = [("UnaryOp", None, None, ["1"], True)] + \
    [("Op", None, op, ["1", "2"], True) for op in ("Add", "Sub", "Mul", "Div", "Mod", "BitAnd", "BitXor", "BitOr")] + \
    [("Op", None, op, ["1"], True) for op in ("ShiftLeft", "ShiftRight")]


I32_TABLE = [(k, None, None, ["0"], True) for k in ("ArrayLiteral", "TupleLiteral", "ArrayRepeatLiteral", "ArrayRepeatLiteralConst")]


def rule_s2(ctx):
    res = RuleResult("S2", "constrain_type / constrain_to_i32 reach every child that shares the node's type")
    _recursion_table(ctx, res, "check::constrain_type", S2_TABLE, True)
    i32 = [f["id"] for f in ctx.facts["fns"] if f["id"].endswith("::constrain_to_i32") and "mir" in f]
    if len(i32) != 1:
        raise AnchorMissing("S2: expected one constrain_to_i32 (defaulting of unconstrained literals in `let mut`), found %r" % i32)
    _recursion_table(ctx, res, i32[0], I32_TABLE, False)
    return res


def _recursion_table(ctx, res, fid, table, has_expected):
    body = ctx.body(fid)
    from .C17 import ok_exits
    oks = ok_exits(body)
    if not oks:
        raise AnchorMissing("S2: constrain_type has no accepting exit")
    recs = [(b, t) for b, t in body.calls() if mir.callee(t) == fid]
    variants = {v["name"] for v in ctx.adt("ast::ExprEnum")["variants"]}
    for (kind, exp_kinds, op, children, every_path) in table:
        if kind not in variants:
            raise AnchorMissing("S2: ExprEnum::%s no longer exists (table out of date)" % kind)
        for ek in (exp_kinds or (None,)):
            assume = {INNER: kind}
            if ek:
                assume[EXPECTED] = ek
            if op:
                assume[(SELF1, ("inner", "as Op", "0"))] = op
            succ = body.pruned_succ(assume)
            region = body.reachable([0], succ=succ)
            for ch in children:
                mine = set()
                for b, t in recs:
                    if b not in region:
                        continue
                    for (r, p) in body.trace_operand(t["args"][0]):
                        if ch == "block-tail":
                            if r[0] == "call" and mir.last_seg(r[2] or "") in ("last_mut", "last") and "as Expr" in p:
                                mine.add(b)
                        elif r == SELF1 and len(p) >= 3 and p[0] == "inner" and p[1] == "as " + kind and p[2] == ch:
                            mine.add(b)
                label = "%s: %s%s%s child %s" % (mir.last_seg(fid), kind, "(%s)" % op if op else "", " against %s" % ek if ek else "", ch)
                if not mine:
                    res.bad(Finding("S2", fid, "%s is not constrained" % label,
                                    "constrain_type does not call itself on this child: the node takes the expected type while literals inside the child keep their default width", body.fn["sp"]))
                    continue
                # the type handed down derives from the expected type
                if has_expected and not all(any(r == ("arg", 2) for (r, p) in body.trace_operand(body.term(b)["args"][1])) for b in mine):
                    res.bad(Finding("S2", fid, "%s is constrained to something other than the expected type" % label, "the type pushed into the child does not derive from `expected`", body.term(sorted(mine)[0])["sp"]))
                    continue
                if every_path:
                    nsucc = lambda b, succ=succ: [x for x in succ(b) if not body.blocks[x]["cleanup"]]
                    # a child that is a collection is constrained in a loop: the loop must lie on every path and every
                    # iteration must constrain its element
                    via = set(mine)
                    w = None
                    for m in mine:
                        lps = [l for l in body.loops() if m in l["body"]]
                        if lps:
                            lp = min(lps, key=lambda l: len(l["body"]))
                            via.add(lp["header"])
                            latches = [x for x in lp["body"] if lp["header"] in body.succs(x)]
                            w = w or body.path(lp["header"], latches, blocked={m}, succ=lambda b, lp=lp: [x for x in nsucc(b) if x in lp["body"]])
                    w = w or body.path(0, oks, blocked=via, succ=nsucc)
                    if w:
                        res.bad(Finding("S2", fid, "%s can be skipped" % label, "a path reaches the accepting exit without constraining this child (blocks %s)" % w[:12], body.term(sorted(mine)[0])["sp"]))
                        continue
                res.ok({"node": label, "verdict": "constrained recursively" + (" on every accepting path" if every_path else "")})


def rule_s3(ctx):
    res = RuleResult("S3", "the circuit is built from the collected parties and from the wires the function body returns")
    f, body = C12._cwc(ctx)
    builds = [(b, t) for b, t in body.calls() if mir.last_seg(mir.callee(t) or "") == "build" and "CircuitBuilder" in (mir.callee(t) or "")]
    blocks = [(b, t) for b, t in body.calls() if mir.last_seg(mir.callee(t) or "") == "compile_block"]
    if len(builds) != 1 or len(blocks) != 1:
        raise AnchorMissing("S3: expected one compile_block and one build in compile_with_constants (%d, %d)" % (len(blocks), len(builds)))
    bb, bt = builds[0]
    cb, ct = blocks[0]
    outs = body.trace_operand(bt["args"][1])
    if len(outs) == 1 and all(r[0] == "call" and r[1] == cb and not p for (r, p) in outs):
        res.ok({"verdict": "build(output wires) receives exactly the wires returned by the body"})
    else:
        res.bad(Finding("S3", f["id"], "outputs are not the wires of the function body", "build() is given %s" % sorted(outs)[:3], bt["sp"]))
    if any(p[-1:] == ("body",) for (r, p) in body.trace_operand(ct["args"][0])):
        res.ok({"verdict": "the lowered block is the body of the requested function"})
    else:
        res.bad(Finding("S3", f["id"], "lowered block is not the function's body", "compile_block is given %s" % sorted(body.trace_operand(ct["args"][0]))[:2], ct["sp"]))
    same_builder = {(r, tuple(p)) for (r, p) in body.trace_operand(bt["args"][0])} == {(r, tuple(p)) for (r, p) in body.trace_operand(ct["args"][3])}
    if same_builder:
        res.ok({"verdict": "the body is lowered into the builder that is built"})
    else:
        res.bad(Finding("S3", f["id"], "body lowered into a different builder", "compile_block and build use different builders", bt["sp"]))
    return res


def rule_s4(ctx):
    """Cross-reference: the rows of a join result have the widths of their own arrays (C13-J6), or the output is wider than its type."""
    from . import C13
    res = RuleResult("S4", "join rows are cut back to the element widths of their own arrays (cross-reference to C13-J6)")
    j6 = C13.rule_j6(ctx)
    mine = [x for x in j6.findings if "element width" in x.message or "truncat" in x.message or "cut back" in x.site]
    for x in mine:
        res.bad(Finding("S4", x.fn, x.site, x.message + " - the value has more wires than its type has bits", x.span))
    if not mine:
        res.ok({"verdict": "each row of a join is truncated to the element width of the array it came from (C13-J6 truncation clause)"})
    return res


TRAPPING_INT_FNS = {"ilog2": "0", "ilog10": "0", "ilog": "0"}


def rule_s6(ctx):
    """Integer helpers that panic on 0 are not applied to sizes that can be 0 (zero-sized types, empty arrays are legal)."""
    res = RuleResult("S6", "no integer logarithm of a size in the compiler without a dominating test that the size is not zero")
    n = 0
    for f in ctx.facts["fns"]:
        if "mir" not in f or not f["sp"][0].endswith("compile.rs") or f.get("from_expansion"):
            continue
        body = ctx.body(f["id"])
        for b, t in body.calls():
            seg = mir.last_seg(mir.callee(t) or "")
            if seg not in TRAPPING_INT_FNS or "core::num" not in (mir.callee(t) or "") and "std::num" not in (mir.callee(t) or "") and "<impl" not in (mir.callee(t) or ""):
                continue
            n += 1
            arg = t["args"][0]
            key = {(r, tuple(p)) for (r, p) in body.trace_operand(arg)}
            ok = False
            # max(x, 1) / x.max(1)
            for (r, p) in key:
                if r[0] == "call" and mir.last_seg(r[2] or "") == "max":
                    mt = body.term(r[1])
                    if any(a["k"] == "const" and isinstance(a.get("val"), int) and a["val"] >= 1 for a in mt["args"]):
                        ok = True
            # a dominating comparison of the same value with 0 / 1
            for gb, blk in enumerate(body.blocks):
                for st in blk["stmts"]:
                    if st["k"] == "assign" and st["rv"]["k"] == "binop" and st["rv"]["op"] in ("Eq", "Ne", "Gt", "Lt", "Ge", "Le") and body.dominates(gb, b) and gb != b:
                        l, r_ = st["rv"]["l"], st["rv"]["r"]
                        for me, other in ((l, r_), (r_, l)):
                            if other["k"] == "const" and other.get("val") in (0, 1) and {(rr, tuple(pp)) for (rr, pp) in body.trace_operand(me)} & key:
                                ok = True
            if ok:
                res.ok({"function": f["id"], "site": "%s at line %d" % (seg, t["sp"][1]), "verdict": "argument tested against zero / clamped to >= 1"})
            else:
                res.bad(Finding("S6", f["id"], "%s of a size that may be zero" % seg,
                                "%s panics for 0; sizes of types and arrays can be 0 in accepted programs (zero-sized types, `[x; 0]`, a const supplied as 0): the compiler would panic on a program the checker accepts" % seg, t["sp"]))
    res.note("integer-logarithm sites in compile.rs: %d" % n)
    if n == 0:
        res.ok({"verdict": "compile.rs contains no integer logarithm"})
    return res


def rule_s7(ctx):
    """Cross-reference: a const that mentions a later const is rejected by the checker (C17-T9), or the compiler panics on an accepted program."""
    from . import C17
    res = RuleResult("S7", "forward references between const definitions are rejected by the checker (cross-reference to C17-T9)")
    t9 = C17.rule_t9(ctx)
    for x in t9.findings:
        res.bad(Finding("S7", x.fn, x.site, x.message, x.span))
    if not t9.findings:
        res.ok({"verdict": "C17-T9 holds: const expressions only see the consts defined before them"})
    return res


def rule_s8(ctx):
    """Cross-reference: outputs decode to the declared array length (C09-L7)."""
    from . import C09
    res = RuleResult("S8", "array outputs are decoded with the element count of the type (cross-reference to C09-L7)")
    l7 = C09.rule_l7(ctx)
    for x in l7.findings:
        res.bad(Finding("S8", x.fn, x.site, x.message, x.span))
    if not l7.findings:
        res.ok({"verdict": "C09-L7 holds"})
    return res


def rule_s9(ctx):
    """An array is read with the element width of the array's own type (not with the width of the type the result is used with)."""
    from . import C02
    res = RuleResult("S9", "array reads take the element stride from the array's type")
    f = C02.fn_of(ctx, C02.EXPR_COMPILE)
    body = ctx.body(f["id"])
    succ = body.pruned_succ({C02.INNER: "ArrayAccess"})
    region = body.reachable([0], succ=succ)
    strides = []
    for b in sorted(region):
        for st in body.blocks[b]["stmts"]:
            if st["k"] == "assign" and st["rv"]["k"] == "binop" and st["rv"]["op"].startswith("Add"):
                # `i + elem_bits` used as an index
                for me, other in ((st["rv"]["l"], st["rv"]["r"]), (st["rv"]["r"], st["rv"]["l"])):
                    if other["k"] not in ("copy", "move"):
                        continue
                    tr = body.trace_operand(other)
                    kinds = set()
                    for (r, p) in tr:
                        if r[0] == "call" and mir.last_seg(r[2] or "") == "size_in_bits_for_defs":
                            recv = body.trace_operand(body.term(r[1])["args"][0])
                            kinds.add("result type" if any(rr == SELF1 and tuple(pp) == ("ty",) for (rr, pp) in recv) else "other type")
                        elif r[0] == "call" and mir.last_seg(r[2] or "") in ("expect", "unwrap", "unwrap_array_size") and p[-1:] == ("0",):
                            kinds.add("array type")
                    if kinds:
                        strides.append((kinds, st["sp"]))
    if not strides:
        raise AnchorMissing("S9: cannot find the element stride of the array read (i + stride)")
    for kinds, sp in strides:
        if kinds == {"array type"}:
            res.ok({"site": "line %d" % sp[1], "verdict": "stride = element width of the array's own type"})
        else:
            res.bad(Finding("S9", f["id"], "array read uses the width of the result type as stride",
                            "the elements are stored with the width of the array's element type; where an untyped number was bound (`let a = [5, 7]`) and the element is then used as a u16, "
                            "the result type is narrower than the stored elements and the read returns bits of the wrong element", sp))
    return res


def rule_s10(ctx):
    """If the checker may re-type an expression whose wires come from elsewhere, the compiler has to adjust their number."""
    from . import C02
    res = RuleResult("S10", "either the checker never re-types a variable / element / field, or the lowering adjusts every number to the width of its type")
    # (a) does check_or_constrain_* look at the kind of expression before it overwrites its type?
    guarded = True
    for fid in ("check::check_or_constrain_unsigned", "check::check_or_constrain_signed"):
        body = ctx.body(fid)
        writes = [b for b, blk in enumerate(body.blocks) for st in blk["stmts"]
                  if st["k"] == "assign" and any(e["k"] == "field" and e.get("name") == "ty" for e in st["place"]["p"]) and st["place"]["l"] == 1]
        kind_tests = set()
        for b in range(body.n):
            info = body.switch_info(b)
            if info and info[0] and info[0][0] == SELF1 and tuple(info[0][1]) == ("inner",) and info[2] == "ast::ExprEnum":
                # a test that separates Identifier / accesses from literals: Identifier must be one of its explicit targets
                if "Identifier" in {info[1].get(v) for v, _ in body.term(b)["targets"]}:
                    kind_tests.add(b)
        if not writes or not all(any(body.dominates(k, w) for k in kind_tests) for w in writes):
            guarded = False
    # (b) does the entry point of the expression lowering adjust the number of wires to size_in_bits(self.ty)?
    adjusts = False
    body_fn = C02.fn_of(ctx, C02.EXPR_COMPILE)
    entry = ctx.wrappers.get(body_fn["id"])
    if entry:
        eb = ctx.body(entry)
        sizes = [b for b, t in eb.calls() if mir.last_seg(mir.callee(t) or "") == "size_in_bits_for_defs" and any(r == SELF1 and tuple(p) == ("ty",) for (r, p) in eb.trace_operand(t["args"][0]))]
        lens = [b for b, t in eb.calls() if mir.last_seg(mir.callee(t) or "") == "len"]
        rets = [b for b in range(eb.n) if eb.term(b) and eb.term(b)["k"] == "return"]
        if sizes and lens:
            num = eb.pruned_succ({(SELF1, ("ty",)): "Unsigned"})
            w = eb.path(0, rets, blocked=set(sizes), succ=lambda x: [y for y in num(x) if not eb.blocks[y]["cleanup"]])
            adjusts = not w
    if guarded or adjusts:
        res.ok({"verdict": "checker re-types only literals: %s; lowering adjusts every number to the width of its type: %s" % (guarded, adjusts)})
    else:
        res.bad(Finding("S10", body_fn["id"], "a re-typed variable keeps the wires of its binding",
                        "check_or_constrain_* overwrites the type of any expression of an unspecified number type - also of identifiers, elements and fields whose wires were produced (with 32 bits) "
                        "where they were bound - and the lowering returns those wires as they are: the value has 32 wires under a type of 8, 16 or 64 bits", body_fn["sp"]))
    return res


def rule_s11(ctx):
    """Cross-reference: const definitions reach the table their successors are resolved against (C12-K6), else an accepted program panics the compiler."""
    from . import C12
    res = RuleResult("S11", "every resolved const definition is visible to the later ones (cross-reference to C12-K6)")
    k6 = C12.rule_k6(ctx)
    for x in k6.findings:
        res.bad(Finding("S11", x.fn, x.site, x.message, x.span))
    if not k6.findings:
        res.ok({"verdict": "C12-K6 holds"})
    return res


def rule_s12(ctx):
    """A range is lowered element by element; the width of an element must be the width of the element type of the node's type."""
    from . import C02
    res = RuleResult("S12", "the number type a range is lowered with follows the type of the range expression")
    body = ctx.body(C02.fn_of(ctx, C02.EXPR_COMPILE)["id"])
    node_driven = False
    arm = body.pruned_succ({(SELF1, ("inner",)): "Range"})
    live = set(body.reachable([0], succ=arm))
    n = 0
    for b, t in body.calls():
        if b not in live or mir.last_seg(mir.callee(t) or "") != "size_in_bits_for_defs":
            continue
        # only calls that cannot be reached under another variant belong to the Range arm
        srcs = body.deep_sources(t["args"][0], depth=3)
        if any(r == SELF1 and "as Range" in p for (r, p) in srcs):
            node_driven = True
            n += 1
    if not node_driven:
        # the arm takes the width from somewhere else (self.ty): nothing to keep in step
        res.ok({"verdict": "the Range arm of the lowering does not take the element width from the node"})
        return res
    cb = ctx.body("check::constrain_type")
    writes = []
    for b, blk in enumerate(cb.blocks):
        if blk["cleanup"]:
            continue
        for st in blk["stmts"]:
            if st["k"] != "assign" or not st["place"]["p"] or st["place"]["p"][0]["k"] != "deref":
                continue
            roots = cb.trace({"l": st["place"]["l"], "p": [], "ty": ""}, through={})
            if any(r == SELF1 and "as Range" in p and p[-1] == "2" for (r, p) in roots):
                # (the stored type may be picked in a match over the expected element type: the expected unsigned type itself, or
                # the unsigned type as wide as an expected signed type)
                val = cb.deep_sources(st["rv"]["op"], 4) if st["rv"]["k"] == "use" else set()
                writes.append((b, st, any(r == ("arg", 2) and "as Unsigned" in p for (r, p) in val)))
    if any(w[2] for w in writes):
        res.ok({"lowering": "element width from the number type stored in the Range node", "checker": "constrain_type stores the expected element type in the node (line %d)" % [w for w in writes if w[2]][0][1]["sp"][1]})
    else:
        res.bad(Finding("S12", "check::constrain_type", "an untyped range keeps its 32-bit number type under a re-typed array type",
                        "the lowering takes the element width of a range from the number type stored in the node, and constrain_type re-types the array type of an untyped range "
                        "(`0..3` as [u8; 3]) without storing the expected element type in the node: 96 wires under a type of 24 bits", ctx.fn("check::constrain_type")["sp"]))
    return res


def rule_s13(ctx):
    """An expression of an unspecified number type that takes on a fixed number type has to pass that type on to the operands that
    share it (S2: constrain_type recurses); re-typing only its top node leaves `(255 + 1)` a 32-bit sum under a u8 type, which is
    computed without overflow and then cut down.  So the one-node re-typers may only be the leaf case of constrain_type."""
    res = RuleResult("S13", "check_or_constrain_* (re-types one node) is only reached through constrain_type (re-types the operands as well)")
    n = 0
    for fid in ("check::check_or_constrain_unsigned", "check::check_or_constrain_signed"):
        if not ctx.has_fn(fid):
            raise AnchorMissing("S13: %s not found" % fid)
    for f in ctx.fns.values():
        if not f.get("mir") or f["id"] == "check::constrain_type":
            continue
        body = ctx.body(f["id"])
        for b, t in body.calls():
            if body.blocks[b]["cleanup"]:
                continue
            cal = mir.callee(t) or ""
            if cal in ("check::check_or_constrain_unsigned", "check::check_or_constrain_signed"):
                n += 1
                res.bad(Finding("S13", f["id"], "%s called outside constrain_type" % mir.last_seg(cal),
                                "the expression is given a fixed number type by re-typing its top node only: operands of an untyped compound expression "
                                "(`a == (255 + 1)`, `a << (255 + 1)`, `x + ((0 - 1) + 0)`) stay 32-bit unsigned and are computed without the overflow of the fixed type", t["sp"]))
    cb = ctx.body("check::constrain_type")
    leaf = [b for b, t in cb.calls() if (mir.callee(t) or "") in ("check::check_or_constrain_unsigned", "check::check_or_constrain_signed")]
    if len(leaf) < 2:
        raise AnchorMissing("S13: constrain_type no longer ends in check_or_constrain_* for number types")
    if not res.findings:
        res.ok({"verdict": "only constrain_type calls check_or_constrain_unsigned / _signed (%d leaf sites)" % len(leaf)})
    return res


SAME_WIDTH = {"token::UnsignedNumType": {"U32", "Usize"}, "token::SignedNumType": {"I32"}}


def rule_s14(ctx):
    """Re-typing in place does not touch the wires.  A number inside a collection that a variable, element or field holds keeps the
    32 wires of an unspecified number (the lowering only adjusts the width of a value that is a number itself, S10), so inside a
    collection an unspecified number type may only become a number type of 32 bits."""
    res = RuleResult("S14", "inside a collection an unspecified number type is only re-typed in place to a number type of the same width")
    fs = [f for f in ctx.fns.values() if f.get("mir") and f["id"].startswith("check::constrain_type::") and "overwrite" in f["id"]]
    if len(fs) != 1:
        raise AnchorMissing("S14: the in-place re-typer of constrain_type was not found (%r)" % [f["id"] for f in fs])
    body = ctx.body(fs[0]["id"])
    flags = [l for l in range(1, body.arg_count + 1) if body.locals[l]["ty"] == "bool"]
    writes = [b for b, blk in enumerate(body.blocks) if not blk["cleanup"] for st in blk["stmts"]
              if st["k"] == "assign" and st["place"]["l"] == 1 and st["place"]["p"] and st["place"]["p"][0]["k"] == "deref" and len(st["place"]["p"]) == 1]
    if not writes:
        raise AnchorMissing("S14: the re-typer never writes the type")
    if len(flags) != 1:
        res.bad(Finding("S14", body.id, "no distinction between a number and a number inside a collection",
                        "the in-place re-typer overwrites unspecified number types at any depth of the type: `let t = (1, 2); let u: (u8, i64) = t;` gives u a type of 72 bits "
                        "over the 64 wires of t", body.fn["sp"]))
        return res
    flag = flags[0]
    good = set()
    for b in range(body.n):
        info = body.switch_info(b)
        if info and info[2] in SAME_WIDTH:
            t = body.term(b)
            for v, x in t["targets"]:
                if info[1].get(v) in SAME_WIDTH[info[2]]:
                    good.add((b, x))
    for wb in writes:
        w = mir.bool_consistent_path(body, 0, [wb], env={flag: True}, blocked_edges=good)
        if w:
            res.bad(Finding("S14", body.id, "number type of another width taken on inside a collection",
                            "with the in-collection flag set a path reaches the overwrite of the type without having found the expected number type to be u32 / usize / i32",
                            body.blocks[wb]["stmts"][-1]["sp"] if body.blocks[wb]["stmts"] else body.fn["sp"], witness=["bb%d" % x for x in w[-10:]]))
        else:
            res.ok({"write": "bb%d" % wb, "verdict": "inside a collection only reached for u32 / usize / i32"})
    # the recursion into element types sets the flag
    n = 0
    for b, t in body.calls():
        if mir.callee(t) == body.id:
            n += 1
            a = t["args"][flag - 1]
            if a["k"] == "const" and a.get("val") == 1:
                res.ok({"recursion": "line %d" % t["sp"][1], "verdict": "element types are re-typed with the in-collection flag set"})
            else:
                res.bad(Finding("S14", body.id, "recursion into element types without the in-collection flag", "the element types of an array / tuple type are re-typed as if they were numbers of their own", t["sp"]))
    if n < 2 and not res.findings:
        raise AnchorMissing("S14: expected the recursion into array and tuple element types, found %d" % n)
    return res


def rule_s15(ctx):
    """Zero-sized types (`()`, empty structs and arrays, ..) and empty arrays are legal: the lowering must not divide by the width
    of a type, and must not subtract a constant from a number of array elements with the trapping operator."""
    res = RuleResult("S15", "the lowering neither divides by a type width nor subtracts a constant from an element count with trapping arithmetic")
    n = 0
    for f in ctx.fns.values():
        if not f.get("mir") or f["sp"][0] != "src/compile.rs":
            continue
        body = ctx.body(f["id"])

        def kind_of(op, depth=4):
            """'width' / 'count' if the operand is (a sum of) widths or element counts of types, else None."""
            if op["k"] not in ("copy", "move"):
                return None
            kinds = set()
            for (r, p) in body.trace(op["place"]):
                if r[0] == "call" and mir.last_seg(str(r[2])) == "size_in_bits_for_defs" and not p:
                    kinds.add("width")
                elif r[0] == "call" and mir.last_seg(str(r[2])) == "resolve_const_expr_usize" and not p:
                    kinds.add("count")          # the evaluated size expression of a `[T; const { .. }]` type
                elif len(p) >= 2 and tuple(p[-2:]) in (("as Array", "1"),):
                    kinds.add("count")          # the length written in an array type
                elif r[0] == "agg" and depth > 0 and len(p) == 2 and p[0].startswith("as ") and p[1].isdigit():
                    rv = body.blocks[r[1]]["stmts"][r[2]]["rv"]
                    if rv.get("variant") != p[0][3:]:
                        continue                # another variant was stored here: this origin cannot be read through `as <variant>`
                    k = kind_of(rv["ops"][int(p[1])], depth - 1) if int(p[1]) < len(rv["ops"]) else None
                    if k is None:
                        return None
                    kinds.add(k)
                elif r[0] == "call" and mir.last_seg(str(r[2])) in ("unwrap", "expect") and not p and depth > 0 and \
                        any(rr[0] == "call" and mir.last_seg(str(rr[2])) == "get" and "HashMap" in str(rr[2]) for (rr, pp) in body.trace_operand(body.term(r[1])["args"][0])) and \
                        body.term(r[1])["dest"]["ty"] in ("&usize", "usize"):
                    kinds.add("count")          # const_sizes.get(size).unwrap()
                elif r[0] == "call" and mir.last_seg(str(r[2])) == "get" and "HashMap" in str(r[2]) and tuple(p) == ("as Some", "0") and \
                        "usize" in body.term(r[1])["dest"]["ty"] and "String" in body.term(r[1])["dest"]["ty"] + str(body.term(r[1])["func"].get("substs")):
                    kinds.add("count")          # the size of a const-sized array
                elif r[0] == "call" and mir.last_seg(str(r[2])) in ("expect", "unwrap") and tuple(p) in (("0",), ("1",)):
                    c = body.term(r[1])
                    if any(rr[0] == "call" and mir.last_seg(str(rr[2])) == "unwrap_array_size" for (rr, pp) in body.trace_operand(c["args"][0])):
                        kinds.add("width" if p[0] == "0" else "count")
                    else:
                        return None
                elif r[0] == "call" and p and p[0] == "[]" and depth > 0 and mir.last_seg(str(r[2])) in ("new", "with_capacity"):
                    # an element of a list that the function fills itself: look at what is pushed
                    ks = set()
                    for pb, pt in body.calls():
                        if mir.last_seg(mir.callee(pt) or "") != "push" or len(pt["args"]) < 2 or pt["args"][1]["k"] not in ("copy", "move"):
                            continue
                        if not any(rr == r for (rr, pp) in body.trace_operand(pt["args"][0])):
                            continue
                        for (ar, ap) in body.trace_operand(pt["args"][1]):
                            if ar[0] != "agg":
                                continue
                            rv = body.blocks[ar[1]]["stmts"][ar[2]]["rv"]
                            rest = list(p[1:])
                            if rest and rest[0].startswith("as "):
                                if rv.get("variant") != rest[0][3:]:
                                    continue
                                rest = rest[1:]
                            if len(rest) >= 1 and rest[0].isdigit() and int(rest[0]) < len(rv["ops"]):
                                o = rv["ops"][int(rest[0])]
                                if len(rest) == 1:
                                    ks.add(kind_of(o, depth - 1))
                                elif o["k"] in ("copy", "move"):
                                    # one more level: a tuple built on the spot
                                    for (br, bp) in body.trace_operand(o):
                                        if br[0] == "agg" and rest[1].isdigit():
                                            inner = body.blocks[br[1]]["stmts"][br[2]]["rv"]["ops"]
                                            if int(rest[1]) < len(inner):
                                                ks.add(kind_of(inner[int(rest[1])], depth - 1))
                    if len(ks) == 1 and None not in ks:
                        kinds |= ks
                    else:
                        return None
                elif r[0] == "rv" and r[1] in ("binop", "checked_binop") and depth > 0:
                    rv = body.blocks[r[2]]["stmts"][r[3]]["rv"]
                    if rv.get("op", "").startswith("Add"):
                        ks = {kind_of(rv["l"], depth - 1), kind_of(rv["r"], depth - 1)}
                        if None in ks or len(ks) != 1:
                            return None
                        kinds |= ks
                    else:
                        return None
                else:
                    return None
            return next(iter(kinds)) if len(kinds) == 1 else None
        for (b, kind, ops, sp) in mir.trapping_arith_sites(body):
            if kind in ("DivisionByZero", "RemainderByZero") and len(ops) >= 1:
                n += 1
                # the assert carries the dividend; the divisor is the right operand of the division it protects
                divisors = []
                tgt = body.term(b).get("target")
                if tgt is not None:
                    divisors = [st["rv"]["r"] for st in body.blocks[tgt]["stmts"] if st["k"] == "assign" and st["rv"]["k"] == "binop" and st["rv"]["op"] in ("Div", "Rem")]
                if any(kind_of(d) == "width" for d in divisors):
                    res.bad(Finding("S15", f["id"], "division by the width of a type",
                                    "the divisor is the number of bits of a type, which is 0 for zero-sized types: `let mut a = [Z {}; 3]; a[0] = Z {};` panics in the compiler", sp))
                elif any(kind_of(d) == "count" for d in divisors):
                    res.bad(Finding("S15", f["id"], "division by a number of array elements",
                                    "the divisor is the length of an array, which can be 0: `pub fn main(x: [u8; 0]) -> ..` panics in the compiler instead of being refused", sp))
                else:
                    res.ok({"site": "%s at line %d" % (kind, sp[1]), "verdict": "divisor is not a type width"})
            elif kind.startswith("Overflow(Sub") and len(ops) == 2 and ops[1]["k"] == "const" and isinstance(ops[1].get("val"), int) and ops[1]["val"] >= 1:
                if kind_of(ops[0]) == "count":
                    n += 1
                    res.bad(Finding("S15", f["id"], "constant subtracted from a number of array elements",
                                    "`n - %d` where n is (a sum of) array lengths traps for empty arrays: a join of two empty arrays panics in the compiler" % ops[1]["val"], sp))
    if n < 1 and not res.findings:
        # no division left at all is fine, but then the sites that were confirmed by hand must still be visible as arithmetic
        pass
    if not res.findings:
        res.ok({"verdict": "no division by a type width, no trapping `count - c`", "sites_seen": n})
    return res


def rule_s16(ctx):
    """`some input bit`: the two constant wires of every circuit are computed from the first input bit, so a function whose
    parameters have no bits at all cannot be compiled to a valid circuit and has to be refused."""
    res = RuleResult("S16", "a function without any input bit is refused with an error before the circuit is built")
    f, body = C12._cwc(ctx)
    news = [(b, t) for b, t in body.calls() if mir.last_seg(mir.callee(t) or "") == "new" and "CircuitBuilder" in (mir.callee(t) or "")]
    if len(news) != 1:
        raise AnchorMissing("S16: expected one CircuitBuilder::new in compile_with_constants")
    nb, nt = news[0]
    parties = {r for (r, p) in body.trace_operand(nt["args"][0])}
    errs = {b for b, blk in enumerate(body.blocks) if not blk["cleanup"] for st in blk["stmts"]
            if st["k"] == "assign" and st["place"]["l"] == 0 and st["rv"]["k"] == "aggregate" and st["rv"].get("variant") == "Err"}
    guards = []
    for b in range(body.n):
        t = body.term(b)
        if not t or t["k"] != "switch" or t["discr"]["k"] not in ("copy", "move") or not body.dominates(b, nb):
            continue
        src = {r for (r, p) in body.deep_sources(t["discr"], depth=3)}
        if not (src & parties):
            continue
        # one edge must end in Err without building the circuit, the other one goes on
        outs = [x for _, x in t["targets"]] + [t["otherwise"]]
        refusing = [x for x in outs if body.path(x, errs, blocked={nb}) and not body.path(x, [nb])]
        if refusing and any(body.path(x, [nb]) for x in outs):
            guards.append(b)
    if guards:
        res.ok({"guard": "line %d" % body.term(guards[0])["sp"][1], "verdict": "a test over the registered party sizes dominates CircuitBuilder::new; its failing edge returns Err"})
    else:
        res.bad(Finding("S16", f["id"], "circuit built without any input bit",
                        "no test over the registered input sizes lies before CircuitBuilder::new: `pub fn main(x: ()) -> bool { true }` (or `[u8; N]` with N = 0) compiles to a circuit whose "
                        "constant gates refer to a non-existing input wire (validate(): InvalidGate / EmptyInputs)", nt["sp"]))
    return res


def rule_s17(ctx):
    """A `match` / `if` whose branches are re-typed takes over their type only if they all ended up with the same type (a branch that
    is a variable holding a collection of untyped numbers may keep its type, S14); taking the first branch's type regardless lets
    the node claim a wider type than one of its branches supplies wires for."""
    from . import C02
    res = RuleResult("S17", "a re-typed match / if / array literal takes the type of its branches / elements only when all of them agree")
    fid = "check::constrain_type"
    body = ctx.body(fid)

    def compares_types(clo):
        return clo and ctx.has_fn(clo) and any(tt["func"].get("declared") in ("std::cmp::PartialEq::eq", "std::cmp::PartialEq::ne") and "ast::Type" in "".join(tt["func"].get("substs") or [])
                                               for _, tt in ctx.body(clo).calls())

    def predicate_of(c):
        for a in c["args"][1:]:
            if a["k"] in ("copy", "move"):
                for (rr, pp) in body.trace(a["place"], through={}):
                    if rr[0] == "agg":
                        clo = body.blocks[rr[1]]["stmts"][rr[2]]["rv"].get("closure")
                        if compares_types(clo):
                            return clo
        return None
    for variant in ("Match", "If", "ArrayLiteral"):
        succ = body.pruned_succ({C02.INNER: variant})
        region = set(body.reachable([0], succ=succ))
        if len(region) == len(body.reachable([0])):
            raise AnchorMissing("S17: cannot isolate the %s arm of constrain_type" % variant)
        writes = []
        for b in region:
            if body.blocks[b]["cleanup"]:
                continue
            for st in body.blocks[b]["stmts"]:
                pl = st.get("place") or {}
                if st["k"] == "assign" and pl.get("l") == 1 and [e["k"] for e in pl["p"]] == ["deref", "field"] and pl["p"][1].get("name") == "ty":
                    writes.append((b, st))
                elif st["k"] == "assign" and pl.get("p") and pl.get("l") != 1 and variant == "ArrayLiteral":
                    # `**actual = first.ty.clone()` with `actual` the element type inside `&mut expr.ty`
                    if any(r == ("arg", 1) and p and p[0] == "ty" for (r, p) in body.trace(pl, through=protocol.DEREF_ONLY)):
                        writes.append((b, st))
        if not writes:
            res.ok({"construct": variant, "verdict": "the node's type is not overwritten from a branch"})
            continue
        # edges on which all branch types were found equal
        edges = set()
        for sb in region:
            t = body.term(sb)
            if not t or t["k"] != "switch" or t["discr"]["k"] not in ("copy", "move") or not all(v == 0 for v, _ in t["targets"]):
                continue
            for (r, p) in body.trace(t["discr"]["place"], through={}):
                if r[0] != "call":
                    continue
                c = body.term(r[1])
                decl = c["func"].get("declared")
                if decl == "std::cmp::PartialEq::eq" and "ast::Type" in "".join(c["func"].get("substs") or []):
                    edges.add((sb, t["otherwise"]))
                elif decl == "std::cmp::PartialEq::ne" and "ast::Type" in "".join(c["func"].get("substs") or []):
                    for v, x in t["targets"]:
                        edges.add((sb, x))      # `a != b` is false
                elif mir.last_seg(str(r[2])) == "all":
                    # the predicate compares types
                    for a in c["args"][1:]:
                        if a["k"] in ("copy", "move"):
                            for (rr, pp) in body.trace(a["place"], through={}):
                                if rr[0] == "agg":
                                    clo = body.blocks[rr[1]]["stmts"][rr[2]]["rv"].get("closure")
                                    if clo and ctx.has_fn(clo) and any(tt["func"].get("declared") == "std::cmp::PartialEq::eq" and "ast::Type" in "".join(tt["func"].get("substs") or [])
                                                                          for _, tt in ctx.body(clo).calls()):
                                        edges.add((sb, t["otherwise"]))
        # `elems.iter().find(|e| e.ty != first.ty)` / position: the None edge is the one on which all types agree
        for sb in region:
            info = body.switch_info(sb)
            if info and info[0] and info[0][0][0] == "call" and info[0][1] == () and info[2].startswith("std::option::Option"):
                c = body.term(info[0][0][1])
                if (c["func"].get("declared") or "") in ("std::iter::Iterator::find", "std::iter::Iterator::position") and predicate_of(c):
                    t = body.term(sb)
                    listed = {v for v, _ in t["targets"]}
                    for v, x in t["targets"]:
                        if info[1].get(v) == "None":
                            edges.add((sb, x))
                    if any(nm == "None" and v not in listed for v, nm in info[1].items()):
                        edges.add((sb, t["otherwise"]))
        for (b, st) in writes:
            if edges and C02._dominated_by_edges(body, edges, b):
                res.ok({"construct": variant, "write": "line %d" % st["sp"][1], "verdict": "only after all branch types compared equal"})
            else:
                res.bad(Finding("S17", fid, "%s takes the type of one branch without comparing the branches" % variant,
                                "the node's type is overwritten with a branch type on a path on which the branch types were not found equal: `match b { true => (3, 4), false => t }` "
                                "(t a variable holding `(1, 2)`) as (u64, u64) is accepted with 64 wires in one clause", st["sp"]))
    return res


def range_retype_kinds(ctx):
    """Expected element kinds ('Unsigned', 'Signed') for which the Range arm of constrain_type writes the type of the range."""
    from . import C02
    fid = "check::constrain_type"
    body = ctx.body(fid)
    succ = body.pruned_succ({C02.INNER: "Range"})
    region = set(body.reachable([0], succ=succ))
    if len(region) == len(body.reachable([0])):
        raise AnchorMissing("S18: cannot isolate the Range arm of constrain_type")
    writes = []
    for b in sorted(region):
        if body.blocks[b]["cleanup"]:
            continue
        for st in body.blocks[b]["stmts"]:
            pl = st.get("place") or {}
            if st["k"] == "assign" and pl.get("p") and any(r == ("arg", 1) and p and p[0] == "ty" for (r, p) in body.trace(pl, through=protocol.DEREF_ONLY)):
                writes.append(b)
    if not writes:
        raise AnchorMissing("S18: the Range arm of constrain_type does not write the type of the range")
    # the switch over the expected element type
    aps = set()
    for b in sorted(region):
        info = body.switch_info(b)
        if not (info and info[0] and info[2] == "ast::Type" and {"Unsigned", "Signed"} <= set(info[1].values())):
            continue
        root, path = info[0]
        if root == ("arg", 2) and path and path[-1] == "0":
            aps.add(info[0])        # matched in place: (*expected).Array.0
        elif root[0] == "call" and mir.last_seg(str(root[2])) in ("as_ref", "deref") and not path:
            # `elem_ty.as_ref()`: the boxed element type of the expected array type
            c = body.term(root[1])
            if any(r == ("arg", 2) and p and p[-1] == "0" for (r, p) in body.trace_operand(c["args"][0])):
                aps.add(info[0])
    if not aps:
        raise AnchorMissing("S18: the Range arm of constrain_type does not look at the expected element type")
    kinds = set()
    for kind in ("Unsigned", "Signed"):
        assume = {C02.INNER: "Range"}
        for ap in aps:
            assume[ap] = kind
        reach = set(body.reachable([0], succ=body.pruned_succ(assume)))
        if reach & set(writes):
            kinds.add(kind)
    return kinds


def rule_s18(ctx):
    """`10..15` is documented as equivalent to `[10, 11, 12, 13, 14]`, and that literal can be used as an array of any number type its
    elements fit into.  The Range arm of constrain_type is the only place that can re-type a range (S12: the node and the type move
    together), so it has to re-type it for signed element types as well as for unsigned ones - otherwise the guide's own example
    `pub fn main(_a: i32) -> [i32; 5] { 10..15 }` is rejected."""
    res = RuleResult("S18", "an untyped range is re-typed for unsigned and for signed expected element types")
    fid = "check::constrain_type"
    kinds = range_retype_kinds(ctx)
    for kind in ("Unsigned", "Signed"):
        if kind in kinds:
            res.ok({"expected_element_type": kind, "verdict": "the range's type is written"})
        else:
            res.bad(Finding("S18", fid, "a range cannot become an array of %s numbers" % kind.lower(),
                            "with an expected element type Type::%s no path of the Range arm re-types the range: `pub fn main(_a: i32) -> [i32; 5] { 10..15 }` (the example of the "
                            "language guide) is rejected with `Expected type [i32; 5], but found [unspecified unsigned int; 5]`" % kind, ctx.fn(fid)["sp"]))
    return res


def rule_s19(ctx):
    """`one input party per parameter (one per element when the only parameter is an array)`: the three spellings of an array type
    (`[T; 3]`, `[T; N]`, `[T; const { N + 1 }]`) are siblings; where the parameter wiring singles out arrays it has to single out all
    three, otherwise `pub fn main(x: [u8; const { 2 + 1 }])` gets one party of 24 bits."""
    res = RuleResult("S19", "the split of a single array parameter into one party per element covers Array, ArrayConst and ArrayConstExpr alike")
    f = ctx.find_fn("compile_with_constants", None, "compile.rs")
    body = ctx.body(f["id"])
    seen = 0
    for b in range(body.n):
        if body.blocks[b]["cleanup"]:
            continue
        info = body.switch_info(b)
        if not (info and info[2] == "ast::Type"):
            continue
        t = body.term(b)
        listed = {info[1].get(v) for v, _ in t["targets"]}
        arrays = {n for n in info[1].values() if n.startswith("Array")}
        if not (listed & arrays):
            continue
        seen += 1
        missing = sorted(arrays - listed) if len(listed) < len(info[1]) else []
        # (an exhaustive switch lists every variant; then the arm bodies decide - compare the targets instead)
        if not missing and len(listed) == len(info[1]):
            tg = {info[1][v]: x for v, x in t["targets"]}
            other = {x for n, x in tg.items() if n not in arrays}
            missing = sorted(n for n in arrays if tg[n] in other)
        if missing:
            res.bad(Finding("S19", f["id"], "array parameters of type %s are not split into one party per element" % " / ".join(missing),
                            "the parameter wiring treats %s like a non-array type: a single parameter `[u8; const { 2 + 1 }]` becomes one party of 24 bits where `[u8; 3]` gives three of 8" % " / ".join(missing), t["sp"]))
        else:
            res.ok({"switch": "line %d" % t["sp"][1], "verdict": "all array type variants take the per-element path"})
    if not seen:
        if any(mir.last_seg(mir.callee(t) or "") == "unwrap_array_size" for _, t in body.calls()):
            res.ok({"verdict": "array parameters are recognised through unwrap_array_size (which knows all three variants)"})
        else:
            raise AnchorMissing("S19: compile_with_constants does not single out array parameters")
    return res


def rule_s20(ctx):
    """`compiling ... completes without an internal panic`: the size in bits of an array type is the product of the element size
    and a number the program text chooses (`[u8; 18446744073709551615]`, `[T; N]`, `[T; const { .. }]`); a product computed with
    trapping arithmetic and without a bound on the number panics for an accepted program."""
    res = RuleResult("S20", "the size of an array type is not computed with trapping arithmetic on a size the program text chooses")
    fs = [f for f in ctx.find_fns("size_in_bits_for_defs") if f["kind"] in ("fn", "assoc_fn") and "mir" in f]
    if len(fs) != 1:
        raise AnchorMissing("S20: expected one size_in_bits_for_defs, found %d" % len(fs))
    fid = fs[0]["id"]
    body = ctx.body(fid)
    sites = [(b, kind, ops, sp) for (b, kind, ops, sp) in mir.trapping_arith_sites(body) if "mul" in kind.lower()]
    if not sites:
        res.ok({"function": fid, "verdict": "no trapping multiplication"})
    for (b, kind, ops, sp) in sites:
        # the arm: which spelling of the array type
        arm = None
        for variant in ("Array", "ArrayConst", "ArrayConstExpr"):
            succ = body.pruned_succ({(("arg", 1), ()): variant})
            if b in body.reachable([0], succ=succ):
                arm = variant if arm is None else arm + "/" + variant
        res.bad(Finding("S20", fid, "size of %s multiplied with trapping arithmetic" % (arm or "an array type"),
                        "element size * number of elements traps on overflow and nothing bounds the number of elements the program text may choose: "
                        "`pub fn main(x: [u8; 18446744073709551615], y: u8) -> u8 { y }` is accepted and panics in compile (without overflow checks the product wraps: "
                        "`[u8; 2305843009213693952]` becomes a parameter of 0 bits)", sp))
    return res


def _const_expr_variant(body, op, depth=0):
    """Variant of the ConstExprEnum an operand (ConstExpr, Box<ConstExpr>, ConstExprEnum) was built from, None if it is not built here."""
    if depth > 6 or op.get("k") not in ("copy", "move"):
        return None
    for (r, p) in body.trace_operand(op):
        if r[0] == "call" and mir.last_seg(str(r[2])) == "new":
            v = _const_expr_variant(body, body.term(r[1])["args"][0], depth + 1)
            if v:
                return v
        elif r[0] == "agg":
            rv = body.blocks[r[1]]["stmts"][r[2]]["rv"]
            if rv.get("adt") == "ast::ConstExprEnum":
                return rv.get("variant")
            if rv.get("adt") == "ast::ConstExpr" and rv["ops"]:
                v = _const_expr_variant(body, rv["ops"][0], depth + 1)
                if v:
                    return v
    return None


def rule_s21(ctx):
    """The checker writes size expressions of its own (the result of `join` has `a + b - 1` elements); they are evaluated with
    wrapping arithmetic, so a difference the checker synthesises has to be one that cannot underflow (`max(a + b, 1) - 1`), else the
    type says 2^32 - 1 (or usize::MAX) elements where the compiled value has none."""
    res = RuleResult("S21", "a difference in a size expression the type checker synthesises cannot underflow")
    seen = 0
    for f in ctx.facts["fns"]:
        if "mir" not in f or not f["sp"][0].endswith("check.rs"):
            continue
        body = ctx.body(f["id"])
        for b, blk in enumerate(body.blocks):
            if blk["cleanup"]:
                continue
            for st in blk["stmts"]:
                if st["k"] == "assign" and st["rv"]["k"] == "aggregate" and st["rv"].get("adt") == "ast::ConstExprEnum" and st["rv"].get("variant") == "Sub":
                    seen += 1
                    minuend = _const_expr_variant(body, st["rv"]["ops"][0])
                    if minuend == "Max":
                        res.ok({"function": f["id"], "line": st["sp"][1], "verdict": "the minuend is a max(..)"})
                    else:
                        res.bad(Finding("S21", f["id"], "synthesised size expression can underflow",
                                        "the checker builds the size `%s - ..` itself; sizes are evaluated with wrapping arithmetic, so for the smallest operands the type has 2^32 - 1 elements while the "
                                        "compiled value has none: `let mut a = join([y; 0], [y; 0]); a[0] = (true, y);` is accepted and panics in compile (index out of bounds)" % (minuend or "expr"), st["sp"]))
    if not seen:
        res.ok({"verdict": "the type checker synthesises no difference"})
    return res


def run(ctx):
    return ctx.run_rules([rule_s1, rule_s2, rule_s3, rule_s4, rule_s6, rule_s7, rule_s8, rule_s9, rule_s10, rule_s11, rule_s12, rule_s13, rule_s14, rule_s15, rule_s16, rule_s17, rule_s18, rule_s19, rule_s20, rule_s21])
