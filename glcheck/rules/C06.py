"""C06 - compilation is deterministic.

D1  no hash-ordered iteration influences an order-sensitive sink (gates, Env, ordered vectors, first-match exits)
D3  no other nondeterminism source is reachable from the public compile entry points
D4  every sort that launders a hash-ordered collection is keyed on a total, input-determined key
"""
import re

from .. import mir
from ..core import AnchorMissing, Finding, RuleResult

PROPERTY = "C06"
LEVEL_TEXT = ("Whole statement, under assumption A1: compilation is a function of (source, constants, options) if no "
              "hash-ordered iteration can influence an order-sensitive sink and no other nondeterminism source is "
              "reachable. The check finds every HashMap/HashSet iteration site of the crate by type on MIR, classifies "
              "the effects of its loop body / closure through the resolved call graph (gate emission, Env read+write, "
              "outer ordered collections, order-dependent assignments, early exits are violations), requires laundering "
              "sorts to be total, and shows that no clock/thread/env/RNG/address source is reachable from the compile "
              "entry points. Static dataflow is the right level: the property quantifies over hash seeds and processes, "
              "which no test can enumerate, while the set of order sources and sinks in the code is finite.")
LEVEL_NOTE = ("Trusted: rustc's MIR and callee resolution; std collections behave as documented. Assumed: A1 (the type "
              "checker's per-function results do not depend on checking order). Diagnostic-only types (TypeError, "
              "CompilerError, Ctor) may be ordered by hash order only until they are sorted; they never reach a Circuit.")
TECHNIQUE = "effect / dataflow analysis of every hash-ordered iteration site over rustc MIR + call graph"
EXPLANATION = (
    "Every place where a HashMap/HashSet is iterated is found by type (the receiver / iterator type parameter of "
    "the call mentions a std hash_map/hash_set iterator), its loop body or closure is delimited on MIR (natural "
    "loop of the `next` call; closure body), and the effects of that region are classified through the resolved "
    "call graph: gate emission, Env read+write, writes to outer ordered collections, order-dependent assignments "
    "and early exits are forbidden; keyed inserts, iteration-local state, diagnostics and sorted-before-use "
    "vectors are allowed. D3 searches the call-graph closure of the compile entry points for clocks, threads, "
    "environment, RNG, pointer-to-integer casts. D4 checks the keys of the laundering sorts.")
NOT_DECIDED = ("nothing of the statement under assumption A1; effects of std/alloc (allocator addresses are never "
               "observed: D3 finds no pointer-to-integer cast)")
ASSUMPTIONS = [
    "A1: type-checking a function yields the same typed definition whatever was checked before it (TypedFns "
    "memoises per name; the checker has no other cross-function state)",
]

HASH_ITER = re.compile(
    r"std::collections::hash_(map|set)::(Iter|IterMut|Keys|Values|ValuesMut|IntoIter|IntoKeys|IntoValues|Drain|"
    r"Union|Intersection|Difference|SymmetricDifference)\b")
HASH_COLL = re.compile(r"^&?(mut )?std::collections::(HashMap|HashSet)<")

KEYED = re.compile(r"^std::collections::(HashMap|HashSet|BTreeMap|BTreeSet|hash_map::Entry|hash_map::VacantEntry|"
                   r"hash_map::OccupiedEntry|btree_map::Entry)\b")
ORDERED = re.compile(r"^(std::vec::Vec<|std::string::String\b|std::collections::VecDeque<|\[)")
# element / payload types that only ever order diagnostics (none of them is reachable from `Circuit`)
DIAG = re.compile(r"check::TypeError\b|compile::CompilerError\b|check::Ctor\b|check::TypeErrorEnum\b|"
                  r"scan::ScanError\b|parse::ParseError\b")
MEMO_OK = re.compile(r"^check::TypedFns\b")
ITER_STATE = re.compile(r"^(std::collections::hash_(map|set)::|std::iter::|std::slice::Iter|std::vec::IntoIter|"
                        r"std::ops::Range|std::collections::btree_)")

ADAPTERS = {"map", "chain", "filter", "filter_map", "flat_map", "flatten", "enumerate", "cloned", "copied",
            "peekable", "inspect", "by_ref", "fuse", "into_iter", "map_while"}
POSITIONAL = {"take", "skip", "take_while", "skip_while", "step_by", "zip", "nth", "last", "find", "find_map",
              "position", "fold", "reduce", "try_fold", "try_for_each", "unzip", "partition", "rev", "eq", "cmp",
              "partial_cmp", "lt", "le", "gt", "ge", "ne", "max_by", "min_by", "max_by_key", "min_by_key",
              "rposition", "scan", "cycle", "is_sorted"}
COMMUTATIVE = {"any", "all", "count", "sum", "product", "min", "max"}
SORTS = {"sort", "sort_by", "sort_by_key", "sort_unstable", "sort_unstable_by", "sort_unstable_by_key",
         "sort_by_cached_key"}
PANIC_MACROS = {"panic", "assert", "assert_eq", "assert_ne", "unreachable", "debug_assert", "debug_assert_eq",
                "eprintln", "eprint", "todo", "unimplemented", "dbg"}

GATE_SINK = "circuit::CircuitBuilder::push_gate"
ENV_READ = {"get"}
ENV_WRITE = {"let_in_current_scope", "assign_mut", "push", "pop"}


SRC_THROUGH = dict(mir.TRANSPARENT)
for _m in ("iter", "iter_mut", "keys", "values", "values_mut", "into_keys", "into_values", "drain"):
    SRC_THROUGH["std::collections::HashMap::<K, V, S, A>::" + _m] = 0
    SRC_THROUGH["std::collections::HashSet::<T, S, A>::" + _m] = 0
for _m in ("chain", "map", "filter", "filter_map", "flat_map"):
    SRC_THROUGH["std::iter::Iterator::" + _m] = 0


def _referent(ty):
    if ty.startswith("&mut "):
        return ty[5:]
    if ty.startswith("&"):
        return ty[1:].lstrip()
    return ty


def _is_hash_source(t):
    subs = t["func"].get("substs") or []
    return any(HASH_ITER.search(s) for s in subs)


def _region_locals_defined_inside(body, region):
    """locals all of whose definitions (full or partial) are inside region."""
    inside = set()
    for l, ds in body.defs().items():
        if body.is_arg(l):
            continue
        if all(d[1] in region for d in ds):
            inside.add(l)
    return inside


class Effects:
    def __init__(self):
        self.items = []  # (class, detail, span)

    def add(self, cls, detail, span):
        self.items.append((cls, detail, span))


def region_effects(ctx, body, region, gate_reach, whole_body=False):
    """Classify the effects of the blocks in `region` of `body` (whole_body: a closure called per item)."""
    eff = Effects()
    local_inside = set() if whole_body else _region_locals_defined_inside(body, region)
    if whole_body:
        # everything that is not a captured upvar / argument is iteration-local
        local_inside = {l for l in range(len(body.locals)) if not body.is_arg(l)}
    env_read = env_write = None
    for b in sorted(region):
        blk = body.blocks[b]
        if blk["cleanup"]:
            continue
        # statement-level writes to outer state
        for st in blk["stmts"]:
            if st["k"] != "assign":
                continue
            pl = st["place"]
            roots = body.trace(pl, through={}) if pl["p"] else {(("self", pl["l"]), ())}
            outer = False
            if not pl["p"]:
                outer = (pl["l"] not in local_inside) and not body.is_arg(pl["l"]) and pl["l"] != 0
                if whole_body:
                    outer = False
            else:
                has_deref = any(e["k"] == "deref" for e in pl["p"])
                for (r, _p) in roots:
                    if r[0] == "arg":
                        outer = outer or has_deref or whole_body
                    elif r[0] == "local" and r[1] not in local_inside:
                        outer = True
                    elif r[0] in ("call", "agg", "rv") and False:
                        pass
                base = pl["l"]
                if not has_deref and base in local_inside:
                    outer = False
            if not outer:
                continue
            if ITER_STATE.match(pl["ty"]) or pl["ty"] == "()":
                continue
            rv = st["rv"]
            if not pl["p"] and body.local_name(pl["l"]) is None and pl["ty"] == "bool" and rv["k"] == "use" \
                    and rv["op"]["k"] == "const":
                continue  # drop flag maintained by the compiler
            ok = False
            if rv["k"] == "binop" and rv["op"] in ("Add", "AddWithOverflow", "AddUnchecked", "BitOr", "BitAnd", "BitXor", "Mul", "MulWithOverflow"):
                ok = True  # commutative accumulation
            if rv["k"] == "use" and rv["op"]["k"] in ("copy", "move") and rv["op"]["place"]["p"] and \
                    rv["op"]["place"]["p"][-1].get("k") == "field" and "WithOverflow" in str(
                        [d[3]["rv"].get("op") for d in body.defs().get(rv["op"]["place"]["l"], []) if d[0] == "assign"]):
                ok = True  # `x = (checked add tuple).0`
            if DIAG.search(pl["ty"]):
                ok = True
            if not ok:
                eff.add("outer-assign", "assignment to outer place _%d%s : %s" % (
                    pl["l"], "".join("." + n for n in mir.proj_names(pl["p"])), pl["ty"]), st["sp"])
        t = blk["term"]
        if not t or t["k"] != "call":
            continue
        names = mir.callee_names(t)
        cal = mir.callee(t) or "<indirect>"
        seg = mir.last_seg(cal)
        if any(n in gate_reach for n in names):
            eff.add("gates", "call to %s may reach %s" % (cal, GATE_SINK), t["sp"])
        if cal.startswith("env::Env::"):
            if seg in ENV_READ:
                env_read = t["sp"]
            if seg in ENV_WRITE:
                env_write = t["sp"]
        # mutable references handed to callees
        for a in t["args"]:
            if a["k"] not in ("copy", "move"):
                continue
            aty = a["place"]["ty"]
            if not aty.startswith("&mut "):
                continue
            ref = _referent(aty)
            if ITER_STATE.match(ref):
                continue
            roots = body.trace(a["place"])
            outer = False
            for (r, _p) in roots:
                if r[0] == "arg":
                    outer = True
                elif r[0] == "local" and r[1] not in local_inside:
                    outer = True
                elif r[0] in ("agg", "rv", "call", "const"):
                    blk_of = r[2] if r[0] in ("rv",) else r[1]
                    if isinstance(blk_of, int) and blk_of not in region and not whole_body:
                        outer = True
            # a `&mut local` where local is defined outside
            if not outer:
                continue
            if KEYED.match(ref):
                continue
            if MEMO_OK.match(ref):
                eff.add("memo", "checker memo %s passed to %s (allowed under A1)" % (ref, cal), t["sp"])
                continue
            if ref.startswith("env::Env<"):
                if seg in ENV_READ:
                    env_read = t["sp"]
                else:
                    env_write = t["sp"]
                continue
            if ref.startswith("circuit::CircuitBuilder"):
                if not any(n in gate_reach for n in names):
                    eff.add("builder-state", "builder mutated by %s" % cal, t["sp"])
                continue
            if ORDERED.match(ref):
                if DIAG.search(ref):
                    continue
                eff.add("ordered-sink", "%s writes outer ordered collection %s" % (cal, ref), t["sp"])
                continue
            if ref.startswith("std::fmt::Formatter"):
                eff.add("format", "formats into %s" % ref, t["sp"])
                continue
            eff.add("unclassified", "%s receives &mut %s defined outside the iteration" % (cal, ref), t["sp"])
    if env_read is not None and env_write is not None:
        eff.add("env-rw", "Env is both read (Env::get) and written in the iteration", env_write)
    return eff


def _closure_args(ctx, body, t):
    """closure fn ids passed as arguments to call t."""
    out = []
    for a in t["args"]:
        if a["k"] in ("copy", "move"):
            m = re.search(r"\{closure@", a["place"]["ty"])
            if m:
                for (r, _p) in body.trace(a["place"]):
                    if r[0] == "agg":
                        st = body.blocks[r[1]]["stmts"][r[2]]
                        if st["rv"].get("akind") == "closure":
                            out.append(st["rv"]["closure"])
    return out


def _sorted_before_use(ctx, body, def_bb, root_pred):
    """Is there a sort call on the collection defined by the call in def_bb that every path to a return
    passes, with no other consumer of the collection before it?  Returns (ok, sort_site or reason)."""
    sort_blocks = []
    for b, t in body.calls():
        cal = mir.callee(t) or ""
        if mir.last_seg(cal) in SORTS and t["args"]:
            roots = body.trace_operand(t["args"][0])
            if any(root_pred(r) for (r, _p) in roots):
                sort_blocks.append(b)
    if not sort_blocks:
        return False, "no sort call on the collected vector"
    start = body.succs(def_bb)
    region = body.reachable(start, blocked=sort_blocks)
    # no other consumer before the sort
    for b in region:
        t = body.term(b)
        if t and t["k"] == "call":
            cal = mir.callee(t) or ""
            if any(n in mir.TRANSPARENT for n in mir.callee_names(t)):
                continue
            for a in t["args"]:
                if a["k"] in ("copy", "move"):
                    if any(root_pred(r) for (r, _p) in body.trace(a["place"])):
                        return False, "vector consumed by %s before it is sorted" % cal
        if t and t["k"] == "return":
            return False, "a path reaches the function exit without sorting"
    return True, sort_blocks


def rule_d1(ctx):
    res = RuleResult("D1", "no hash-ordered iteration reaches gate order, Env, ordered sinks or first-match exits")
    cg = ctx.cg
    if GATE_SINK not in ctx.fns:
        raise AnchorMissing("%s not found" % GATE_SINK)
    gate_reach = cg.reach_set({GATE_SINK})
    n_sites = 0
    diag_idioms = set()
    for f in ctx.facts["fns"]:
        if "mir" not in f or f.get("from_expansion"):
            continue
        body = ctx.body(f["id"])
        loops = None
        for b, t in body.calls():
            if not _is_hash_source(t):
                continue
            cal = t["func"].get("declared") or ""
            seg = mir.last_seg(cal)
            subs = t["func"].get("substs") or []
            site = "%s<%s>" % (seg, re.sub(r"'_, ?|'a, ?", "", (HASH_ITER.search(" ".join(subs)).group(0))))
            # make the site key stable but distinguishing: add the iterated map's access path
            src = ""
            if t["args"] and t["args"][0]["k"] in ("copy", "move"):
                tr = body.trace(t["args"][0]["place"], through=SRC_THROUGH)
                src = ";".join(sorted("%s%s" % (_rootname(body, r), "".join("." + x for x in p)) for r, p in tr))[:160]
            key_site = "%s over %s" % (site, src)
            sample = {"function": f["id"], "site": key_site, "at": mir.span_str(t["sp"])}

            def report(cls, detail, sp):
                res.bad(Finding("D1", f["id"], "%s: %s" % (key_site, cls),
                                "hash-ordered iteration (%s) %s" % (site, detail), sp), dict(sample, verdict=cls))

            if seg == "next":
                n_sites += 1
                if loops is None:
                    loops = body.loops()
                cands = [lp for lp in loops if b in lp["body"]]
                if not cands:
                    report("first-element", "takes the first element outside a loop", t["sp"])
                    continue
                lp = min(cands, key=lambda l: len(l["body"]))
                region = lp["body"]
                eff = region_effects(ctx, body, region, gate_reach)
                bad = False
                for cls, detail, sp in eff.items:
                    if cls == "memo":
                        continue
                    if cls == "ordered-sink":
                        # accepted when the collection is sorted after the loop before any use
                        pass
                    report(cls, detail, sp)
                    bad = True
                # early exits: edges leaving the loop from a block other than the one testing next()'s result
                normal_exit_blocks = _next_test_blocks(body, b, region)
                can_return = _can_return(body)
                for u in region:
                    if body.blocks[u]["cleanup"]:
                        continue
                    for v in body.succs(u):
                        if v not in region and u not in normal_exit_blocks and v in can_return:
                            # does the exit path return a diagnostic-only value?
                            if _exit_is_diagnostic(ctx, body, f, v):
                                diag_idioms.add("early `return Err(diagnostic)`")
                                continue
                            report("early-exit", "leaves the loop early from bb%d (first-match / break)" % u,
                                   body.term(u)["sp"])
                            bad = True
                if not bad:
                    res.ok(dict(sample, verdict="loop body effects within the allowed set",
                                effects=sorted({c for c, _, _ in eff.items})))
            elif seg in ADAPTERS or seg == "extend" or seg in ("collect", "from_iter", "for_each") or seg in COMMUTATIVE:
                n_sites += 1
                bad = False
                # closures run once per item in hash order
                for cl in _closure_args(ctx, body, t):
                    cb = ctx.body(cl)
                    eff = region_effects(ctx, cb, set(range(cb.n)), gate_reach, whole_body=True)
                    for cls, detail, sp in eff.items:
                        if cls == "memo":
                            continue
                        report("closure " + cls, detail, sp)
                        bad = True
                if seg in ("collect", "from_iter", "extend"):
                    if seg == "extend":
                        sink_ty = subs[0] if subs else ""
                        root_pred = None
                    else:
                        sink_ty = t["dest"]["ty"]
                    if KEYED.match(_referent(sink_ty)) or KEYED.match(sink_ty):
                        pass
                    elif DIAG.search(sink_ty):
                        diag_idioms.add("collect into diagnostic-only %s" % sink_ty)
                    elif seg == "extend":
                        report("ordered-sink", "extends ordered collection %s in hash order" % sink_ty, t["sp"])
                        bad = True
                    else:
                        ok, why = _sorted_before_use(ctx, body, b, lambda r, b=b: r[0] == "call" and r[1] == b)
                        if not ok:
                            report("ordered-sink", "is collected into ordered %s: %s" % (sink_ty, why), t["sp"])
                            bad = True
                        else:
                            sample = dict(sample, sorted_at=["bb%d" % x for x in why])
                if not bad:
                    res.ok(dict(sample, verdict="adapter/consumer within the allowed set"))
            elif seg in POSITIONAL:
                n_sites += 1
                if DIAG.search(t["dest"]["ty"]):
                    res.ok(dict(sample, verdict="order-dependent but diagnostic-only result"))
                else:
                    report("positional", "uses order-dependent consumer `%s`" % seg, t["sp"])
            elif seg in ("size_hint", "len", "is_empty", "clone", "drop", "drop_in_place"):
                continue
            else:
                n_sites += 1
                report("unclassified-consumer", "is passed to `%s`, which this rule cannot classify" % cal, t["sp"])
        # closures run once per element in hash order by the collection itself (retain / extract_if on a HashMap / HashSet)
        for b, t in body.calls():
            cal = t["func"].get("declared") or mir.callee(t) or ""
            if mir.last_seg(cal) in ("retain", "extract_if") and "std::collections::Hash" in cal and not body.blocks[b]["cleanup"]:
                n_sites += 1
                site = "%s over %s" % (mir.last_seg(cal), ";".join(sorted("%s%s" % (_rootname(body, r), "".join("." + x for x in p)) for r, p in body.trace_operand(t["args"][0])))[:160])
                bad = False
                for cl in _closure_args(ctx, body, t):
                    cb = ctx.body(cl)
                    eff = region_effects(ctx, cb, set(range(cb.n)), gate_reach, whole_body=True)
                    for cls, detail, sp in eff.items:
                        if cls == "memo":
                            continue
                        res.bad(Finding("D1", f["id"], "%s: closure %s" % (site, cls), "the closure given to %s runs once per entry in hash order and %s" % (mir.last_seg(cal), detail), sp),
                                {"function": f["id"], "site": site, "verdict": cls})
                        bad = True
                if not bad:
                    res.ok({"function": f["id"], "site": site, "verdict": "per-entry closure within the allowed set"})
        # Debug / Display formatting of hash collections outside panic messages
        for b, t in body.calls():
            cal = t["func"].get("declared") or ""
            if "fmt::rt::Argument" in cal and any(HASH_COLL.match(s) for s in (t["func"].get("substs") or [])):
                n_sites += 1
                exp = set(t["sp"][5])
                if exp & PANIC_MACROS:
                    res.ok({"function": f["id"], "site": "format of hash collection inside %s!" % sorted(exp & PANIC_MACROS)[0]})
                else:
                    res.bad(Finding("D1", f["id"], "format-hash-collection", "a HashMap/HashSet is formatted (hash order) outside a panic message", t["sp"]))
    res.idioms = sorted(diag_idioms) + [
        "keyed sinks (HashMap/HashSet/BTreeMap insert, entry) commute for distinct keys",
        "state defined inside the iteration is iteration-local",
        "commutative accumulation (+=, |=) into outer scalars",
        "collect::<Vec<_>> followed by sort* on every path before any other use",
        "check::TypedFns memo (assumption A1)",
    ]
    res.note("hash-ordered sites analysed: %d" % n_sites)
    if n_sites < 20:
        raise AnchorMissing("D1 found only %d hash-ordered iteration sites (counted 41 MIR call sites on the pinned tree): "
                            "the extractor no longer sees them" % n_sites)
    return res


def _rootname(body, r):
    if r[0] == "arg":
        return body.local_name(r[1]) or ("arg%d" % r[1])
    if r[0] == "local":
        return body.local_name(r[1]) or "tmp"
    if r[0] == "call":
        return "call(%s)" % mir.last_seg(r[2] or "?")
    return r[0]


def _next_test_blocks(body, next_bb, region):
    """Blocks that branch on the Option returned by the `next` call at next_bb (the loop's own exit)."""
    out = {next_bb}
    t = body.term(next_bb)
    dest = t["dest"]["l"]
    work = [t["target"]] if t.get("target") is not None else []
    seen = set()
    # follow straight-line blocks until the switch on discriminant(dest)
    while work:
        b = work.pop()
        if b in seen or b not in region:
            continue
        seen.add(b)
        info = body.switch_info(b)
        tb = body.term(b)
        if tb and tb["k"] == "switch":
            out.add(b)
            # the `None` target may be a trivial block inside the region that jumps out
            for s in body.succs(b):
                if s in region and len(body.blocks[s]["stmts"]) == 0 and body.term(s)["k"] == "goto":
                    out.add(s)
            continue
        if tb and tb["k"] in ("goto",):
            work.extend(body.succs(b))
    return out


def _can_return(body):
    if getattr(body, "_can_return", None) is None:
        preds = body.preds()
        seen = set()
        work = list(body.returns())
        while work:
            x = work.pop()
            if x in seen:
                continue
            seen.add(x)
            work.extend(preds.get(x, ()))
        body._can_return = seen
    return body._can_return


def _exit_is_diagnostic(ctx, body, f, v):
    """After leaving the loop at block v, does every path return an `Err(..)` whose payload type is diagnostic,
    or diverge?  Approximation: the function's return type is Result<_, E> with E diagnostic-only and the path from
    v to return assigns the Err variant to the return place."""
    out = f.get("output") or ""
    m = re.match(r"std::result::Result<.*, (.*)>$", out)
    if not m or not DIAG.search(m.group(1)):
        return False
    reach = body.reachable([v])
    # the return place must be written as Err on this path: look for an aggregate Result::Err assigned to _0
    for b in reach:
        for st in body.blocks[b]["stmts"]:
            if st["k"] == "assign" and st["place"]["l"] == 0 and st["rv"]["k"] == "aggregate" and st["rv"].get("variant") == "Err":
                return True
    return False


NONDET = re.compile(
    r"^(std::time::|std::thread::|std::env::|std::process::id|rand::|rand_core::|getrandom::|"
    r"std::hash::RandomState::new|std::collections::hash_map::RandomState::new|std::ptr::addr|"
    r"std::ptr::<impl \*(const|mut) T>::addr|std::ptr::<impl \*(const|mut) T>::expose|std::time::Instant|"
    r"std::time::SystemTime|std::sync::|std::fs::|std::io::stdin|std::net::)")

ENTRY_NAMES = [
    ("check", None), ("compile", None), ("compile_with_constants", None), ("compile_with_options", None),
    ("type_check", "&ast::Program<()>"), ("compile", "&ast::Program<ast::Type>"),
    ("compile_with_constants", "&ast::Program<ast::Type>"), ("to_register", None),
]


def rule_d3(ctx):
    res = RuleResult("D3", "no clock / thread / environment / RNG / address source reachable from compile entry points")
    entries = []
    for name, self_ty in ENTRY_NAMES:
        for f in ctx.find_fns(name, self_ty):
            if f["kind"] in ("fn", "assoc_fn") and (f.get("pub") or self_ty):
                entries.append(f["id"])
    entries = sorted(set(entries))
    if len(entries) < 6:
        raise AnchorMissing("D3: expected the public compile entry points, found %r" % entries)
    reach = ctx.cg.reachable_from(entries)
    n = 0
    for fid in sorted(reach):
        if fid not in ctx.fns or "mir" not in ctx.fns[fid]:
            if NONDET.match(fid):
                # external callee reached: find a caller for the report
                pass
            continue
        body = ctx.body(fid)
        for b, t in body.calls():
            n += 1
            for nme in mir.callee_names(t):
                if NONDET.match(nme):
                    res.bad(Finding("D3", fid, "call %s" % nme, "nondeterminism source %s reachable from the compile entry points" % nme, t["sp"],
                                    witness=ctx.cg.witness(entries[0], {fid})))
        ub = _ub_check_slice(body)
        for blk in body.blocks:
            if blk["cleanup"]:
                continue
            for st in blk["stmts"]:
                if st["k"] == "assign" and not st["place"]["p"] and st["place"]["l"] in ub:
                    continue  # operand of a compiler-inserted alignment / null UB check (debug profile)
                if st["k"] == "assign" and st["rv"]["k"] == "cast" and ("PointerExposeProvenance" in st["rv"]["kind"] or "PointerExposeAddress" in st["rv"]["kind"]):
                    if st["sp"][5]:
                        continue
                    res.bad(Finding("D3", fid, "ptr-to-int cast", "pointer-to-integer cast (address-dependent value)", st["sp"]))
                if st["k"] == "assign" and st["rv"]["k"] == "cast" and st["rv"]["kind"].startswith("Transmute") and st["rv"]["op"].get("place", {}).get("ty", "").startswith(("*const", "*mut", "&")) and st["rv"]["ty"] in ("usize", "u64") and not st["sp"][5]:
                    res.bad(Finding("D3", fid, "ptr transmute", "pointer transmuted to integer", st["sp"]))
    res.obligations += 1
    if not res.findings:
        res.discharged += 1
    res.samples.append({"entries": entries, "functions_in_closure": len(reach), "call_sites_scanned": n})
    return res


def _operand_locals(rv):
    out = []
    for k in ("op", "l", "r", "x"):
        o = rv.get(k)
        if isinstance(o, dict) and o.get("k") in ("copy", "move"):
            out.append(o["place"]["l"])
    for o in rv.get("ops", []) or []:
        if o.get("k") in ("copy", "move"):
            out.append(o["place"]["l"])
    if "place" in rv:
        out.append(rv["place"]["l"])
    return out


def _ub_check_slice(body):
    """Locals that only feed the `misaligned pointer dereference` / null-pointer Asserts rustc inserts in
    debug builds (backward slice of those asserts' conditions through plain assignments)."""
    work = []
    for blk in body.blocks:
        t = blk["term"]
        if t and t["k"] == "assert" and t["kind"] in ("MisalignedPointerDereference", "NullPointerDereference"):
            if t["cond"]["k"] in ("copy", "move"):
                work.append(t["cond"]["place"]["l"])
    seen = set()
    defs = body.defs()
    while work:
        l = work.pop()
        if l in seen or body.is_arg(l):
            continue
        seen.add(l)
        for d in defs.get(l, []):
            if d[0] == "assign":
                rv = d[3]["rv"]
                if rv["k"] in ("binop", "unop", "cast", "use"):
                    # stop at the pointer itself: only integer temporaries belong to the check
                    for ol in _operand_locals(rv):
                        if body.locals[ol]["ty"] in ("usize", "bool", "u64") or rv["k"] != "cast":
                            work.append(ol)
    return {l for l in seen if body.locals[l]["ty"] in ("usize", "bool", "u64")}


def rule_d4(ctx):
    res = RuleResult("D4", "sorts that launder hash-ordered vectors use a total key read from the element")
    n = 0
    for f in ctx.facts["fns"]:
        if "mir" not in f:
            continue
        body = ctx.body(f["id"])
        hash_collects = [b for b, t in body.calls() if _is_hash_source(t) and mir.last_seg(t["func"].get("declared") or "") in ("collect", "from_iter")
                         and ORDERED.match(t["dest"]["ty"]) and not DIAG.search(t["dest"]["ty"])]
        if not hash_collects:
            continue
        for b, t in body.calls():
            cal = mir.callee(t) or ""
            seg = mir.last_seg(cal)
            if seg not in SORTS or not t["args"]:
                continue
            roots = body.trace_operand(t["args"][0])
            if not any(r[0] == "call" and r[1] in hash_collects for (r, _p) in roots):
                continue
            n += 1
            site = "%s of vector collected from a hash map" % seg
            elem = t["args"][0]["place"]["ty"]
            if seg in ("sort", "sort_unstable"):
                # natural Ord of the element: tuples of (&String, &V) are totally ordered by key first: keys are unique
                res.ok({"function": f["id"], "site": site, "key": "element Ord (unique map keys)"})
                continue
            if seg in ("sort_by_key", "sort_unstable_by_key", "sort_by_cached_key"):
                cls = _closure_args(ctx, body, t)
                if len(cls) != 1:
                    res.bad(Finding("D4", f["id"], site, "sort key is not a closure literal", t["sp"]))
                    continue
                cb = ctx.body(cls[0])
                key_ty = cb.locals[0]["ty"]
                impure = [mir.callee(tt) for _, tt in cb.calls() if not (mir.callee(tt) or "").startswith(("std::", "core::"))]
                if "token::MetaInfo" in key_ty and not impure:
                    # MetaInfo has a hand-written total Ord over (start, end); two const definitions never share a span
                    ok_ord = any(ff["id"] == "<token::MetaInfo as std::cmp::Ord>::cmp" for ff in ctx.facts["fns"])
                    if ok_ord:
                        res.ok({"function": f["id"], "site": site, "key": key_ty, "note": "source span of the definition: unique per definition, total Ord"})
                        continue
                if seg == "sort_unstable_by_key" or impure:
                    res.bad(Finding("D4", f["id"], site, "sort key %s may tie or is impure: order of equal elements would follow hash order" % key_ty, t["sp"]))
                else:
                    res.bad(Finding("D4", f["id"], site + " key " + key_ty, "sort key %s is not known to be unique per element (ties keep hash order)" % key_ty, t["sp"]))
            else:
                res.bad(Finding("D4", f["id"], site, "comparator sort on hash-ordered vector cannot be shown total", t["sp"]))
    res.note("laundering sorts analysed: %d" % n)
    if (n < 2) and not res.findings:
        raise AnchorMissing("D4: expected the two const-definition sorts (check.rs, compile.rs), found %d" % n)
    return res


def run(ctx):
    return ctx.run_rules([rule_d1, rule_d3, rule_d4])
