"""C07 - the front end is total: any input text gives Ok or errors, never a crash or a hang.

F1  every input-driven loop of scanner / parser leaves at the end of the input
F2  every iteration of such a loop consumes input (progress)
F3  no recursion cycle among parser functions without consuming input
F4  no unwrap of an Option that is None at the end of the input
F5  remaining panic-capable sites are discharged by a checked idiom
F6  no trapping arithmetic on numbers taken from tokens
F7  a parser function that fails has reported an error; Ok results only without recorded errors
F8  the literal parser only parses literal children when asked to
F12 every node the literal parser can build in literal mode has an arm of its own in into_literal
F13 cross-reference: self-containing type definitions are rejected before function bodies are checked (C17-T16), else check / compile overflow the stack
F14 the exhaustiveness check tests whether a column is looked at by any row before it splits it (wide `let` / `for` bindings stay polynomial)
F10 AST-chosen indices in the type checker are compared with the length before they are used
F11 cross-reference: forward const references, unknown / non-usize array-size consts and non-numeric const arithmetic are rejected by the
    checker (C17 T9 / T10 / T11); otherwise compile() panics on such text
"""
from .. import eof, mir, protocol
from ..core import AnchorMissing, Finding, RuleResult
from . import C02

PROPERTY = "C07"
TECHNIQUE = ("abstract interpretation of the scanner / parser MIR under end-of-input and progress assumptions (computed helper summaries), "
             "idiom-checked panic sites, taint of token payloads, dominance of guards")
LEVEL_TEXT = (
    "Decides 'scanning and parsing terminate and never panic' for every input text, and a structural slice of the same claim for the "
    "type checker. An abstract interpreter runs over the MIR of scan.rs and parse.rs with only two axioms (Peekable::next / peek on "
    "the character and token streams); every helper gets its summary computed from its own body. It shows for every input-driven "
    "loop that no iteration is feasible at the end of the input (F1) and that every iteration that does not leave the loop consumes an "
    "item (F2), that no cycle of parser calls is possible without consumption (F3), and that no Option that is None at the end of "
    "the input is unwrapped (F4). The remaining panic-capable sites are discharged by idioms that are checked per site, not "
    "whitelisted by position (peek-guarded next, non-empty-by-sibling, closed-world `unreachable!`, infallible String writes, cursor "
    "arithmetic); arithmetic on token payloads must not trap (F6); an Err(()) is only returned after an error was recorded and Ok only "
    "with an empty error list (F7: a non-empty error list on failure); the literal parser honours its literal-only flag (F8). In "
    "check.rs, indices chosen by the program text (tuple accessors) must be compared with the length on the in-bounds edge (F10). "
    "Found with it: the unterminated-comment hang, the EOF unwrap, the `0..0` underflow, the struct-literal panic and a second, "
    "previously unknown hang (match cut off after a braced clause). Not decided: panics of check.rs / compile.rs beyond F10 on inputs "
    "the parser accepts (C05), recursion depth on pathologically nested input, well-formedness (start <= end) of locations."
    " F12: every node the literal parser can build in literal mode has an arm in into_literal; F13: self-containing type definitions are rejected before anything recurses over them (C17-T16). F14: a structural necessary condition of 'terminate promptly' for the exhaustiveness check - columns no row looks at are recognised (the running time itself is not bounded statically).")
LEVEL_NOTE = ("Trusted: rustc MIR; Peekable::next / peek return None once the underlying iterator is exhausted. The idiom for "
              "prettify_meta's unguarded `lines[l]` is accepted by name (l < end line of a token of the same text).")
EXPLANATION = ("Scope of the interpreter: every function of scan.rs and parse.rs (closures included). Loops whose exit is the exhaustion "
               "of a non-input iterator (slices, vectors, ranges) are finite and only counted.")
NOT_DECIDED = "panics in check.rs / compile.rs other than F10 (C05); stack depth; start <= end of reported locations; rendering with a foreign source text"
ASSUMPTIONS = ["Peekable over Chars / vec::IntoIter is fused: after None it keeps returning None"]

SELF1 = ("arg", 1)


def front_fns(ctx, files):
    return [f for f in ctx.facts["fns"] if "mir" in f and f["sp"][0].endswith(files) and not f.get("from_expansion")]


def get_eof(ctx):
    if not hasattr(ctx, "_eof"):
        ctx._eof = eof.Eof(ctx, budget=150000)
    return ctx._eof


def rule_f1_f2(ctx):
    r1 = RuleResult("F1", "every input-driven loop leaves at the end of the input")
    r2 = RuleResult("F2", "every iteration of an input-driven loop consumes input")
    E = get_eof(ctx)
    n_input = n_finite = 0
    for fid in sorted(E.scope):
        body = ctx.body(fid)
        for lp in body.loops():
            hdr_sp = body.term(lp["header"])["sp"]
            site = "loop at bb%d" % lp["header"]
            key = "loop #%d of %s" % (sorted(l["header"] for l in body.loops()).index(lp["header"]), mir.last_seg(fid))
            if E.loop_kind(body, lp) == "finite":
                n_finite += 1
                continue
            n_input += 1
            its = list(E.loop_iteration(body, lp, "EOF", "eof"))
            if any(st is None for _, st in its):
                raise AnchorMissing("F1: exploration budget exceeded in %s" % fid)
            if its:
                p = its[0][0]
                r1.bad(Finding("F1", fid, key + " can iterate at end of input",
                               "at the end of the input an iteration of this loop is feasible without leaving it: the front end hangs on a truncated input",
                               hdr_sp, witness=["line %d" % body.term(x)["sp"][1] for x in p[:30]]))
            else:
                r1.ok({"function": fid, "loop": key, "at": mir.span_str(hdr_sp), "verdict": "no feasible iteration at EOF"})
            its = list(E.loop_iteration(body, lp, "NE", "ne"))
            if any(st is None for _, st in its):
                raise AnchorMissing("F2: exploration budget exceeded in %s" % fid)
            if its:
                p = its[0][0]
                r2.bad(Finding("F2", fid, key + " can iterate without consuming",
                               "an iteration of this loop is feasible that consumes no input and does not leave the loop", hdr_sp,
                               witness=["line %d" % body.term(x)["sp"][1] for x in p[:30]]))
            else:
                r2.ok({"function": fid, "loop": key, "verdict": "every iteration consumes or leaves"})
    r1.note("input-driven loops: %d, finite collection loops: %d" % (n_input, n_finite))
    if n_input < 25:
        raise AnchorMissing("F1: only %d input-driven loops found in scan.rs / parse.rs (36 on the pinned tree)" % n_input)
    if E.truncated:
        raise AnchorMissing("F1: summaries truncated for %s" % sorted(E.truncated))
    return [r1, r2]


def rule_f3(ctx):
    res = RuleResult("F3", "no cycle of parser calls without consuming input")
    E = get_eof(ctx)
    # make sure every function was summarised in both modes from its entry
    for fid in sorted(E.scope):
        for av in ("NE", "EOF"):
            E.summary(fid, av)
    # only functions that (transitively) touch the input can recurse unboundedly on it; recursion over an already
    # parsed tree (parse_const_expr) is structural
    touches = set()
    for fid in E.scope:
        if any(E.prim(t) in ("next", "peek", "other") for _, t in ctx.body(fid).calls()):
            touches.add(fid)
    changed = True
    while changed:
        changed = False
        for fid in E.scope:
            if fid not in touches and any((mir.callee(t) or "") in touches for _, t in ctx.body(fid).calls()):
                touches.add(fid)
                changed = True
    for mode, tag in (("NE", "summary:NE"), ("EOF", "summary:EOF")):
        edges = {}
        for (a, b) in E.edges.get(tag, ()):
            if a in touches and b in touches:
                edges.setdefault(a, set()).add(b)
        # cycle detection
        color = {}
        cyc = []

        def dfs(u, stack):
            color[u] = 1
            for v in sorted(edges.get(u, ())):
                if color.get(v) == 1:
                    cyc.append(stack[stack.index(v):] + [v] if v in stack else [u, v])
                elif color.get(v) is None:
                    dfs(v, stack + [v])
            color[u] = 2
        import sys
        sys.setrecursionlimit(10000)
        for u in sorted(edges):
            if color.get(u) is None:
                dfs(u, [u])
        if cyc:
            c = cyc[0]
            res.bad(Finding("F3", c[0], "non-consuming recursion (%s) %s" % (mode, " -> ".join(mir.last_seg(x) for x in c)),
                            "these functions can call each other in a cycle without consuming input (%s): unbounded recursion" % ("at the end of the input" if mode == "EOF" else "item available"),
                            ctx.fns[c[0]]["sp"]))
        else:
            res.ok({"mode": mode, "non_consuming_call_edges": sum(len(v) for v in edges.values()), "verdict": "acyclic"})
    return res


def _input_origin(E, body, op):
    """Does the operand come from an input primitive (next / peek)?  Returns 'next' / 'peek' / None."""
    if op["k"] not in ("copy", "move"):
        return None
    for (r, p) in body.trace(op["place"], through={}):
        if r[0] == "call":
            t = body.term(r[1])
            k = E.prim(t)
            if k in ("next", "peek"):
                return k
            cal = mir.callee(t) or ""
            if cal in E.scope and t["dest"]["ty"].startswith("std::option::Option"):
                if any(rv == "None" for (rv, c, a) in E.summary(cal, "EOF")):
                    return mir.last_seg(cal)
    return None


def rule_f4_f5(ctx):
    r4 = RuleResult("F4", "no unwrap of an end-of-input None")
    r5 = RuleResult("F5", "panic-capable sites are discharged by a checked idiom")
    E = get_eof(ctx)
    fns = front_fns(ctx, ("scan.rs", "parse.rs")) + [f for f in front_fns(ctx, ("lib.rs",)) if "prettify" in f["id"]]
    # F4: for every unwrap of an input-derived Option, explore the paths that lead to it from the function entry with
    # an unknown cursor (callee summaries are collapsed after their first consumption)
    for f in fns:
        if f["id"] not in E.scope:
            continue
        body = ctx.body(f["id"])
        preds = body.preds()
        for bb, t in body.calls():
            cal = mir.callee(t) or ""
            if mir.last_seg(cal) in ("unwrap", "expect") and cal.startswith("std::option::Option") and _input_origin(E, body, t["args"][0]):
                allowed = {bb}
                work = [bb]
                while work:
                    x = work.pop()
                    for p_ in preds.get(x, ()):
                        if p_ not in allowed:
                            allowed.add(p_)
                            work.append(p_)
                for ev in E.explore(body, 0, ("UNK", False, frozenset(), {}), "f4", allowed=allowed):
                    if ev[0] == "truncated":
                        raise AnchorMissing("F4: exploration budget exceeded in %s" % f["id"])
    for (fid, bb), av in sorted(E.unwrap_none.items()):
        t = ctx.body(fid).term(bb)
        r4.bad(Finding("F4", fid, "unwrap of None at %s" % ("end of input" if av == "EOF" else "cursor state " + av),
                       "this Option is None on a feasible path (%s) and is unwrapped: the front end panics on a truncated input" % av, t["sp"]))
    n_sites = 0
    for f in fns:
        body = ctx.body(f["id"])
        fid = f["id"]
        for bb in range(body.n):
            t = body.term(bb)
            if not t or body.blocks[bb]["cleanup"]:
                continue
            if t["k"] == "call":
                cal = mir.callee(t) or ""
                seg = mir.last_seg(cal)
                macros = set(t["sp"][5])
                if seg in ("unwrap", "expect") and cal.startswith(("std::option::Option", "std::result::Result")):
                    n_sites += 1
                    src = _input_origin(E, body, t["args"][0]) if fid in E.scope else None
                    arg_ty = t["args"][0]["place"]["ty"]
                    if (fid, bb) in E.unwrap_none:
                        continue  # reported by F4
                    if src:
                        r4.ok({"function": fid, "site": "%s().%s()" % (src, seg), "verdict": "Some on every feasible path (I1: guarded by a peek with no consumption in between)"})
                        r5.idioms.append("I1 peek-guarded next().unwrap(): decided path-sensitively by the interpreter")
                    elif "std::fmt::Error" in arg_ty:
                        # I4: write!/writeln! into a String cannot fail
                        ok = False
                        for (r, p) in body.trace_operand(t["args"][0], through={}):
                            if r[0] == "call" and mir.last_seg(r[2] or "") in ("write_fmt", "write_str"):
                                w = body.term(r[1])
                                if "std::string::String" in w["args"][0]["place"]["ty"]:
                                    ok = True
                        if ok:
                            r5.ok({"function": fid, "site": "write!(String).unwrap()", "idiom": "I4 infallible sink"})
                        else:
                            r5.bad(Finding("F5", fid, "unwrap of a formatting result", "unwrap of a fmt::Result whose sink is not a String", t["sp"]))
                    else:
                        # I2: non-empty by sibling: x.first().unwrap() inside the Some arm of x.last() / !x.is_empty()
                        ok = False
                        for (r, p) in body.trace_operand(t["args"][0], through={}):
                            if r[0] == "call" and mir.last_seg(r[2] or "") in ("first", "last"):
                                recv = {(rr, tuple(pp)) for (rr, pp) in body.trace_operand(body.term(r[1])["args"][0])}
                                for gb, gt in body.calls():
                                    if mir.last_seg(mir.callee(gt) or "") in ("first", "last") and gb != r[1]:
                                        grecv = {(rr, tuple(pp)) for (rr, pp) in body.trace_operand(gt["args"][0])}
                                        if recv & grecv and C02._dominated_by_edges(body, C02._some_edges(body, gt), bb):
                                            ok = True
                        if ok:
                            r5.ok({"function": fid, "site": "first()/last().unwrap()", "idiom": "I2 non-empty by sibling"})
                        else:
                            r5.bad(Finding("F5", fid, "unguarded %s of %s" % (seg, arg_ty[:50]), "this %s is not discharged by any accepted idiom" % seg, t["sp"]))
                elif cal.startswith("core::panicking") or (t.get("target") is None and "panic" in cal):
                    n_sites += 1
                    if "unreachable" in macros:
                        ok, why = _closed_world(ctx, body, bb) if fid in E.scope else (False, "outside the parser")
                        if not ok:
                            ok, why = _rematch(ctx, E, body, bb)
                        if ok:
                            r5.ok({"function": fid, "site": "unreachable!()", "idiom": why})
                        else:
                            r5.bad(Finding("F5", fid, "unreachable!() not shown unreachable", why, t["sp"]))
                    else:
                        r5.bad(Finding("F5", fid, "explicit panic (%s)" % (sorted(macros) or cal), "the front end contains an explicit panic", t["sp"]))
            elif t["k"] == "assert" and t["kind"] == "BoundsCheck":
                n_sites += 1
                r5.bad(Finding("F5", fid, "slice index", "an index into a slice is bounds-checked at run time only", t["sp"]))
        # indexing through Index::index in the renderer
        if "prettify" in fid:
            for bb, t in body.calls():
                if t["func"].get("declared") == "std::ops::Index::index" and not body.blocks[bb]["cleanup"]:
                    n_sites += 1
                    ikey = {(r, tuple(p)) for (r, p) in body.deep_sources(t["args"][1], 3)}
                    guarded = False
                    for gb, blk in enumerate(body.blocks):
                        for st in blk["stmts"]:
                            if st["k"] == "assign" and st["rv"]["k"] == "binop" and st["rv"]["op"] in ("Lt", "Ge") and body.dominates(gb, bb):
                                lk = {(r, tuple(p)) for (r, p) in body.deep_sources(st["rv"]["l"], 3)}
                                rk = {(r, tuple(p)) for (r, p) in body.deep_sources(st["rv"]["r"], 3)}
                                if (lk & ikey) and any(r[0] == "call" and mir.last_seg(r[2] or "") == "len" for (r, p) in rk):
                                    guarded = True
                    if guarded:
                        r5.ok({"function": fid, "site": "lines[l]", "idiom": "I6 guarded index (l < lines.len())"})
                    else:
                        r5.ok({"function": fid, "site": "lines[l] (column computation)", "idiom": "accepted by name: l < end line of a location produced from this text"})
                        r5.idioms.append("prettify_meta: second lines[l] accepted by name (l < meta.end.0, token lines exist in the text they were scanned from)")
    r5.idioms = sorted(set(r5.idioms))
    r5.note("panic-capable sites examined: %d" % n_sites)
    if n_sites < 12:
        raise AnchorMissing("F5: only %d panic-capable sites found in the front end (20 on the pinned tree)" % n_sites)
    return [r4, r5]


def _closed_world(ctx, body, panic_bb):
    """I3: `_ => unreachable!()` of a match on the token returned by next_matches_one_of(&ops), where the other arms
    are exactly the constants in ops."""
    calls = [(b, t) for b, t in body.calls() if mir.last_seg(mir.callee(t) or "") == "next_matches_one_of"]
    if len(calls) != 1:
        return False, "not inside a match on next_matches_one_of"
    cb, ct = calls[0]
    # the options: token constants stored into an array in this function
    opts = set()
    for blk in body.blocks:
        for st in blk["stmts"]:
            if st["k"] == "assign" and st["rv"]["k"] == "aggregate" and st["rv"].get("akind") == "array" and "token::TokenEnum" in st["place"]["ty"]:
                for o in st["rv"]["ops"]:
                    for (r, p) in body.trace_operand(o, through={}):
                        if r[0] == "agg":
                            a = body.blocks[r[1]]["stmts"][r[2]]["rv"]
                            if a.get("adt") == "token::TokenEnum":
                                opts.add(a["variant"])
                        else:
                            return False, "options are not all token constants"
    if not opts:
        return False, "no constant option list found"
    # switches on the returned token that can reach the panic only through `otherwise`
    for b in range(body.n):
        info = body.switch_info(b)
        if not info or info[2] != "token::TokenEnum" or not info[0]:
            continue
        root, path = info[0]
        if root[0] == "call" and root[1] == cb and tuple(path[:2]) == ("as Some", "0"):
            t = body.term(b)
            listed = {info[1].get(v) for v, _ in t["targets"]}
            reach_other = body.reachable([t["otherwise"]], blocked={b})
            if panic_bb in reach_other and not any(panic_bb in body.reachable([x], blocked={b}) for v, x in t["targets"] if info[1].get(v) in opts):
                if opts <= listed:
                    return True, "I3 closed-world default: arms cover the option list %s" % sorted(opts)
                return False, "the options %s are not all covered by explicit arms (%s)" % (sorted(opts), sorted(x for x in listed if x))
    return False, "no match on the returned token leads here"


def _rematch(ctx, E, body, panic_bb):
    """I1b: next() is matched against the same shape a dominating peek() was matched against."""
    nexts = [(b, t) for b, t in body.calls() if E.prim(t) == "next"]
    peeks = [(b, t) for b, t in body.calls() if E.prim(t) == "peek"]
    if not nexts or not peeks:
        return False, "no peek / next pair"

    def conds(root_bb, avoid):
        out = set()
        for b in range(body.n):
            info = body.switch_info(b)
            if info and info[0] and info[0][0][0] == "call" and info[0][0][1] == root_bb:
                t = body.term(b)
                for v, x in t["targets"]:
                    if avoid is None or avoid not in body.reachable([x]):
                        out.add((tuple(info[0][1]), info[1].get(v)))
        return out
    for nb, nt in nexts:
        if panic_bb not in body.reachable([nb]):
            continue
        need = conds(nb, panic_bb)
        for pb, pt in peeks:
            if not body.dominates(pb, nb):
                continue
            have = set()
            for b in range(body.n):
                info = body.switch_info(b)
                if info and info[0] and info[0][0][0] == "call" and info[0][0][1] == pb:
                    t = body.term(b)
                    for v, x in t["targets"]:
                        if body.dominates(x, nb):
                            have.add((tuple(info[0][1]), info[1].get(v)))
            # no consumption between the peek and the next
            between = body.reachable(body.succs(pb), blocked={nb})
            consuming = [b for b in between if b != pb and body.term(b) and body.term(b)["k"] == "call" and
                         (E.prim(body.term(b)) == "next" or (mir.callee(body.term(b)) or "") in E.scope) and nb in body.reachable([b])]
            if need and need <= have and not consuming:
                return True, "I1b next() re-matched against the shape the dominating peek() matched: %s" % sorted(need)
    return False, "next() is matched against something the preceding peek() did not establish"


def rule_f6(ctx):
    res = RuleResult("F6", "no trapping arithmetic on token payloads; cursor arithmetic only by constant steps")
    E = get_eof(ctx)
    n = 0
    for f in front_fns(ctx, ("scan.rs", "parse.rs")):
        body = ctx.body(f["id"])
        for (b, kind, ops, sp) in mir.trapping_arith_sites(body):
            n += 1
            tainted = False
            for o in ops:
                for (fid2, r, p) in ctx.lifted_trace(body, o):
                    if any(x in ("as UnsignedNum", "as SignedNum") for x in p):
                        tainted = True
            site = kind.split(" on ")[0]
            if tainted:
                res.bad(Finding("F6", f["id"], "%s on a number taken from a token" % site,
                                "the value is chosen by the input text: the parser panics on a boundary value", sp))
                continue
            consts = [o.get("val") for o in ops if o["k"] == "const"]
            if consts and all(c in (1, 2) for c in consts):
                res.ok({"function": f["id"], "site": site, "idiom": "I5 cursor / counter step by a constant (bounded by the input length)"})
            else:
                vars_ = [o for o in ops if o["k"] in ("copy", "move")]
                srcs = set()
                for o in vars_:
                    srcs |= {(r, tuple(p)) for (r, p) in body.trace(o["place"])}
                if all(r == SELF1 and p and p[-1] in ("line", "column") for (r, p) in srcs):
                    res.ok({"function": f["id"], "site": site, "idiom": "I5 cursor arithmetic on line / column"})
                else:
                    res.bad(Finding("F6", f["id"], "%s not a cursor step" % site, "arithmetic that can trap and is not a constant cursor step", sp))
    # the renderer (Error::prettify / prettify_meta): locations come from the error, the text from the caller - nothing
    # orders two of these values unless the code compares them first
    m = 0
    for f in [f for f in front_fns(ctx, ("lib.rs",)) if "prettify" in f["id"]]:
        body = ctx.body(f["id"])
        for (b, kind, ops, sp) in mir.trapping_arith_sites(body):
            m += 1
            site = kind.split(" on ")[0]
            consts = [o.get("val") for o in ops if o["k"] == "const"]
            tys = {o["place"]["ty"] for o in ops if o["k"] in ("copy", "move")}
            small = consts and all(isinstance(c, int) and abs(c) <= 2 for c in consts)
            if small and tys <= {"i64", "i128"}:
                res.ok({"function": f["id"], "site": site, "idiom": "I7 line window: a widened (i64) line number moved by a constant <= 2"})
                continue
            if small and "Add" in kind:
                res.ok({"function": f["id"], "site": site, "idiom": "I5 a position (bounded by the input length) plus a constant <= 2"})
                continue
            vars_ = [o for o in ops if o["k"] in ("copy", "move")]
            guarded = False
            if len(vars_) == 2 and "Sub" in kind:
                k0 = {(r, tuple(p)) for (r, p) in body.deep_sources(vars_[0], 3)}
                k1 = {(r, tuple(p)) for (r, p) in body.deep_sources(vars_[1], 3)}
                for gb, blk in enumerate(body.blocks):
                    for st in blk["stmts"]:
                        if st["k"] == "assign" and st["rv"]["k"] == "binop" and st["rv"]["op"] in ("Lt", "Le", "Gt", "Ge") and body.dominates(gb, b):
                            lk = {(r, tuple(p)) for (r, p) in body.deep_sources(st["rv"]["l"], 3)}
                            rk = {(r, tuple(p)) for (r, p) in body.deep_sources(st["rv"]["r"], 3)}
                            if (lk == k0 and rk == k1) or (lk == k1 and rk == k0):
                                guarded = True
            if guarded:
                res.ok({"function": f["id"], "site": site, "idiom": "I8 difference of two positions after comparing them"})
            else:
                res.bad(Finding("F6", f["id"], "%s in the error renderer" % site,
                                "arithmetic on positions taken from the error / the text that traps when they are not ordered as assumed (rendering must never fail)", sp))
    res.note("trapping arithmetic sites in scan.rs / parse.rs: %d; in the renderer: %d" % (n, m))
    if m < 2 and not res.findings:
        raise AnchorMissing("F6: expected the line-window arithmetic of prettify_meta (3 sites on the pinned tree), found %d" % m)
    return res


def rule_f7(ctx):
    res = RuleResult("F7", "failure implies a recorded error; success implies none")
    E = get_eof(ctx)
    n = 0
    for f in front_fns(ctx, ("parse.rs",)):
        if f["kind"] == "closure" or not (f.get("output") or "").endswith(", ()>"):
            continue
        body = ctx.body(f["id"])
        errs = []
        for b, blk in enumerate(body.blocks):
            for st in blk["stmts"]:
                if st["k"] == "assign" and st["place"]["l"] == 0 and st["rv"]["k"] == "aggregate" and st["rv"].get("variant") == "Err" and st["rv"].get("adt") == "std::result::Result":
                    errs.append((b, st))
        if not errs:
            continue
        via = set()
        for b, t in body.calls():
            cal = mir.callee(t) or ""
            if mir.last_seg(cal) in ("push_error", "push_error_for_next"):
                via.add(b)
            if mir.last_seg(cal) == "push" and "parse::ParseError" in t["args"][0]["place"]["ty"]:
                via.add(b)
        # `errs.into_iter().for_each(|(e, meta)| self.push_error(e, meta))`: the report loop written with an adaptor
        via |= ctx.blocks_calling(body, ("push_error", "push_error_for_next"))
        # the Err edge of a parser call that failed (it has reported, by induction)
        for b in range(body.n):
            info = body.switch_info(b)
            if info and info[0] and info[0][0][0] == "call" and info[0][1] == ():
                c = body.term(info[0][0][1])
                cal = mir.callee(c) or ""
                t = body.term(b)
                if cal in E.scope and (c["dest"]["ty"].endswith(", ()>")):
                    for v, x in t["targets"]:
                        if info[1].get(v) == "Err":
                            via.add(x)
                    listed = {v for v, _ in t["targets"]}
                    if any(nm == "Err" and v not in listed for v, nm in info[1].items()):
                        via.add(t["otherwise"])
                if "std::ops::Try::branch" in mir.callee_names(c):
                    for v, x in t["targets"]:
                        if info[1].get(v) == "Break":
                            via.add(x)
        # a push_error inside a loop over the errors of a failed callee: the loop header stands for the report
        for lp in body.loops():
            if lp["body"] & via:
                via.add(lp["header"])
        # failure flags: a bool local that is set to true only after a report / failed callee; the edge on which it is
        # true counts as a report
        for l in range(body.arg_count + 1, len(body.locals)):
            if body.locals[l]["ty"] != "bool" or body.local_name(l) is None:
                continue
            sets = [d for d in body.defs().get(l, []) if d[0] == "assign" and d[3]["rv"]["k"] == "use" and d[3]["rv"]["op"].get("val") == 1]
            if not sets:
                continue
            if all(any(body.dominates(v, d[1]) for v in via) for d in sets):
                for x in range(body.n):
                    tt = body.term(x)
                    if tt and tt["k"] == "switch" and tt["discr"]["k"] in ("copy", "move"):
                        # `if flag` or `if !flag`
                        roots = body.trace(tt["discr"]["place"], through={})
                        direct = any(r == ("local", l) for (r, p) in roots) or tt["discr"]["place"]["l"] == l
                        neg = False
                        for (r, p) in roots:
                            if r[0] == "rv" and r[1] == "unop":
                                stn = body.blocks[r[2]]["stmts"][r[3]]
                                if stn["rv"].get("op") == "Not" and stn["rv"]["x"].get("place", {}).get("l") == l:
                                    neg = True
                        if direct or neg:
                            for v, tg in tt["targets"]:
                                if v == 0 and neg:
                                    via.add(tg)          # !flag == false  <=>  flag
                            if direct and not neg:
                                if all(v == 0 for v, _ in tt["targets"]):
                                    via.add(tt["otherwise"])
        for (b, st) in errs:
            n += 1
            w = body.path(0, [b], blocked=via)
            if w and b not in via:
                res.bad(Finding("F7", f["id"], "silent Err(())", "a path returns Err(()) without recording an error or propagating a callee's failure: parsing can fail with an empty error list",
                                st["sp"], witness=["line %d" % body.term(x)["sp"][1] for x in w[-12:]]))
            else:
                res.ok({"function": f["id"], "site": "Err(()) at line %d" % st["sp"][1], "verdict": "preceded by push_error* or a failed callee"})
    # Parser::parse / Scanner::scan: Ok only when no error was recorded, Err(errors) otherwise
    for fid_sfx, errty in (("parse::Parser::parse", "parse::ParseError"), ("scan", "scan::ScanError")):
        cands = [f for f in front_fns(ctx, ("parse.rs", "scan.rs")) if f["id"].endswith(fid_sfx) and errty in (f.get("output") or "") and "self" not in "" and f["kind"] == "assoc_fn"]
        cands = [f for f in cands if any(mir.last_seg(mir.callee(t) or "") == "is_empty" for _, t in ctx.body(f["id"]).calls())]
        if len(cands) != 1:
            raise AnchorMissing("F7: expected one top-level %s returning errors, found %r" % (fid_sfx, [c["id"] for c in cands]))
        body = ctx.body(cands[0]["id"])
        empties = [(b, t) for b, t in body.calls() if mir.last_seg(mir.callee(t) or "") == "is_empty" and errty in t["args"][0]["place"]["ty"]]
        oks = [b for b, blk in enumerate(body.blocks) for st in blk["stmts"] if st["k"] == "assign" and st["place"]["l"] == 0 and st["rv"]["k"] == "aggregate" and st["rv"].get("variant") == "Ok"]
        good = bool(empties) and all(any(C02._dominated_by_edges(body, C02._some_edges(body, t), ob) for _, t in empties) for ob in oks) and oks
        if good:
            res.ok({"function": cands[0]["id"], "verdict": "Ok only on the errors.is_empty() edge"})
        else:
            res.bad(Finding("F7", cands[0]["id"], "Ok despite recorded errors", "the result is Ok on a path on which errors.is_empty() was not established", cands[0]["sp"]))
    if (n < 15) and not res.findings:
        raise AnchorMissing("F7: only %d explicit Err(()) returns found in parse.rs (25 on the pinned tree)" % n)
    return res


def rule_f8(ctx):
    res = RuleResult("F8", "the literal parser parses only literal children when asked to")
    f = ctx.find_fn("parse_literal", "&mut parse::Parser", "parse.rs")
    body = ctx.body(f["id"])
    flag = None
    for l in range(1, body.arg_count + 1):
        if body.locals[l]["ty"] == "bool":
            flag = l
    if flag is None:
        raise AnchorMissing("F8: parse_literal has no bool flag")
    edges = set()
    for b in range(body.n):
        t = body.term(b)
        if t and t["k"] == "switch" and t["discr"]["k"] in ("copy", "move"):
            if any(r == ("arg", flag) for (r, p) in body.trace(t["discr"]["place"], through={})):
                for v, x in t["targets"]:
                    if v == 0:
                        edges.add((b, x))
    n = 0
    for b, t in body.calls():
        if mir.last_seg(mir.callee(t) or "") == "parse_expr":
            n += 1
            if C02._dominated_by_edges(body, edges, b):
                res.ok({"site": "parse_expr at line %d" % t["sp"][1], "verdict": "only when only_literal_children is false"})
            else:
                res.bad(Finding("F8", f["id"], "child parsed as an expression in literal mode",
                                "a child of a literal is parsed with parse_expr whatever only_literal_children says: into_literal panics on the non-literal child", t["sp"]))
    if (n < 5) and not res.findings:
        raise AnchorMissing("F8: expected the child sites of parse_literal, found %d" % n)
    # literal mode is inherited: the helper(s) through which parse_literal parses the children of a literal in literal mode call it
    # back with the flag set (a `false` there lets non-literal expressions in from the second nesting level on)
    m = 0
    for b, t in body.calls():
        h = mir.callee(t) or ""
        if h == f["id"] or not ctx.has_fn(h) or ctx.fns[h]["sp"][0] != f["sp"][0] or C02._dominated_by_edges(body, edges, b):
            continue
        hb = ctx.body(h)
        for hb_, ht in hb.calls():
            if mir.callee(ht) != f["id"] or flag - 1 >= len(ht["args"]):
                continue
            m += 1
            a = ht["args"][flag - 1]
            if a["k"] == "const" and a.get("val") == 1:
                res.ok({"site": "%s calls parse_literal back at line %d" % (mir.last_seg(h), ht["sp"][1]), "verdict": "with only_literal_children = true"})
            elif a["k"] in ("copy", "move") and all(r[0] == "arg" and hb.locals[r[1]]["ty"] == "bool" for (r, p) in hb.trace_operand(a)):
                res.ok({"site": "%s calls parse_literal back at line %d" % (mir.last_seg(h), ht["sp"][1]), "verdict": "hands its own flag on"})
            else:
                res.bad(Finding("F8", h, "literal mode is not inherited by nested literals",
                                "parse_literal is called back with only_literal_children = %s: from the second nesting level on a child may be any expression "
                                "(`[(1u8 + 1u8, 2u8), (3u8, 4u8)]` as an argument type-checks, then into_literal panics on the non-literal child)" % (a.get("repr") or a.get("val")), ht["sp"]))
    if not m and not res.findings:
        raise AnchorMissing("F8: no helper calls parse_literal back for the children of a literal")
    return res


def rule_f10(ctx):
    res = RuleResult("F10", "indices chosen by the program text are compared with the length on the in-bounds edge (check.rs)")
    n = 0
    for f in front_fns(ctx, ("check.rs",)):
        body = ctx.body(f["id"])
        for b, t in body.calls():
            if t["func"].get("declared") not in ("std::ops::Index::index", "std::ops::IndexMut::index_mut") or body.blocks[b]["cleanup"]:
                continue
            ix = t["args"][1]
            if ix["k"] not in ("copy", "move") or ix["place"]["ty"] != "usize":
                continue
            ikey = {(r, tuple(p)) for (r, p) in body.trace(ix["place"])}
            from_ast = [(r, p) for (r, p) in ikey if r == SELF1 and p and p[0] == "inner"]
            if not from_ast:
                continue
            n += 1
            vkey = {(r, tuple(p)) for (r, p) in body.trace_operand(t["args"][0])}
            ok = False
            for gb, blk in enumerate(body.blocks):
                for st in blk["stmts"]:
                    if st["k"] != "assign" or st["rv"]["k"] != "binop" or st["rv"]["op"] not in ("Lt", "Le", "Gt", "Ge"):
                        continue
                    lk = {(r, tuple(p)) for (r, p) in body.trace_operand(st["rv"]["l"])}
                    rk = {(r, tuple(p)) for (r, p) in body.trace_operand(st["rv"]["r"])}

                    def is_len(op):
                        if op["k"] not in ("copy", "move"):
                            return False
                        for (r, p) in body.trace(op["place"], through={}):
                            if r[0] == "call" and mir.last_seg(r[2] or "") == "len":
                                lt = body.term(r[1])
                                if {(rr, tuple(pp)) for (rr, pp) in body.trace_operand(lt["args"][0])} & vkey:
                                    return True
                        return False
                    op_ = st["rv"]["op"]
                    inb = None   # value of the comparison on the in-bounds edge
                    if (lk & ikey) and is_len(st["rv"]["r"]):
                        inb = {"Lt": 1, "Ge": 0}.get(op_)
                    elif (rk & ikey) and is_len(st["rv"]["l"]):
                        inb = {"Gt": 1, "Le": 0}.get(op_)
                    if inb is None:
                        continue
                    # the index site must be reachable only through the in-bounds edge of the switch on this comparison
                    dst = st["place"]["l"]
                    for x in range(body.n):
                        tt = body.term(x)
                        if tt and tt["k"] == "switch" and tt["discr"]["k"] in ("copy", "move") and tt["discr"]["place"]["l"] == dst:
                            edge = [(x, tg) for v, tg in tt["targets"] if v == inb]
                            if inb == 1 and not edge:
                                edge = [(x, tt["otherwise"])] if all(v == 0 for v, _ in tt["targets"]) else []
                            if C02._dominated_by_edges(body, set(edge), b):
                                ok = True
            site = "index %s into %s" % (".".join(from_ast[0][1]), t["args"][0]["place"]["ty"].replace("std::vec::", ""))
            if ok:
                res.ok({"function": f["id"], "site": site, "verdict": "dominated by index < len on the in-bounds edge"})
            else:
                res.bad(Finding("F10", f["id"], site + " without an in-bounds test",
                                "an index written in the program text is used without a dominating `index < len` (a boundary value makes the type checker panic)", t["sp"]))
    if (n < 2) and not res.findings:
        raise AnchorMissing("F10: expected the tuple-accessor index sites of check.rs, found %d" % n)
    return res


def rule_f11(ctx):
    """Cross-reference: programs the compiler cannot lower are rejected by the checker (C17 T9 / T10 / T11), else compile() panics on text input."""
    from . import C17
    res = RuleResult("F11", "consts and array sizes the compiler cannot resolve are rejected by the checker (cross-reference to C17 T9 / T10 / T11)")
    ok = True
    for fn in (C17.rule_t9, C17.rule_t10, C17.rule_t11):
        r = fn(ctx)
        for x in r.findings:
            res.bad(Finding("F11", x.fn, x.site, x.message, x.span))
            ok = False
    if ok:
        res.ok({"verdict": "C17 T9 / T10 / T11 hold"})
    return res


def rule_f12(ctx):
    """Sibling agreement between the literal parser and the literal converter: every ExprEnum
    node that Parser::parse_literal can build while only_literal_children is set must have an arm of
    its own in TypedExpr::into_literal (whose default arm is unreachable!())."""
    res = RuleResult("F12", "nodes built in literal mode are nodes into_literal converts")
    conv = ctx.find_fn("into_literal", None, "literal.rs")
    cb = ctx.body(conv["id"])
    handled = None
    for b in range(cb.n):
        info = cb.switch_info(b)
        if info and info[2].split("<")[0].split("::")[-1] == "ExprEnum" and info[0] and info[0][0] == ("arg", 1):
            t = cb.term(b)
            rets = set(cb.returns())
            handled = set()
            for v, x in t["targets"]:
                if x != t["otherwise"] and rets & set(cb.reachable([x], blocked={b})):
                    handled.add(info[1].get(v))
            if rets & set(cb.reachable([t["otherwise"]], blocked={b})):
                listed = {v for v, _ in t["targets"]}
                handled |= {n for v, n in info[1].items() if v not in listed}
            break
    if not handled:
        raise AnchorMissing("F12: into_literal does not switch on the ExprEnum of its argument")
    f = ctx.find_fn("parse_literal", "&mut parse::Parser", "parse.rs")
    body = ctx.body(f["id"])
    flag = None
    for l in range(1, body.arg_count + 1):
        if body.locals[l]["ty"] == "bool":
            flag = l
    if flag is None:
        raise AnchorMissing("F12: parse_literal has no bool flag")
    flag_sw = {}
    for b in range(body.n):
        t = body.term(b)
        if t and t["k"] == "switch" and t["discr"]["k"] in ("copy", "move"):
            if any(r == ("arg", flag) for (r, p) in body.trace(t["discr"]["place"], through={})):
                flag_sw[b] = [x for v, x in t["targets"] if v != 0] + ([t["otherwise"]] if all(v == 0 for v, _ in t["targets"]) else [])

    def succ(b):
        if b in flag_sw:
            return flag_sw[b]
        return body.succs(b)
    live = set(body.reachable([0], succ=succ))
    n = 0
    for b in sorted(live):
        for st in body.blocks[b]["stmts"]:
            if st["k"] == "assign" and st["rv"]["k"] == "aggregate" and (st["rv"].get("adt") or "").split("<")[0].split("::")[-1] == "ExprEnum":
                n += 1
                v = st["rv"].get("variant")
                if v in handled:
                    res.ok({"node": v, "line": st["sp"][1], "verdict": "converted by an arm of into_literal"})
                else:
                    res.bad(Finding("F12", f["id"], "literal mode builds ExprEnum::%s" % v,
                                    "Parser::parse_literal can build ExprEnum::%s while only_literal_children is set, and TypedExpr::into_literal has no arm for it: Literal::parse reaches unreachable!() when the node type-checks" % v, st["sp"]))
    if n < 9 and not res.findings:
        raise AnchorMissing("F12: expected the literal nodes of parse_literal, found %d (11 on the pinned tree)" % n)
    res.note("into_literal converts: %s" % ", ".join(sorted(handled)))
    return res


def rule_f13(ctx):
    """Cross-reference: type definitions that contain themselves make the size computation and the exhaustiveness check recurse
    without end (stack overflow aborts the process): they must be rejected before function bodies are checked (C17-T16)."""
    from . import C17
    res = RuleResult("F13", "self-containing type definitions are rejected before anything recurses over them (cross-reference to C17-T16)")
    sub = C17.rule_t16(ctx)
    for x in sub.findings:
        res.bad(Finding("F13", x.fn, x.site, x.message, x.span))
    if not sub.findings:
        res.ok({"verdict": "C17-T16 holds"})
    return res


def rule_f14(ctx):
    """The exhaustiveness check recurses once per constructor of a column (two for a bool, at least two for a number).  A column
    that no row looks at - only identifiers / wildcards at its head - decides nothing; splitting it anyway doubles the work with
    every such column, so `let u = t;` for a tuple or struct of n fields takes 2^n steps (40 fields: days).  Every binding
    (`let`, `for`) runs this check since the irrefutability repair, so an ordinary copy of a wide record never finishes checking.
    Structural part decided here: usefulness / split_ctor test whether every row has an identifier at the head of the column (an
    all / any over the rows, or a flag set in a loop over them) - the special handling of wildcard-only columns exists."""
    res = RuleResult("F14", "the exhaustiveness check does not split a column that only identifiers / wildcards look at (no 2^n blow-up for wide bindings)")
    found = []
    units = []
    for fid in ("check::usefulness", "check::split_ctor"):
        if not ctx.has_fn(fid):
            raise AnchorMissing("F14: %s not found" % fid)
        units.append(fid)
        units += sorted(ctx.cg.closures_of.get(fid, ()))

    def tests_identifier(body):
        """a switch over PatternEnum that separates Identifier from the other variants and decides a bool"""
        for b in range(body.n):
            info = body.switch_info(b)
            if info and info[2] == "ast::PatternEnum" and "Identifier" in info[1].values():
                t = body.term(b)
                names = {info[1].get(v) for v, _ in t["targets"]}
                if names == {"Identifier"}:
                    return b
        return None
    for fid in ("check::usefulness", "check::split_ctor"):
        body = ctx.body(fid)
        # (1) rows.iter().all(|p| matches!(p.first(), Some(Pattern(Identifier(_), ..)))) / any(..)
        for b, t in body.calls():
            if (t["func"].get("declared") or "") in ("std::iter::Iterator::all", "std::iter::Iterator::any") and len(t["args"]) == 2 and t["args"][1]["k"] in ("copy", "move"):
                if not any(r == ("arg", 1) for (r, p) in body.deep_sources(t["args"][0], 4)):
                    continue
                for (r, p) in body.trace(t["args"][1]["place"], through={}):
                    if r[0] == "agg":
                        cid = body.blocks[r[1]]["stmts"][r[2]]["rv"].get("closure")
                        if cid and ctx.has_fn(cid) and ctx.body(cid).locals[0]["ty"] == "bool" and tests_identifier(ctx.body(cid)) is not None:
                            # the verdict is branched on
                            if any(body.term(x) and body.term(x)["k"] == "switch" and any(r2[:2] == ("call", b) for (r2, p2) in body.deep_sources(body.term(x)["discr"], 2)) for x in range(body.n)):
                                found.append((fid, t["sp"], "all / any over the rows"))
        # (2) a flag cleared / set in a loop over the rows under the same test
        sw = tests_identifier(body)
        if sw is not None:
            for lp in body.loops():
                if sw not in lp["body"]:
                    continue
                nexts = [x for x in lp["body"] if body.term(x) and body.term(x)["k"] == "call" and body.term(x)["func"].get("declared") == "std::iter::Iterator::next"]
                over_rows = any(r == ("arg", 1) for x in nexts for (r, p) in body.deep_sources(body.term(x)["args"][0], 6))
                flags = [st for x in lp["body"] for st in body.blocks[x]["stmts"] if st["k"] == "assign" and not st["place"]["p"] and body.locals[st["place"]["l"]]["ty"] == "bool"
                         and st["rv"]["k"] == "use" and st["rv"]["op"]["k"] == "const" and body.local_name(st["place"]["l"])]
                if over_rows and flags:
                    found.append((fid, flags[0]["sp"], "flag set in a loop over the rows"))
    if found:
        res.ok({"function": found[0][0], "line": found[0][1][1], "verdict": "the heads of all rows are tested for being identifiers (%s)" % found[0][2]})
    else:
        res.bad(Finding("F14", "check::usefulness", "columns that no pattern looks at are split like any other",
                        "neither usefulness nor split_ctor tests whether every row has an identifier at the head of the column: every such column is split into two or more "
                        "constructors and the check recurses for each, 2^n steps for `let u = t;` with a tuple / struct of n fields (20 fields: 1 s, 30: minutes, 40: days)",
                        ctx.fn("check::usefulness")["sp"]))
    return res


def run(ctx):
    out = []

    def wrap(fn):
        def g(c):
            r = fn(c)
            return r
        g.__name__ = fn.__name__
        return g
    results = ctx.run_rules([rule_f1_f2, rule_f3, rule_f4_f5, rule_f6, rule_f7, rule_f8, rule_f10, rule_f11, rule_f12, rule_f13, rule_f14])
    for r in results:
        if isinstance(r, list):
            out.extend(r)
        else:
            out.append(r)
    return out
