"""C08 - match exhaustiveness and first-match semantics (structural clauses).

M1  first match wins is wired in: one selector `!has_prev_match & is_match` drives all three merges, the carried flag is
    updated afterwards, clauses are visited in source order
M2  sibling constructors split alike: signed scrutinees are split at the arms' boundaries exactly like unsigned ones
M3  range patterns are lowered with both bound comparisons on every path (inclusive on both ends)
M8  a signed constructor bound is cast to an unsigned number only behind a `>= 0` test of that same bound
M7  rebuilding a missing case: a compound constructor takes exactly its arity from the witness stack and keeps the rest
M5  sibling consistency of the parser: struct definitions, struct patterns and struct literals all sort their field lists
    (restricted to definitions after /repo fix ccbd2fe: patterns and literals are matched by name everywhere)
M9  cross-reference: number / range patterns are values of the matched type, both bounds against both limits (C17-T15)
M4  compound patterns: each field pattern is matched against match_expr[w .. w + size of the field], w advances by that size on
    every path of the iteration (also when the field has no pattern), and the field verdicts are AND-ed into the result
"""
from .. import mir
from ..core import AnchorMissing, Finding, RuleResult
from . import C02, C03, C14

PROPERTY = "C08"
TECHNIQUE = "operand-origin checks of the match lowering on MIR, sibling comparison of the signed / unsigned constructor splitting, variant-pruned must-pass-through"
LEVEL_TEXT = (
    "Exactness of the usefulness algorithm over all arm lists is value-level and NOT decided. Decided: (M1) in the Match arm the "
    "selector handed to mux_panic, mux_envs and the result mux is one wire, and(not(has_prev_match), is_match), where is_match is "
    "the pattern's own match bit and has_prev_match is the loop-carried flag that is or-ed with is_match only after the merges; "
    "the clause iterator is not reversed; (M2) for every head-pattern kind for which an unsigned scrutinee is split with "
    "split_unsigned_range a signed one is split with split_signed_range, and split_signed_range records a split point for every "
    "numeric pattern kind on every path (no sign filter) - without that a signed match covered by several ranges cannot be "
    "recognised as exhaustive (defect found and repaired); (M3) both range-pattern arms pass two comparator calls on every path "
    "and combine their negations with an AND, so a bound can only be skipped behind an unsigned-only guard; (M4) in the three field "
    "loops of TypedPattern::compile (tuple, struct, enum variant) the sub-pattern gets the slice [w .. w + size_in_bits(field)], w is "
    "advanced by the same size on every path of an iteration, and the sub-pattern's verdict is AND-ed into the loop-carried verdict."
    " Also decided since the hunter rounds: signed and unsigned ranges are cut into the same (disjoint) pieces (M2 shape clause); a compound constructor takes exactly its arity from the witness stack when a missing case is rebuilt (M7); a signed bound is cast to an unsigned number only behind a `>= 0` test of that bound (M8). M9 (cross-reference to C17-T15): both bounds of a range pattern are compared with both limits of the matched type, so inverted ranges are not cut down to the width of the type.")
LEVEL_NOTE = "Trusted: rustc MIR; push_comparator_circuit returns (lt, gt) (read); the exclusive-end conversion in the parser is C07-F6."
EXPLANATION = "Functions analysed: TypedExpr::compile (Match arm), TypedPattern::compile (range arms), check::split_ctor, split_signed_range, split_unsigned_range."
NOT_DECIDED = "exactness of usefulness / specialize over all arm lists; witnesses of non-exhaustiveness; binding values"
ASSUMPTIONS = []

SELF1 = ("arg", 1)
INNER = C02.INNER


def rule_m1(ctx):
    res = RuleResult("M1", "first matching arm wins: one selector, flag updated after the merges, source order")
    f = C02.fn_of(ctx, C02.EXPR_COMPILE)
    body = ctx.body(f["id"])
    succ = body.pruned_succ({INNER: "Match"})
    region = body.reachable([0], succ=succ)
    pc = C02.fn_of(ctx, C02.PAT_COMPILE)["id"]
    pats = [b for b in region if body.term(b)["k"] == "call" and mir.callee(body.term(b)) == pc]
    if len(pats) != 1:
        raise AnchorMissing("M1: expected one pattern lowering call in the Match arm, found %d" % len(pats))
    pb = pats[0]
    merges = {}
    for b in region:
        t = body.term(b)
        if t["k"] != "call":
            continue
        c = mir.callee(t)
        if c == C02.MUX_PANIC:
            merges.setdefault("mux_panic", []).append(b)
        elif c == C14.MUX_ENVS:
            merges.setdefault("mux_envs", []).append(b)
        elif c == C02.PUSH_MUX:
            merges.setdefault("push_mux", []).append(b)
    for k in ("mux_panic", "mux_envs", "push_mux"):
        if k not in merges:
            res.bad(Finding("M1", f["id"], "Match arm without %s" % k, "the match lowering does not merge with %s" % k, f["sp"]))
            return res
    sels = {}
    for k, bs in merges.items():
        o = set()
        for b in bs:
            o |= {(r, tuple(p)) for (r, p) in body.trace_operand(body.term(b)["args"][1])}
        sels[k] = o
    if not (sels["mux_panic"] == sels["mux_envs"] == sels["push_mux"]):
        res.bad(Finding("M1", f["id"], "merges use different selectors", "mux_panic / mux_envs / result mux are not selected by the same wire: %s" %
                        {k: sorted(map(str, v)) for k, v in sels.items()}, body.term(merges["push_mux"][0])["sp"]))
        return res
    sel = sels["push_mux"]
    ands = [r for (r, p) in sel if r[0] == "call" and mir.last_seg(r[2] or "") == "push_and"]
    if len(sel) != 1 or not ands:
        res.bad(Finding("M1", f["id"], "selector is not an AND", "the selector is %s, expected and(not(has_prev_match), is_match)" % sorted(map(str, sel)), body.term(merges["push_mux"][0])["sp"]))
        return res
    at = body.term(ands[0][1])
    a1 = body.trace_operand(at["args"][1])
    a2 = body.trace_operand(at["args"][2])

    def is_match(tr):
        return all(r[0] == "call" and r[1] == pb for (r, p) in tr) and tr

    def not_prev(tr):
        for (r, p) in tr:
            if not (r[0] == "call" and mir.last_seg(r[2] or "") == "push_not"):
                return None
            nt = body.term(r[1])
            return nt["args"][1]
        return None
    flag_op = not_prev(a1) if is_match(a2) else (not_prev(a2) if is_match(a1) else None)
    if flag_op is None:
        res.bad(Finding("M1", f["id"], "selector is not and(not(prev), is_match)", "the selector combines %s and %s" % (sorted(map(str, a1)), sorted(map(str, a2))), at["sp"]))
        return res
    res.ok({"selector": "push_and(push_not(has_prev_match), is_match)", "merges": {k: len(v) for k, v in merges.items()}})
    # the carried flag: initialised with constant 0 and updated with push_or(flag, is_match) after the merges
    flag_roots = body.trace_operand(flag_op)
    ors = [b for b in region if body.term(b)["k"] == "call" and mir.last_seg(mir.callee(body.term(b)) or "") == "push_or"]
    good_or = None
    for ob in ors:
        ot = body.term(ob)
        x, y = body.trace_operand(ot["args"][1]), body.trace_operand(ot["args"][2])
        if (is_match(y) or is_match(x)):
            good_or = ob
    has_const0 = any(r[0] == "const" and r[1] in (0, "0", "0_usize") for (r, p) in flag_roots)
    from_or = any(r[0] == "call" and r[1] == good_or for (r, p) in flag_roots) if good_or is not None else False
    if good_or is None or not from_or or not has_const0:
        res.bad(Finding("M1", f["id"], "has_prev_match is not carried", "the flag negated in the selector is not `0` updated by push_or(flag, is_match): %s" % sorted(map(str, flag_roots)), at["sp"]))
    else:
        loops = [lp for lp in body.loops() if pb in lp["body"]]
        hdr = max(loops, key=lambda l: len(l["body"]))["header"] if loops else None
        updates = [r[1] for (r, p) in flag_roots if r[0] == "call" and mir.last_seg(r[2] or "") == "push_or"]
        late = all(body.path(u, [m], blocked={hdr} if hdr is not None else ()) is None for u in updates for bs in merges.values() for m in bs)
        # and the selector itself must be built before the update
        late = late and all(body.path(u, [ands[0][1]], blocked={hdr} if hdr is not None else ()) is None for u in updates)
        if late:
            res.ok({"flag": "has_prev_match = push_or(has_prev_match, is_match) after the merges"})
        else:
            res.bad(Finding("M1", f["id"], "flag updated before the merges", "has_prev_match already includes the current arm when the selector is built: no arm is ever selected", body.term(good_or)["sp"]))
    # source order
    for b in region:
        t = body.term(b)
        if t["k"] == "call" and t["func"].get("declared") == "std::iter::Iterator::next" and body.dominates(b, pb):
            st = (t["func"].get("substs") or [""])[0]
            if "Rev<" in st:
                res.bad(Finding("M1", f["id"], "clauses visited in reverse", "the clause iterator is reversed: the last matching arm wins", t["sp"]))
            else:
                res.ok({"clause_iterator": st[:60], "verdict": "source order"})
    return res


def _piece_signature(ctx, fid):
    """Set of (lower bound, upper bound) shapes of the range constructors a split function pushes: each bound is
    ('r0'|'r1'|'?', '+1'|'-1'|'').  A bound that is chosen between alternatives (`if longer { r0 + 1 } else { r0 }`) contributes
    every alternative."""
    body = ctx.body(fid)

    def shapes(op, adj="", depth=8, seen=()):
        if op["k"] not in ("copy", "move"):
            return {("const", "")}
        if depth == 0:
            return {("?", adj)}
        out = set()
        for (r, p) in body.trace(op["place"]):
            if r[0] == "rv" and r[1] in ("binop", "checked_binop"):
                rv = body.blocks[r[2]]["stmts"][r[3]]["rv"]
                o = rv.get("op", "")
                if rv["r"]["k"] == "const" and rv["r"].get("val") == 1 and (o.startswith("Add") or o.startswith("Sub")):
                    out |= shapes(rv["l"], adj + ("+1" if o.startswith("Add") else "-1"), depth - 1)
                else:
                    out.add(("?", adj))
            elif r[0] == "rv" and r[1] == "cast":
                out |= shapes(body.blocks[r[2]]["stmts"][r[3]]["rv"]["op"], adj, depth - 1)
            else:
                idx = [x for x in p if x.startswith("[")]
                if idx:
                    name = idx[-1].strip("[]")
                    if name.startswith("_") and name[1:].isdigit():
                        # an index held in a local: resolve it to its constant
                        cs = [d[3]["rv"]["op"].get("val") for d in body.defs().get(int(name[1:]), [])
                              if d[0] == "assign" and d[3]["rv"]["k"] == "use" and d[3]["rv"]["op"]["k"] == "const"]
                        name = str(cs[0]) if len(cs) == 1 else "?"
                    out.add(((("r" + name) if name != "?" else "?"), adj))
                elif r[0] == "call" and mir.last_seg(str(r[2])) == "index" and body.term(r[1])["args"][1]["k"] == "const":
                    out.add(("r%s" % body.term(r[1])["args"][1].get("val"), adj))
                else:
                    out.add(("?", adj))
        return out or {("?", adj)}
    sig = set()
    for b, blk in enumerate(body.blocks):
        if blk["cleanup"]:
            continue
        for st in blk["stmts"]:
            if st["k"] == "assign" and st["rv"]["k"] == "aggregate" and (st["rv"].get("adt") or "").endswith("Ctor") and "InclusiveRange" in (st["rv"].get("variant") or ""):
                ops = st["rv"]["ops"]
                for lo in shapes(ops[1]):
                    for hi in shapes(ops[2]):
                        sig.add((lo, hi))
    return sorted(sig)


def rule_m2(ctx):
    res = RuleResult("M2", "signed scrutinees are split at the arms' boundaries like unsigned ones")
    f = ctx.fn("check::split_ctor")
    body = ctx.body(f["id"])
    ty_ap = pat_ap = None
    for b in range(body.n):
        info = body.switch_info(b)
        if info and info[0]:
            if info[2] == "ast::Type" and ty_ap is None:
                ty_ap = info[0]
            if info[2] == "ast::PatternEnum" and pat_ap is None:
                pat_ap = info[0]
    if ty_ap is None or pat_ap is None:
        raise AnchorMissing("M2: split_ctor does not switch over Type and PatternEnum")
    table = [("Unsigned", "Identifier", "split_unsigned_range"), ("Unsigned", "UnsignedInclusiveRange", "split_unsigned_range"),
             ("Signed", "Identifier", "split_signed_range"), ("Signed", "SignedInclusiveRange", "split_signed_range"),
             ("Signed", "UnsignedInclusiveRange", "split_signed_range")]
    for ty, pat, want in table:
        succ = body.pruned_succ({ty_ap: ty, pat_ap: pat})
        region = body.reachable([0], succ=succ)
        if len(region) == len(body.reachable([0])):
            raise AnchorMissing("M2: cannot isolate (%s, %s) in split_ctor" % (ty, pat))
        via = {b for b in region if body.term(b)["k"] == "call" and mir.last_seg(mir.callee(body.term(b)) or "") == want}
        w = body.must_pass(via, succ=succ)
        if w:
            res.bad(Finding("M2", f["id"], "(%s scrutinee, %s query) not split" % (ty, pat),
                            "a %s query on a %s scrutinee is answered with one unsplit constructor: a match covered by several ranges is reported as non-exhaustive" % (pat, ty.lower()),
                            body.term(w[-1])["sp"]))
        else:
            res.ok({"scrutinee": ty, "query": pat, "split_by": want})
    # split points: one per number pattern, two per range pattern, on every path, in both functions
    for fid in ("check::split_signed_range", "check::split_unsigned_range"):
        sb = ctx.body(fid)
        ap = None
        for b in range(sb.n):
            info = sb.switch_info(b)
            if info and info[0] and info[2] == "ast::PatternEnum":
                ap = info[0]
                sw = b
        if ap is None:
            raise AnchorMissing("M2: %s does not switch over PatternEnum" % fid)
        loops = [lp for lp in sb.loops() if sw in lp["body"]]
        hdr = min(loops, key=lambda l: len(l["body"]))["header"] if loops else None
        kinds = [("NumUnsigned", 1), ("UnsignedInclusiveRange", 2)]
        if fid.endswith("split_signed_range"):
            kinds += [("NumSigned", 1), ("SignedInclusiveRange", 2)]
        for variant, want_n in kinds:
            succ = sb.pruned_succ({ap: variant})
            info = sb.switch_info(sw)
            t = sb.term(sw)
            tgt = [x for v, x in t["targets"] if info[1].get(v) == variant] or [t["otherwise"]]
            pushes = sorted(b for b in sb.reachable(tgt, blocked={hdr} if hdr is not None else (), succ=succ)
                            if sb.term(b)["k"] == "call" and mir.last_seg(mir.callee(sb.term(b)) or "") in ("push", "insert"))     # Vec or (ordered) set of split points
            ok = len(pushes) >= want_n and all(sb.path(tgt[0], [hdr] if hdr is not None else sb.returns(), blocked={p}, succ=succ) is None for p in pushes[:want_n])
            if ok:
                res.ok({"function": fid, "pattern": variant, "split_points_on_every_path": want_n})
            else:
                res.bad(Finding("M2", fid, "%s: split point skipped" % variant,
                                "a %s pattern does not always contribute its %d split point(s) (sign filter?): ranges with such bounds are not separated" % (variant, want_n),
                                sb.term(tgt[0])["sp"] if sb.term(tgt[0]) else sb.fn["sp"]))
    # the pieces themselves: both functions cut [r0, r1) into the same shapes ({r0}, [r0+1, r1-1] or {r0}); pieces that overlap make
    # the reported missing cases too wide ("each reported missing case denotes only values that no arm matches")
    su = _piece_signature(ctx, "check::split_unsigned_range")
    ss = _piece_signature(ctx, "check::split_signed_range")
    if not su or any(x[0][0] == "?" or x[1][0] == "?" for x in su + ss):
        raise AnchorMissing("M2: cannot read the shapes of the pieces pushed by the split functions (%s / %s)" % (su, ss))
    if su == ss:
        res.ok({"pieces": ["%s%s..=%s%s" % (a[0], a[1], b[0], b[1]) for a, b in su], "verdict": "signed and unsigned ranges are cut into the same pieces"})
    else:
        res.bad(Finding("M2", "check::split_signed_range", "signed and unsigned ranges are cut into different pieces",
                        "unsigned: %s; signed: %s - overlapping signed pieces ({a} and a..=b-1) make `match x { 5 => .. }` on an i8 report the missing case 5i8..=127i8, which contains 5" %
                        (["%s%s..=%s%s" % (a[0], a[1], b[0], b[1]) for a, b in su], ["%s%s..=%s%s" % (a[0], a[1], b[0], b[1]) for a, b in ss]), ctx.fn("check::split_signed_range")["sp"]))
    return res


def rule_m7(ctx):
    """Missing cases are rebuilt from the witness stack: a constructor with n fields takes the first n patterns of the stack as
    its fields and leaves the rest for the columns behind it.  Wrapping the whole stack (or dropping the rest) produces missing
    cases that denote no value, or cover values that an arm matches."""
    res = RuleResult("M7", "rebuilding a missing case: a constructor takes exactly its number of fields from the witness stack and keeps the rest")
    fid = "check::usefulness"
    if not ctx.has_fn(fid):
        raise AnchorMissing("M7: check::usefulness not found")
    body = ctx.body(fid)
    ap = None
    for b in range(body.n):
        info = body.switch_info(b)
        if info and info[0] and info[2].endswith("Ctor") and {"Tuple", "Struct", "Variant"} <= set(info[1].values()):
            ap, sw = info[0], b
    if ap is None:
        raise AnchorMissing("M7: usefulness does not switch over the constructor")
    lp = [l for l in body.loops() if sw in l["body"]]
    hdr = min(lp, key=lambda l: len(l["body"]))["header"] if lp else None
    for variant in ("Tuple", "Struct", "Variant"):
        succ = body.pruned_succ({ap: variant})
        info = body.switch_info(sw)
        t = body.term(sw)
        tgt = [x for v, x in t["targets"] if info[1].get(v) == variant] or [t["otherwise"]]
        region = set(body.reachable(tgt, blocked={hdr} if hdr is not None else (), succ=succ))
        calls = {b: body.term(b) for b in region if body.term(b) and body.term(b)["k"] == "call" and not body.blocks[b]["cleanup"]}
        # a fresh one-element stack `vec![pattern]` that replaces the witness
        wraps = [b for b, c in calls.items() if mir.last_seg(mir.callee(c) or "") in ("box_assume_init_into_vec_unsafe", "into_vec", "from_elem")]
        splits = [b for b, c in calls.items() if mir.last_seg(mir.callee(c) or "") in ("split_off", "drain", "truncate")]
        keeps = [b for b, c in calls.items() if mir.last_seg(mir.callee(c) or "") in ("extend", "append", "insert", "chain")]
        if not wraps:
            if keeps:
                res.ok({"constructor": variant, "verdict": "the stack is kept, the constructor is put in front of it"})
                continue
            raise AnchorMissing("M7: cannot see how the %s arm rebuilds the witness" % variant)
        bad = None
        for wb in wraps:
            end = [hdr] if hdr is not None else body.returns()
            # on the way to the fresh stack the fields were split off with the constructor's arity, and afterwards the rest is put back
            arity_split = [sb for sb in splits if body.dominates(sb, wb) and
                           any(r[0] == "call" and mir.last_seg(str(r[2])) == "len" for (r, p) in body.deep_sources(body.term(sb)["args"][1], 2))]
            if not arity_split:
                bad = (wb, "wraps the whole witness stack")
            elif body.path(wb, end, blocked=set(keeps), succ=succ):
                bad = (wb, "drops the rest of the witness stack")
        if bad:
            res.bad(Finding("M7", fid, "%s constructor %s" % (variant, bad[1]),
                            "when a missing case is rebuilt the %s constructor %s: with the constructor in a column that is not the last, the reported case has the wrong number of fields "
                            "(`(E::B(0u8, false))` for a (E, bool) scrutinee) or loses a column" % (variant, bad[1]), body.term(bad[0])["sp"]))
        else:
            res.ok({"constructor": variant, "verdict": "fields split off by the constructor's arity, the rest appended again"})
    return res


def rule_m3(ctx):
    res = RuleResult("M3", "range patterns compare with both bounds on every path")
    f = C02.fn_of(ctx, C02.PAT_COMPILE)
    pbody = ctx.body(f["id"])

    def is_cmp(bd, b):
        return bd.term(b)["k"] == "call" and mir.last_seg(mir.callee(bd.term(b)) or "") == "push_comparator_circuit"

    def field_of(op, variant):
        """which number of the pattern (0 = lower, 1 = upper bound) the wires in `op` were made from"""
        out = set()
        for (r, p) in pbody.trace_operand(op):
            if r[0] == "call" and mir.last_seg(r[2] or "").endswith("_as_wires"):
                for (r2, p2) in pbody.trace_operand(pbody.term(r[1])["args"][0]):
                    if r2 == SELF1 and ("as " + variant) in p2:
                        out.add(p2[-1])
        return out
    for variant in ("UnsignedInclusiveRange", "SignedInclusiveRange"):
        psucc = pbody.pruned_succ({(SELF1, ("0",)): variant})
        pregion = pbody.reachable([0], succ=psucc)
        if len(pregion) == len(pbody.reachable([0])):
            raise AnchorMissing("M3: cannot isolate the %s arm" % variant)
        body, succ, region, entry = pbody, psucc, pregion, 0
        bound_of = lambda op: field_of(op, variant)
        cmps = sorted(b for b in region if is_cmp(body, b))
        if len(cmps) < 2:
            # the arm may hand the comparison to a helper of compile.rs and return its verdict as it is
            for b in sorted(pregion):
                t = pbody.term(b)
                h = mir.callee(t) if t["k"] == "call" else None
                if h and h != f["id"] and ctx.has_fn(h) and ctx.fns[h]["sp"][0] == ctx.fns[f["id"]]["sp"][0] and t["dest"]["l"] == 0 and not t["dest"]["p"]:
                    hb = ctx.body(h)
                    hc = sorted(x for x in hb.reachable([0]) if is_cmp(hb, x))
                    if len(hc) >= 2:
                        body, succ, region, cmps = hb, hb.succs, hb.reachable([0]), hc

                        def bound_of(op, hb=hb, t=t):
                            out = set()
                            for (r, p) in hb.trace_operand(op):
                                if r[0] == "arg" and r[1] - 1 < len(t["args"]):
                                    out |= field_of(t["args"][r[1] - 1], variant)
                            return out
                        break
        if len(cmps) < 2:
            res.bad(Finding("M3", f["id"], "%s: fewer than two comparisons" % variant, "a range pattern needs a lower and an upper comparison", f["sp"]))
            continue
        # unsigned-only guard edges (is_signed == false)
        unsigned_edges = set()
        for (x, s_) in C03._signed_true_edges(body, region):
            for s2 in body.succs(x):
                if s2 != s_:
                    unsigned_edges.add((x, s2))
        bad = False
        for c in cmps:
            def succ2(b, c=c):
                return [s_ for s_ in succ(b) if (b, s_) not in unsigned_edges]
            w = body.path(0, body.returns(), blocked={c}, succ=succ2)
            if w:
                bad = True
                res.bad(Finding("M3", body.id, "%s: a bound comparison can be skipped" % variant,
                                "a path lowers the range pattern without one of its two comparisons (not behind an unsigned-only guard): values outside that bound match the arm",
                                body.term(c)["sp"], witness=["bb%d" % x for x in w[-8:]]))
        # lower bound uses the lt output of the comparison with min, upper the gt output of the comparison with max
        ands = [b for b in region if body.term(b)["k"] == "call" and mir.last_seg(mir.callee(body.term(b)) or "") == "push_and" and body.term(b)["dest"]["l"] == 0]
        shape_ok = False
        bounds_ok = False
        for a in ands:
            t = body.term(a)
            parts = []
            for o in t["args"][1:3]:
                for (r, p) in body.trace_operand(o):
                    if r[0] == "call" and mir.last_seg(r[2] or "") == "push_not":
                        nt = body.term(r[1])
                        for (r2, p2) in body.trace_operand(nt["args"][1]):
                            if r2[0] == "call" and r2[1] in cmps:
                                parts.append((cmps.index(r2[1]), p2))
            if sorted(parts) == [(0, ("0",)), (1, ("1",))]:
                shape_ok = True
                bounds_ok = bound_of(body.term(cmps[0])["args"][4]) == {"0"} and bound_of(body.term(cmps[1])["args"][4]) == {"1"}
        if shape_ok and bounds_ok and not bad:
            res.ok({"pattern": variant, "verdict": "and(not lt(min), not gt(max)) with both comparisons on every path"})
        elif not shape_ok:
            res.bad(Finding("M3", body.id, "%s: match bit is not and(not lt_min, not gt_max)" % variant,
                            "the match bit does not combine `not less than min` (first comparison, .0) with `not greater than max` (second comparison, .1)", f["sp"]))
        elif not bounds_ok:
            res.bad(Finding("M3", body.id, "%s: the comparisons are not against the pattern's own lower and upper bound" % variant,
                            "the first comparison (whose `less than` output is used) must be against the wires of the pattern's lower bound, the second (`greater than`) against the upper bound", f["sp"]))
    return res


def rule_m4(ctx):
    """Compound patterns hand each sub-pattern its own bits and AND the verdicts."""
    res = RuleResult("M4", "field patterns get the bits at a running offset that advances by each field's size on every path; verdicts are AND-ed")
    pc = C02.fn_of(ctx, C02.PAT_COMPILE)["id"]
    body = ctx.body(pc)
    recs = [(b, t) for b, t in body.calls() if mir.callee(t) == pc]
    n = 0
    for rb, rt in recs:
        loops = [lp for lp in body.loops() if rb in lp["body"]]
        if not loops:
            res.bad(Finding("M4", pc, "sub-pattern lowered outside a field loop", "cannot see the running offset of this sub-pattern", rt["sp"]))
            continue
        lp = min(loops, key=lambda l: len(l["body"]))
        n += 1
        name = "field loop at line %d" % body.term(lp["header"])["sp"][1]
        # (a) the bits: match_expr[w .. w + size]
        sl = None
        for (r, p) in body.trace_operand(rt["args"][1], through={}):
            if r[0] == "call" and mir.last_seg(r[2] or "") == "index":
                sl = body.term(r[1])
        if sl is None or not any(r == ("arg", 2) for (r, p) in body.trace_operand(sl["args"][0])):
            res.bad(Finding("M4", pc, "%s: sub-pattern does not get a slice of the matched bits" % name, "the bits handed to the sub-pattern are not a slice of this pattern's bits", rt["sp"]))
            continue
        rng = None
        for (r, p) in body.trace_operand(sl["args"][1], through={}):
            if r[0] == "agg":
                a = body.blocks[r[1]]["stmts"][r[2]]["rv"]
                if "Range" in (a.get("adt") or "") and len(a["ops"]) == 2:
                    rng = a
        if rng is None:
            res.bad(Finding("M4", pc, "%s: slice is not a start..end range" % name, "cannot identify the running offset", sl["sp"]))
            continue
        w = mir.base_local(body, rng["ops"][0])
        sizes = {b for b, t in body.calls() if b in lp["body"] and mir.last_seg(mir.callee(t) or "") == "size_in_bits_for_defs"}

        def is_size(op):
            return any(r[0] == "call" and r[1] in sizes for (r, p) in body.trace_operand(op))
        # end = w + size
        end_ok = False
        for (r, p) in body.trace_operand(rng["ops"][1], through={}):
            if r[0] == "rv" and r[1] == "binop":
                rv = body.blocks[r[2]]["stmts"][r[3]]["rv"]
                if rv["op"].startswith("Add"):
                    for me, other in ((rv["l"], rv["r"]), (rv["r"], rv["l"])):
                        if mir.base_local(body, me) == w and is_size(other):
                            end_ok = True
        if w is None or not end_ok:
            res.bad(Finding("M4", pc, "%s: slice is not offset .. offset + size of the field" % name,
                            "the sub-pattern must be given exactly the bits of its field: [w .. w + size_in_bits(field type)] with w the running offset", sl["sp"]))
            continue
        # (b) w advances by the field size on every path of an iteration
        bumps = {b for (b, other) in mir.add_defs(body, w) if b in lp["body"] and is_size(other)}
        other_writes = [b for (b, other) in mir.add_defs(body, w) if b in lp["body"] and not is_size(other)]

        def inloop(b, lp=lp):
            return [x for x in body.succs(b) if x in lp["body"] and not body.blocks[x]["cleanup"]]
        latches = [b for b in lp["body"] if lp["header"] in body.succs(b)]
        skip = body.path(lp["header"], latches, blocked=bumps, succ=inloop) if bumps else [lp["header"]]
        if skip or other_writes:
            res.bad(Finding("M4", pc, "%s: offset does not advance by the field size on every path" % name,
                            "an iteration can end without `w += size of this field` (blocks %s): the following fields are matched against the wrong bits" % (skip or other_writes), rt["sp"]))
        else:
            res.ok({"loop": name, "clause": "offset", "verdict": "slice = [w .. w + size]; w += size on every path of the iteration"})
        # (c) verdicts are AND-ed into a loop-carried accumulator that is the result
        acc_ok = False
        for b, t in body.calls():
            if b in lp["body"] and mir.last_seg(mir.callee(t) or "") == "push_and":
                srcs = [body.trace_operand(a) for a in t["args"][1:3]]
                has_rec = [any(r[0] == "call" and r[1] == rb for (r, p) in sset) for sset in srcs]
                has_self = [any(r[0] == "call" and r[1] == b for (r, p) in sset) for sset in srcs]
                if (has_rec[0] and has_self[1]) or (has_rec[1] and has_self[0]):
                    acc_ok = True
        if acc_ok:
            res.ok({"loop": name, "clause": "verdict", "verdict": "is_match = and(is_match, sub-pattern verdict)"})
        else:
            res.bad(Finding("M4", pc, "%s: sub-pattern verdict is not AND-ed into the running verdict" % name,
                            "the verdict of a field pattern must be combined with AND with the verdicts so far (a mismatch in any field is a mismatch)", rt["sp"]))
    if n < 3 and not res.findings:
        raise AnchorMissing("M4: expected the three field loops of TypedPattern::compile (tuple, struct, enum variant), found %d" % n)
    return res


def rule_m5(ctx):
    """Struct definitions are brought into the canonical (documented) field order by the parser."""
    res = RuleResult("M5", "the parser sorts the field list of a struct definition (the layout of struct values)")
    n = 0
    for f in ctx.facts["fns"]:
        if "mir" not in f or not f["sp"][0].endswith("parse.rs") or f.get("from_expansion"):
            continue
        body = ctx.body(f["id"])
        sorts = []
        for b, t in body.calls():
            seg = mir.last_seg(mir.callee(t) or "")
            if seg.startswith("sort") and t["args"]:
                sorts.append((b, {(r, tuple(p)) for (r, p) in body.trace_operand(t["args"][0])}))
        for b, blk in enumerate(body.blocks):
            if blk["cleanup"]:
                continue
            for st in blk["stmts"]:
                if st["k"] != "assign" or st["rv"]["k"] != "aggregate":
                    continue
                rv = st["rv"]
                what = None
                # (until /repo fix ccbd2fe the exhaustiveness check paired pattern fields with definition fields by position, and the
                #  field lists of struct patterns and literals had to be sorted as well; now they are matched by name everywhere -
                #  checker, exhaustiveness, lowering, encoding - and only the definition's order is load-bearing: it is the layout)
                if (rv.get("adt") or "") == "ast::StructDef":
                    what = "struct definition"
                if not what:
                    continue
                # the field list: the Vec-typed operand
                vecs = [o for o in rv["ops"] if o["k"] in ("copy", "move") and o["place"]["ty"].startswith("std::vec::Vec<(")]
                if len(vecs) != 1:
                    continue
                n += 1
                key = {(r, tuple(p)) for (r, p) in body.trace_operand(vecs[0])}
                if any(body.dominates(sb, b) and (sk & key) for (sb, sk) in sorts):
                    res.ok({"site": "%s at line %d" % (what, st["sp"][1]), "verdict": "field list sorted before it is stored"})
                else:
                    res.bad(Finding("M5", f["id"], "%s keeps its fields in source order" % what,
                                    "the documented layout of a struct value is its fields sorted by name; the definition's field list is what encoder, decoder and lowering "
                                    "iterate over", st["sp"]))
    if n < 1 and not res.findings:
        raise AnchorMissing("M5: expected the struct definition construction in parse.rs, found %d" % n)
    return res


def rule_m8(ctx):
    """The exhaustiveness check compares unsigned pattern numbers with the bounds of signed constructor pieces by casting the
    bound `as u64`.  A negative bound becomes a huge number, so each such cast has to lie behind a `>= 0` test of that very bound
    (L1b applied to the pattern matrix)."""
    from . import C09
    res = RuleResult("M8", "a signed bound is cast to an unsigned number only behind a `>= 0` test of the same bound (specialize / split functions)")
    n = 0
    for fid in ("check::specialize", "check::split_signed_range", "check::split_unsigned_range", "check::split_ctor"):
        if not ctx.has_fn(fid):
            continue
        for body in C09.bodies_with_closures(ctx, fid):
            # `x >= 0` / `0 <= x` tests and the edge on which they hold
            tests = []
            for b, blk in enumerate(body.blocks):
                for st in blk["stmts"]:
                    if st["k"] != "assign" or st["rv"]["k"] != "binop" or st["rv"]["op"] not in ("Ge", "Le", "Lt", "Gt"):
                        continue
                    l, r, op = st["rv"]["l"], st["rv"]["r"], st["rv"]["op"]
                    if l["k"] == "const":
                        l, r = r, l
                        op = {"Ge": "Le", "Le": "Ge", "Lt": "Gt", "Gt": "Lt"}[op]
                    if r["k"] != "const" or r.get("val") != 0 or l["k"] not in ("copy", "move"):
                        continue
                    key = frozenset(body.trace(l["place"]))
                    for sb in range(body.n):
                        t = body.term(sb)
                        if t and t["k"] == "switch" and t["discr"]["k"] in ("copy", "move") and t["discr"]["place"]["l"] == st["place"]["l"] and all(v == 0 for v, _ in t["targets"]):
                            if op == "Ge":
                                tests.append((key, (sb, t["otherwise"])))
                            elif op == "Lt":
                                for v, x in t["targets"]:
                                    tests.append((key, (sb, x)))
            for b, blk in enumerate(body.blocks):
                if blk["cleanup"]:
                    continue
                for st in blk["stmts"]:
                    if st["k"] != "assign" or st["rv"]["k"] != "cast" or st["rv"]["op"]["k"] not in ("copy", "move"):
                        continue
                    src_ty, dst_ty = st["rv"]["op"]["place"]["ty"], st["rv"]["ty"]
                    if src_ty not in ("i64", "i128", "i32") or dst_ty not in ("u64", "u128", "usize", "u32"):
                        continue
                    key = frozenset(body.trace(st["rv"]["op"]["place"]))
                    if not any("as SignedInclusiveRange" in p or "as NumSigned" in p for (r, p) in key):
                        continue
                    n += 1
                    from . import C02
                    edges = {e for (k, e) in tests if k == key}
                    if edges and C02._dominated_by_edges(body, edges, b):
                        res.ok({"function": body.id, "cast": "line %d" % st["sp"][1], "verdict": "behind a `>= 0` test of the same bound"})
                    else:
                        res.bad(Finding("M8", body.id, "signed bound cast to unsigned without a sign test of that bound",
                                        "a negative bound becomes a huge unsigned number: a piece that starts below zero counts as covered by any unsigned range arm that reaches its upper end, "
                                        "and `match x { -128..=-4 => .., -3 => .., 5..=127 => .. }` on an i8 is accepted although -2..=4 match no arm", st["sp"]))
    if n < 2 and not res.findings:
        raise AnchorMissing("M8: expected the sign-changing casts of specialize (4 on the pinned tree), found %d" % n)
    return res


def rule_m9(ctx):
    """Cross-reference: the lowering compares a range pattern's bounds in the width of the matched type (M3), so `honour their bounds
    exactly` needs both bounds to be values of that type - also for inverted ranges, which the exhaustiveness check treats as
    matching nothing (C17-T15)."""
    from . import C17
    res = RuleResult("M9", "number and range patterns are values of the matched type, both bounds against both limits (cross-reference to C17-T15)")
    sub = C17.rule_t15(ctx)
    for x in sub.findings:
        res.bad(Finding("M9", x.fn, x.site, x.message, x.span))
    if not sub.findings:
        res.ok({"verdict": "C17-T15 holds"})
    return res


def run(ctx):
    return ctx.run_rules([rule_m1, rule_m2, rule_m3, rule_m4, rule_m5, rule_m7, rule_m8, rule_m9])
