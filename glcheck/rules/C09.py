"""C09 - literal encoding: accepted => canonical bits of exactly the parameter's size, otherwise refused without panic.

L1  the gate (is_of_type) compares the numeric payload it accepts with the range of the type (the writer truncates)
L1b range gates (is_of_type, check_or_constrain_*) never compare a lossy cast of the payload
L2  positional pairings of literal children with type children carry a length equality test
L3  struct field order: the writer lays fields out in definition order; the gate iterates the definition
L4  gate / writer / reader / compiler share the layout helpers; fixed-width setters use the width of their type
L5  no trapping arithmetic on literal payloads in the gate
L6  every encoding call is dominated by a positive gate answer on the same literal
L7  the reader decodes as many array elements as the type says (not as the bit slice happens to hold)
L8  the literal entry point returns Ok only when the token stream is exhausted and no error was recorded
L9  a parser function that consumed an opening bracket consumes the matching closing bracket on every path to Ok
L11 the type checker compares the end of a range literal with the max of its element type (typed and untyped ranges)
L17 a number literal reaches its type only through the comparison with min() / max() of that type (no fallible conversion bypasses it)
L16 the reader looks the decoded enum tag up with a checked access (an unknown tag is an error, not a panic)
L15 range literals print as text that parses back: no Literal::Range for signed arrays, no suffix on an end above the type's max
L14 is_of_type accepts a Range for the element kinds for which the checker re-types ranges
L13 as_bits of a repeat literal `[x; n]` fills a buffer of its own per repetition (none for n = 0)
L12 every GarbleProgram carries the const sizes computed by the compilation (compile() included)
L10 literal_arg / parse_arg / set_literal / parse_literal test or parse against the parameter type with const sizes resolved
"""
from .. import mir
from ..core import AnchorMissing, Finding, RuleResult

PROPERTY = "C09"
TECHNIQUE = ("origin analysis on MIR (closure captures lifted to the defining function), variant-pruned arms, dominance of gate over writer, "
             "sibling agreement on layout helpers")
LEVEL_TEXT = (
    "Decides the clauses 'any literal the API accepts encodes to exactly the parameter's size and to the bits of the canonical "
    "value; anything else is refused with an error rather than a panic, a truncation or a silently different value' as far as "
    "they are agreement properties between the gate (Literal::is_of_type), the writer (as_bits), the reader "
    "(from_unwrapped_bits) and the compiler's layout: the gate compares numeric payloads with the type's min/max (the writer "
    "keeps only the low bits); every zip of literal children with type children is guarded by a length equality; struct "
    "fields are written in definition order and the gate walks the definition (so permuted literals are canonicalised and "
    "duplicated names refused); enum tag width, payload size and tag number come from the same three helpers in all four "
    "places; the fixed-width setters use the width of the type they are named after; the gate contains no trapping "
    "arithmetic on payloads; and each as_bits call in literal_arg / set_literal / compile_with_constants is dominated by "
    "the true edge of is_of_type on the same literal; the range gates never compare a lossy cast of a payload (L1b); the reader decodes "
    "as many array elements as the type says (L7). Not decided: print/parse round trip, bit order inside integers, the "
    "identity program, decoding of malformed bit strings, and the range checks the *parser* path applies to unsuffixed "
    "literals (check_or_constrain_*: value-level comparisons inside the type checker)."
    " Also decided since the hunter rounds: the literal entry point returns Ok only at the end of the token stream, with an empty error list (L8); every parser function closes the brackets it opened on every path to Ok (L9); all four literal entry points resolve const sizes of the parameter type first (L10); the checker compares range ends with max() of the element type (L11); every GarbleProgram carries the computed const sizes (L12); the range payload of is_of_type is bounded like the number payloads (L1). L14: is_of_type accepts a Range for the element kinds for which the checker re-types ranges; L15: range literals print as text that parses back (no Literal::Range for signed arrays, no suffix on an end above the type's max); L16: the decoded enum tag is looked up with a checked access.")
LEVEL_NOTE = ("Trusted: rustc MIR; UnsignedNumType::max / SignedNumType::{min,max} return the bounds of the named type (token.rs, "
              "read); Literal::parse ends in check_type, which is its gate.")
EXPLANATION = ("Functions analysed: literal::Literal::{is_of_type, as_bits, from_unwrapped_bits}, GarbleProgram::literal_arg, "
               "Evaluator::{set_literal, set_*}, compile_with_constants, the EnumLiteral / enum pattern arms of compile.rs.")
NOT_DECIDED = ("round trips over all values; bit order inside integers; decoding of malformed bits; range checks of unsuffixed literals "
               "in the type checker (seed C09-a lives there)")
ASSUMPTIONS = []

IS_OF_TYPE = "literal::Literal::is_of_type"
AS_BITS = "literal::Literal::as_bits"
FROM_BITS = "literal::Literal::from_unwrapped_bits"
CMP = {"Lt", "Le", "Gt", "Ge", "Eq", "Ne"}
SELF1 = ("arg", 1)


def bodies_with_closures(ctx, fid):
    out = [ctx.body(fid)]
    seen = {fid}
    work = [fid]
    while work:
        x = work.pop()
        for c in sorted(ctx.cg.closures_of.get(x, ())):
            if c not in seen:
                seen.add(c)
                out.append(ctx.body(c))
                work.append(c)
    return out


def comparisons(ctx, fid):
    """(body, statement, lifted origins of lhs, of rhs) for every integer comparison in fid and its closures."""
    out = []
    for body in bodies_with_closures(ctx, fid):
        for b, blk in enumerate(body.blocks):
            if blk["cleanup"]:
                continue
            for st in blk["stmts"]:
                if st["k"] == "assign" and st["rv"]["k"] == "binop" and st["rv"]["op"] in CMP:
                    out.append((body, b, st, ctx.lifted_trace(body, st["rv"]["l"]), ctx.lifted_trace(body, st["rv"]["r"])))
    return out


STEP = dict(mir.TRANSPARENT)
STEP.update({"std::option::Option::<T>::unwrap_or": 0, "std::option::Option::<T>::unwrap_or_default": 0, "std::ops::Sub::sub": 0, "core::num::<impl u64>::saturating_sub": 0, "core::num::<impl u64>::wrapping_sub": 0, "core::num::<impl u64>::checked_sub": 0})


def comparisons_step(ctx, fid):
    """like comparisons(), following a payload through `- 1` (the last element of a range is its exclusive end minus one)."""
    out = []
    for body in bodies_with_closures(ctx, fid):
        for b, blk in enumerate(body.blocks):
            if blk["cleanup"]:
                continue
            for st in blk["stmts"]:
                if st["k"] == "assign" and st["rv"]["k"] == "binop" and st["rv"]["op"] in CMP:
                    sides = []
                    for side in ("l", "r"):
                        o = set(ctx.lifted_trace(body, st["rv"][side], through=STEP))
                        # `x - 1` written with the operator: follow the left operand of a Sub / SubWithOverflow
                        for (f, r, p) in list(o):
                            if r[0] == "rv" and r[1] in ("binop", "checked_binop"):
                                ob = ctx.body(f)
                                rv = ob.blocks[r[2]]["stmts"][r[3]]["rv"]
                                if rv.get("op", "").startswith("Sub"):
                                    o |= set(ctx.lifted_trace(ob, rv["l"], through=STEP))
                        sides.append(o)
                    out.append((body, b, st, sides[0], sides[1]))
    return out


def _bound_names(ctx, cmps, is_payload):
    """Names of the functions whose result a payload (is_payload(fn, root, path)) is compared with."""
    found = set()
    for (body, b, st, lo, ro) in cmps:
        for mine, other in ((lo, ro), (ro, lo)):
            if any(is_payload(f, r, p) for (f, r, p) in mine):
                for (f, r, p) in other:
                    ob = ctx.body(f)
                    if r[0] == "call":
                        found.add(mir.last_seg(r[2] or ""))
                    elif r == ("arg", 2) and ob.fn["kind"] == "closure":
                        # argument of an Option adapter closure: find the adapter call in the parent and its receiver
                        site = ctx.closure_site(f)
                        if site:
                            pb, rv = site
                            for bb, t in pb.calls():
                                for a in t["args"][1:]:
                                    if a["k"] in ("copy", "move") and any(rr[0] == "agg" and pb.blocks[rr[1]]["stmts"][rr[2]]["rv"] is rv for (rr, pp) in pb.trace(a["place"], through={})):
                                        for (rr, pp) in pb.trace_operand(t["args"][0], through={}):
                                            if rr[0] == "call":
                                                found.add(mir.last_seg(rr[2] or ""))
                    elif r[0] in ("call",):
                        pass
    return found


def rule_l1(ctx):
    res = RuleResult("L1", "the gate compares accepted numeric payloads with the bounds of the type")
    cmps = comparisons(ctx, IS_OF_TYPE)
    cmps_range = comparisons_step(ctx, IS_OF_TYPE)
    for variant, bounds in (("NumUnsigned", ["max"]), ("NumSigned", ["min", "max"]), ("Range", ["max"])):
        field = "1" if variant == "Range" else "0"
        found = _bound_names(ctx, cmps_range if variant == "Range" else cmps,
                             lambda f, r, p: f == IS_OF_TYPE and r == SELF1 and tuple(p[:2]) == ("as " + variant, field))
        for bnd in bounds:
            site = "Literal::%s payload vs %s()" % (variant, bnd)
            if bnd in found:
                res.ok({"variant": variant, "compared_with": bnd + "() of the literal's number type"})
            else:
                res.bad(Finding("L1", IS_OF_TYPE, site,
                                "the payload of Literal::%s is accepted without being compared with the type's %s: as_bits keeps only the low bits, so an out-of-range value is silently truncated" % (variant, bnd),
                                ctx.fn(IS_OF_TYPE)["sp"]))
    return res


INT_RANGE = {"u8": (0, 2**8 - 1), "u16": (0, 2**16 - 1), "u32": (0, 2**32 - 1), "u64": (0, 2**64 - 1), "usize": (0, 2**64 - 1),
             "i8": (-2**7, 2**7 - 1), "i16": (-2**15, 2**15 - 1), "i32": (-2**31, 2**31 - 1), "i64": (-2**63, 2**63 - 1), "isize": (-2**63, 2**63 - 1),
             "u128": (0, 2**128 - 1), "i128": (-2**127, 2**127 - 1)}


def rule_l1b(ctx):
    res = RuleResult("L1b", "range gates compare the literal payload itself, never a lossy cast of it")
    gates = [f for f in ctx.facts["fns"] if "mir" in f and f["kind"] in ("fn", "assoc_fn") and
             (mir.last_seg(f["id"]).startswith("check_or_constrain_") or f["id"] == IS_OF_TYPE)]
    if len(gates) < 3:
        raise AnchorMissing("L1b: expected check_or_constrain_signed / _unsigned and is_of_type, found %r" % [g["id"] for g in gates])
    for g in gates:
        n_cmp = 0
        for body in bodies_with_closures(ctx, g["id"]):
            # comparisons on payloads (for the guard exemption)
            guarded = []
            for b, blk in enumerate(body.blocks):
                for st in blk["stmts"]:
                    if st["k"] == "assign" and st["rv"]["k"] == "binop" and st["rv"]["op"] in CMP:
                        for side in ("l", "r"):
                            for (f, r, p) in ctx.lifted_trace(body, st["rv"][side], through={}):
                                if r == SELF1 and any(x in ("as NumUnsigned", "as NumSigned") for x in p):
                                    guarded.append((b, (f, r, p)))
                                    n_cmp += 1
            for b, blk in enumerate(body.blocks):
                if blk["cleanup"]:
                    continue
                for st in blk["stmts"]:
                    if st["k"] != "assign" or st["rv"]["k"] != "cast" or not st["rv"]["kind"].startswith("IntToInt"):
                        continue
                    op = st["rv"]["op"]
                    if op["k"] not in ("copy", "move"):
                        continue
                    src_ty = op["place"]["ty"]
                    dst_ty = st["rv"]["ty"]
                    if src_ty not in INT_RANGE or dst_ty not in INT_RANGE:
                        continue
                    lo, hi = INT_RANGE[src_ty]
                    dlo, dhi = INT_RANGE[dst_ty]
                    if dlo <= lo and hi <= dhi:
                        continue  # lossless
                    pay = [(f, r, p) for (f, r, p) in ctx.lifted_trace(body, op, through={})
                           if r == SELF1 and any(x in ("as NumUnsigned", "as NumSigned") for x in p)]
                    if not pay:
                        continue
                    if any(body.dominates(gb, b) and gp in pay for (gb, gp) in guarded if gb != b):
                        res.ok({"function": body.id, "cast": "%s as %s" % (src_ty, dst_ty), "verdict": "payload range-checked before the cast"})
                        continue
                    res.bad(Finding("L1b", body.id, "payload cast %s as %s before its range check" % (src_ty, dst_ty),
                                    "the literal's number is converted with a wrapping `as` cast before it is compared with the bounds: values outside %s alias values inside" % dst_ty,
                                    st["sp"]))
        res.ok({"function": g["id"], "payload_comparisons": n_cmp, "verdict": "no lossy payload cast"}) if not any(x.fn.startswith(g["id"]) for x in res.findings) else None
    return res


def rule_l2(ctx):
    res = RuleResult("L2", "every zip of literal children with type children is guarded by equality of the two lengths")
    n = 0
    for body in bodies_with_closures(ctx, IS_OF_TYPE):
        lens = []  # (block, set of origins of the two len() receivers)
        for b, blk in enumerate(body.blocks):
            for st in blk["stmts"]:
                if st["k"] == "assign" and st["rv"]["k"] == "binop" and st["rv"]["op"] in ("Eq", "Ne"):
                    sides = []
                    for side in ("l", "r"):
                        o = st["rv"][side]
                        srcs = set()
                        if o["k"] in ("copy", "move"):
                            for (r, p) in body.trace(o["place"], through={}):
                                if r[0] == "call" and mir.last_seg(r[2] or "") == "len":
                                    lt = body.term(r[1])
                                    srcs |= {(rr, tuple(pp)) for (rr, pp) in body.trace_operand(lt["args"][0])}
                        sides.append(srcs)
                    if sides[0] and sides[1]:
                        lens.append((b, sides))
        for b, t in body.calls():
            if t["func"].get("declared") != "std::iter::Iterator::zip":
                continue
            n += 1
            xs = {(r, tuple(p)) for (r, p) in body.trace_operand(t["args"][0])}
            ys = {(r, tuple(p)) for (r, p) in body.trace_operand(t["args"][1])}
            ok = False
            for (lb, sides) in lens:
                if body.dominates(lb, b) and ((sides[0] & xs and sides[1] & ys) or (sides[0] & ys and sides[1] & xs)):
                    ok = True
            site = "zip of %s with %s" % (sorted(".".join(p) for r, p in xs)[:1], sorted(".".join(p) for r, p in ys)[:1])
            if ok:
                res.ok({"site": site, "verdict": "guarded by len() == len()"})
            else:
                res.bad(Finding("L2", body.id, site + " without length test",
                                "children are paired positionally without testing that there are equally many: missing or surplus fields are accepted", t["sp"]))
    if (n < 1) and not res.findings:
        raise AnchorMissing("L2: is_of_type contains no zip (the tuple / enum arms are expected to pair children positionally)")
    return res


def _iter_sources(body, next_term):
    return {(r, tuple(p)) for (r, p) in body.deep_sources(next_term["args"][0], 6)}


def rule_l3(ctx):
    res = RuleResult("L3", "struct fields: writer lays out in definition order; gate walks the definition")
    # writer: in the Struct arm of as_bits the loop that encodes the fields iterates struct_defs[..].fields
    wb = ctx.body(AS_BITS)
    succ = wb.pruned_succ({(SELF1, ()): "Struct"})
    region = wb.reachable([0], succ=succ)
    if len(region) == len(wb.reachable([0])):
        raise AnchorMissing("L3: cannot isolate the Struct arm of as_bits")
    rec = [b for b in region if wb.term(b)["k"] == "call" and mir.callee(wb.term(b)) == AS_BITS]
    ok_writer = False
    # `struct_def.fields.iter().flat_map(|(name, _)| { .. f.as_bits(..) }).collect()`: the loop written with an adaptor
    adaptors = []
    for b in sorted(region):
        t = wb.term(b)
        if t["k"] == "call" and (t["func"].get("declared") or "") in ("std::iter::Iterator::flat_map", "std::iter::Iterator::map", "std::iter::Iterator::for_each") and \
                len(t["args"]) == 2 and t["args"][1]["k"] in ("copy", "move"):
            for (r, p) in wb.trace(t["args"][1]["place"], through={}):
                if r[0] == "agg":
                    cid = wb.blocks[r[1]]["stmts"][r[2]]["rv"].get("closure")
                    if cid and ctx.has_fn(cid) and any(mir.callee(ct) == AS_BITS for _, ct in ctx.body(cid).calls()):
                        adaptors.append(b)
                        if any(rr == ("arg", 2) and "struct_defs" in pp for (rr, pp) in wb.deep_sources(t["args"][0], 6)):
                            ok_writer = True
    if not rec and not adaptors:
        raise AnchorMissing("L3: the Struct arm of as_bits does not encode its fields recursively")
    for rb in rec:
        loops = [lp for lp in wb.loops() if rb in lp["body"]]
        for lp in loops:
            for b in lp["body"]:
                t = wb.term(b)
                if t and t["k"] == "call" and t["func"].get("declared") == "std::iter::Iterator::next":
                    srcs = _iter_sources(wb, t)
                    if any(r == ("arg", 2) and "struct_defs" in p for (r, p) in srcs):
                        ok_writer = True
    gb = ctx.body(IS_OF_TYPE)
    gsucc = gb.pruned_succ({(SELF1, ()): "Struct", (("arg", 3), ()): "Struct"})
    # the match is on a tuple (self, ty): prune by the access path of the tuple's components
    greg = gb.reachable([0], succ=gb.pruned_succ({(SELF1, ()): "Struct"}))
    gate_walks_def = False
    gate_positional = False
    for lp in gb.loops():
        if not (lp["body"] & greg):
            continue
        for b in lp["body"]:
            t = gb.term(b)
            if t and t["k"] == "call" and t["func"].get("declared") == "std::iter::Iterator::next":
                srcs = _iter_sources(gb, t)
                from_def = any(r == ("arg", 2) and "struct_defs" in p for (r, p) in srcs)
                from_lit = any(r == SELF1 for (r, p) in srcs)
                has_zip = any(gb.term(x)["k"] == "call" and gb.term(x)["func"].get("declared") == "std::iter::Iterator::zip" for x in greg)
                if from_def and from_lit and has_zip:
                    gate_positional = True
                elif from_def:
                    # looks each definition field up in the literal
                    for x in lp["body"]:
                        tx = gb.term(x)
                        if tx and tx["k"] == "call" and mir.last_seg(tx["func"].get("declared") or "") in ("find", "position", "any", "get"):
                            if any(r == SELF1 for (r, p) in gb.deep_sources(tx["args"][0], 4)):
                                gate_walks_def = True
    # the same walk written with an adaptor: `struct_def.fields.iter().all(|(name, ty)| fields.iter().find(..).is_some_and(..))`
    for x in sorted(greg):
        t = gb.term(x)
        if not (t and t["k"] == "call" and t["func"].get("declared") == "std::iter::Iterator::all" and len(t["args"]) == 2 and t["args"][1]["k"] in ("copy", "move")):
            continue
        if not any(r == ("arg", 2) and "struct_defs" in p for (r, p) in gb.deep_sources(t["args"][0], 6)):
            continue
        for (r, p) in gb.trace(t["args"][1]["place"], through={}):
            if r[0] != "agg":
                continue
            rv = gb.blocks[r[1]]["stmts"][r[2]]["rv"]
            cid = rv.get("closure")
            if not cid or not ctx.has_fn(cid):
                continue
            lit_captured = any(rr == SELF1 for o in rv["ops"] for (rr, pp) in gb.trace_operand(o))
            cb = ctx.body(cid)
            looks_up = any(mir.last_seg(ct["func"].get("declared") or "") in ("find", "position", "any", "get") and
                           any(rr == ("arg", 1) for (rr, pp) in cb.deep_sources(ct["args"][0], 4)) for _, ct in cb.calls() if ct["args"])
            if lit_captured and looks_up:
                gate_walks_def = True
    if ok_writer:
        res.ok({"function": AS_BITS, "verdict": "Struct arm iterates the struct definition's fields"})
        if gate_walks_def or gate_positional:
            res.ok({"function": IS_OF_TYPE, "verdict": "every definition field is looked up in the literal (duplicates cannot hide a missing field)"})
        else:
            res.bad(Finding("L3", IS_OF_TYPE, "gate does not walk the definition",
                            "the writer looks every definition field up in the literal, but the gate does not check that every definition field occurs (a duplicated name hides a missing one: as_bits panics)",
                            gb.fn["sp"]))
    elif gate_positional:
        res.ok({"function": IS_OF_TYPE, "verdict": "gate ties the literal's field order to the definition positionally"})
    else:
        res.bad(Finding("L3", AS_BITS, "struct written in literal order behind an order-insensitive gate",
                        "as_bits encodes struct fields in the order of the literal, but the gate accepts any order (and duplicated names): a permuted literal is encoded to different bits than the value it denotes",
                        wb.term(rec[0])["sp"]))
    return res


def rule_l4(ctx):
    res = RuleResult("L4", "enum layout helpers are shared by compiler, writer and reader; fixed-width setters use their type's width")
    helpers = {"compile::enum_tag_size", "compile::enum_max_size", "compile::enum_tag_number"}
    for h in helpers:
        if h not in ctx.fns:
            raise AnchorMissing("%s not found" % h)
    ec = ctx.find_fn("compile", "&ast::Expr<ast::Type>", "compile.rs")
    pc = ctx.find_fn("compile", "&ast::Pattern<ast::Type>", "compile.rs")
    sites = [
        ("ExprEnum::EnumLiteral lowering", ctx.body(ec["id"]), {((("arg", 1)), ("inner",)): "EnumLiteral"}, {"compile::enum_tag_size", "compile::enum_max_size", "compile::enum_tag_number"}),
        ("PatternEnum::EnumTuple lowering", ctx.body(pc["id"]), {(("arg", 1), ("0",)): "EnumTuple"}, {"compile::enum_tag_size", "compile::enum_tag_number"}),
        ("PatternEnum::EnumUnit lowering", ctx.body(pc["id"]), {(("arg", 1), ("0",)): "EnumUnit"}, {"compile::enum_tag_size", "compile::enum_tag_number"}),
        ("Literal::as_bits Enum", ctx.body(AS_BITS), {(SELF1, ()): "Enum"}, {"compile::enum_tag_size", "compile::enum_max_size", "compile::enum_tag_number"}),
        ("Literal::from_unwrapped_bits Enum", ctx.body(FROM_BITS), {(("arg", 2), ()): "Enum"}, {"compile::enum_tag_size"}),
    ]
    for label, body, assume, want in sites:
        succ = body.pruned_succ(assume)
        region = body.reachable([0], succ=succ)
        if len(region) == len(body.reachable([0])) or len(region) < 4:
            raise AnchorMissing("L4: cannot isolate %s" % label)
        for h in sorted(want):
            via = {b for b in region if body.term(b)["k"] == "call" and mir.callee(body.term(b)) == h}
            w = body.must_pass(via, succ=succ)
            if w:
                res.bad(Finding("L4", body.id, "%s without %s" % (label, mir.last_seg(h)),
                                "%s does not obtain the enum layout from %s on every path" % (label, h), body.term(w[-1])["sp"]))
            else:
                res.ok({"site": label, "helper": mir.last_seg(h)})
    # integer setters
    width = {"u8": 8, "u16": 16, "u32": 32, "u64": 64, "i8": 8, "i16": 16, "i32": 32, "i64": 64}
    consts = _usize_bits(ctx)
    width["usize"] = consts
    n = 0
    for f in ctx.facts["fns"]:
        nm = mir.last_seg(f["id"])
        if not (nm.startswith("set_") and f["sp"][0].endswith("eval.rs") and f["kind"] == "assoc_fn"):
            continue
        ins = f.get("inputs") or []
        if len(ins) != 2 or ins[1] not in width:
            continue
        n += 1
        body = ctx.body(f["id"])
        ty = ins[1]
        want_fn = "compile::unsigned_to_bits" if ty.startswith("u") else "compile::signed_to_bits"
        calls = [t for _, t in body.calls() if mir.callee(t) in ("compile::unsigned_to_bits", "compile::signed_to_bits")]
        if len(calls) != 1:
            res.bad(Finding("L4", f["id"], "setter does not encode exactly once", "expected one call to %s" % want_fn, f["sp"]))
            continue
        t = calls[0]
        w = t["args"][1].get("val")
        if mir.callee(t) != want_fn:
            res.bad(Finding("L4", f["id"], "setter uses %s" % mir.last_seg(mir.callee(t)), "a %s value is encoded with %s" % (ty, mir.callee(t)), t["sp"]))
        elif w != width[ty]:
            res.bad(Finding("L4", f["id"], "setter width %s" % w, "%s encodes %s bits, the type has %d" % (nm, w, width[ty]), t["sp"]))
        elif not any(r == ("arg", 2) for (r, p) in body.trace_operand(t["args"][0])):
            res.bad(Finding("L4", f["id"], "setter encodes something else", "the encoded value is not the argument", t["sp"]))
        else:
            res.ok({"setter": nm, "width": w})
    if (n < 9) and not res.findings:
        raise AnchorMissing("L4: expected the ten integer setters of Evaluator, found %d" % n)
    return res


def _usize_bits(ctx):
    from .C02 import _const_env
    v = _const_env(ctx).get("circuit::USIZE_BITS")
    if v is None:
        raise AnchorMissing("circuit::USIZE_BITS not foldable")
    return v


def _sub_guarded(ctx, body, b, ops):
    """`x - c` (c a constant) on a path on which a dominating comparison of the same x with a constant implies x >= c."""
    from . import C02
    if len(ops) != 2 or ops[1]["k"] != "const" or not isinstance(ops[1].get("val"), int) or ops[0]["k"] not in ("copy", "move"):
        return False
    c = ops[1]["val"]
    x = set(body.trace(ops[0]["place"]))
    edges = set()
    for bb, blk in enumerate(body.blocks):
        for st in blk["stmts"]:
            if st["k"] != "assign" or st["rv"]["k"] != "binop" or st["rv"]["op"] not in CMP or st["place"]["p"]:
                continue
            l, r, op = st["rv"]["l"], st["rv"]["r"], st["rv"]["op"]
            if l["k"] == "const" and r["k"] in ("copy", "move"):
                l, r = r, l
                op = {"Lt": "Gt", "Gt": "Lt", "Le": "Ge", "Ge": "Le"}.get(op, op)
            if r["k"] != "const" or not isinstance(r.get("val"), int) or l["k"] not in ("copy", "move") or set(body.trace(l["place"])) != x:
                continue
            k = r["val"]
            on_true = {"Eq": k >= c, "Ne": False, "Gt": k + 1 >= c, "Ge": k >= c, "Lt": False, "Le": False}[op]
            on_false = {"Eq": k == 0 and c == 1, "Ne": k >= c, "Gt": False, "Ge": False, "Lt": k >= c, "Le": k + 1 >= c}[op]
            res_local = st["place"]["l"]
            for sb in range(body.n):
                t = body.term(sb)
                if t and t["k"] == "switch" and t["discr"]["k"] in ("copy", "move") and t["discr"]["place"]["l"] == res_local and all(v == 0 for v, _ in t["targets"]):
                    if on_true:
                        edges.add((sb, t["otherwise"]))
                    if on_false:
                        for v, tg in t["targets"]:
                            edges.add((sb, tg))
    return bool(edges) and C02._dominated_by_edges(body, edges, b)


def rule_l5(ctx):
    res = RuleResult("L5", "no trapping arithmetic on literal payloads inside the gate")
    n = 0
    for body in bodies_with_closures(ctx, IS_OF_TYPE):
        for (b, kind, ops, sp) in mir.trapping_arith_sites(body):
            n += 1
            tainted = False
            for o in ops:
                for (f, r, p) in ctx.lifted_trace(body, o):
                    if f == IS_OF_TYPE and r == SELF1 and p:
                        tainted = True
            if tainted and kind.startswith("Overflow(Sub") and _sub_guarded(ctx, body, b, ops):
                res.ok({"site": kind, "verdict": "the subtrahend constant is not above the minuend on this path (guarding comparison dominates)"})
            elif tainted:
                res.bad(Finding("L5", body.id, "%s on a literal payload" % kind.split(" on ")[0], "the gate computes with the trapping operator on a value chosen by the API user: it panics instead of answering false", sp))
            else:
                res.ok({"site": kind, "verdict": "operands are not literal payloads"})
    res.obligations += 1
    if not res.findings:
        res.discharged += 1
        res.samples.append({"function": IS_OF_TYPE, "trapping_asserts": n, "verdict": "none on payloads"})
    return res


def rule_l6(ctx):
    res = RuleResult("L6", "every encoding of an API literal is dominated by a positive gate answer on the same literal")
    from .C02 import _some_edges, _dominated_by_edges
    users = []
    for f in ctx.facts["fns"]:
        if "mir" not in f or f["id"] == AS_BITS or f["kind"] == "closure" and False:
            continue
        body = ctx.body(f["id"])
        for b, t in body.calls():
            if mir.callee(t) == AS_BITS and not body.blocks[b]["cleanup"]:
                users.append((f, body, b, t))
    if len(users) < 3:
        raise AnchorMissing("L6: expected as_bits callers (set_literal, GarbleArgument::as_bits, compile_with_constants), found %d" % len(users))
    for f, body, b, t in users:
        fid = f["id"]
        lit = {(r, tuple(p)) for (r, p) in body.trace_operand(t["args"][0])}
        gates = [(gb, gt) for gb, gt in body.calls() if mir.callee(gt) == IS_OF_TYPE]
        ok = False
        for gb, gt in gates:
            glit = {(r, tuple(p)) for (r, p) in body.trace_operand(gt["args"][0])}
            if not (lit & glit):
                continue
            if _dominated_by_edges(body, _some_edges(body, gt), b):
                ok = True
        if ok:
            res.ok({"function": fid, "verdict": "as_bits dominated by the true edge of is_of_type on the same literal"})
            continue
        # the literal is the Ok result of Literal::parse against a type: parse ends in check_type, which is its gate (since the repairs
        # of 10.7 - range ends, untyped ranges, duplicated fields - it refuses everything is_of_type refuses; GarbleProgram::parse_arg
        # has always relied on it alone)
        if lit and all(r[0] == "call" and str(r[2]).endswith("Try>::branch") or (r[0] == "call" and str(r[2]) == "literal::Literal::parse") for (r, p) in lit):
            parsed = True
            for (r, p) in lit:
                if str(r[2]).endswith("Try>::branch"):
                    src = body.deep_sources(body.term(r[1])["args"][0], 3)
                    if not any(rr[0] == "call" and str(rr[2]) == "literal::Literal::parse" for (rr, pp) in src):
                        parsed = False
            if parsed:
                res.ok({"function": fid, "verdict": "the encoded literal is the Ok result of Literal::parse (check_type is its gate)"})
                continue
        # a private helper that encodes its parameter: every call site must hand it a gated literal
        params = [r[1] for (r, p) in lit if r[0] == "arg" and not p]
        if lit and len(params) == len(lit) and not f.get("pub"):
            sites, all_gated = 0, True
            for g in ctx.facts["fns"]:
                if "mir" not in g or g.get("from_expansion"):
                    continue
                gbody = ctx.body(g["id"])
                for cb_, ct in gbody.calls():
                    if mir.callee(ct) != fid or gbody.blocks[cb_]["cleanup"]:
                        continue
                    sites += 1
                    for i in params:
                        a = ct["args"][i - 1]
                        alit = {(r, tuple(p)) for (r, p) in gbody.trace_operand(a)} if a["k"] in ("copy", "move") else set()
                        gated = any((alit & {(r, tuple(p)) for (r, p) in gbody.trace_operand(gt["args"][0])}) and _dominated_by_edges(gbody, _some_edges(gbody, gt), cb_)
                                    for gb2, gt in gbody.calls() if mir.callee(gt) == IS_OF_TYPE)
                        parsed = bool(alit) and all(any(rr[0] == "call" and str(rr[2]) == "literal::Literal::parse" for (rr, pp) in
                                                        (gbody.deep_sources(gbody.term(r[1])["args"][0], 3) if str(r[2]).endswith("Try>::branch") else {(r, p)}))
                                                    for (r, p) in alit if r[0] == "call") and all(r[0] == "call" for (r, p) in alit)
                        if not (gated or parsed):
                            all_gated = False
            if sites and all_gated:
                res.ok({"function": fid, "verdict": "helper: all %d call sites pass a literal accepted by is_of_type or produced by Literal::parse" % sites})
                continue
        # a wrapper that only holds an already gated literal: its constructor sites must be gated
        if mir.last_seg(fid) == "as_bits" and "GarbleArgument" in (f.get("inputs") or [""])[0]:
            ctor_ok = True
            n_ctor = 0
            for g in ctx.facts["fns"]:
                if "mir" not in g or g.get("from_expansion"):
                    continue
                gb_ = ctx.body(g["id"])
                for bb, blk in enumerate(gb_.blocks):
                    for st in blk["stmts"]:
                        if st["k"] == "assign" and st["rv"]["k"] == "aggregate" and st["rv"].get("adt") == "GarbleArgument":
                            n_ctor += 1
                            gs = [(x, y) for x, y in gb_.calls() if mir.callee(y) == IS_OF_TYPE]
                            parse = [x for x, y in gb_.calls() if mir.callee(y) == "literal::Literal::parse"]
                            good = any(_dominated_by_edges(gb_, _some_edges(gb_, y), bb) for x, y in gs) or any(gb_.dominates(x, bb) for x in parse)
                            if not good:
                                ctor_ok = False
                                res.bad(Finding("L6", g["id"], "GarbleArgument built without the gate", "an argument is wrapped without is_of_type / Literal::parse having accepted it", st["sp"]))
            if ctor_ok and n_ctor:
                res.ok({"function": fid, "verdict": "wraps literals that passed the gate at all %d construction sites" % n_ctor})
            continue
        if fid.startswith("literal::") or fid.startswith("<literal::"):
            # recursion inside the literal module (children of an accepted literal)
            res.ok({"function": fid, "verdict": "recursive encoding of children"})
            continue
        res.bad(Finding("L6", fid, "as_bits without gate", "a literal is encoded without a dominating positive is_of_type answer on it", t["sp"]))
    return res


def _l7_classify(body, op, ty_arg, bits_arg, size_args):
    from_bits = from_type = False
    for (r, p) in body.trace_operand(op):
        if r[0] == "agg":
            rv = body.blocks[r[1]]["stmts"][r[2]]["rv"]
            if "Range" in (rv.get("adt") or "") and len(rv["ops"]) == 2:
                end = body.deep_sources(rv["ops"][1], 5)
                if any(rr == ("arg", ty_arg) or rr in [("arg", a) for a in size_args] or (rr[0] == "call" and mir.last_seg(rr[2] or "") in ("get", "resolve_const_expr_usize", "resolve_const_expr_unsigned")) for (rr, pp) in end):
                    from_type = True
                if any(rr == ("arg", bits_arg) for (rr, pp) in end):
                    from_bits = True
        elif r == ("arg", bits_arg):
            from_bits = True
        elif r[0] in ("call", "iter"):
            c = body.term(r[1])
            if c["args"] and any(rr == ("arg", bits_arg) for (rr, pp) in body.deep_sources(c["args"][0], 4)):
                from_bits = True
    return from_bits, from_type


def _l7_loops(ctx, res, body, region, label, ty_arg, bits_arg, size_args):
    """element loops (loops around a recursive decode) inside `region` of `body`; returns how many were examined"""
    n = 0
    # elements decoded by a closure handed to an iterator adaptor (`.map(|bits| from_unwrapped_bits(..))`)
    for c in sorted(ctx.cg.closures_of.get(body.id, ())):
        if not any(mir.callee(t) == FROM_BITS for _, t in ctx.body(c).calls()):
            continue
        for b in region:
            t = body.term(b)
            if t["k"] == "call" and len(t["args"]) >= 2 and any(r[0] == "agg" and body.blocks[r[1]]["stmts"][r[2]]["rv"].get("closure") == c
                                                                for a in t["args"][1:] for (r, p) in body.trace_operand(a, through={})):
                n += 1
                from_bits, from_type = _l7_classify(body, t["args"][0], ty_arg, bits_arg, size_args)
                if from_type and not from_bits:
                    res.ok({"arm": label, "verdict": "elements decoded by a closure over a Range bounded by the array type's size"})
                else:
                    res.bad(Finding("L7", body.id, "%s elements decoded from an iterator over the bits" % label,
                                    "the elements are produced by mapping over the bit slice (chunks / windows) instead of a Range bounded by the array type: arrays of zero-sized elements decode to the wrong length or panic",
                                    t["sp"]))
    rec = [b for b in region if body.term(b)["k"] == "call" and mir.callee(body.term(b)) == FROM_BITS]
    for rb in rec:
        loops = [lp for lp in body.loops() if rb in lp["body"]]
        if not loops:
            res.bad(Finding("L7", body.id, "%s elements decoded outside a loop" % label, "cannot see how many elements are decoded", body.term(rb)["sp"]))
            continue
        lp = min(loops, key=lambda l_: len(l_["body"]))
        for b in lp["body"]:
            t = body.term(b)
            if t and t["k"] == "call" and t["func"].get("declared") == "std::iter::Iterator::next":
                inner = [l2 for l2 in body.loops() if b in l2["body"]]
                if min(inner, key=lambda l2: len(l2["body"]))["header"] != lp["header"]:
                    continue
                n += 1
                from_bits = from_type = False
                for (r, p) in body.trace_operand(t["args"][0]):
                    if r[0] == "agg":
                        rv = body.blocks[r[1]]["stmts"][r[2]]["rv"]
                        if "Range" in (rv.get("adt") or "") and len(rv["ops"]) == 2:
                            end = body.deep_sources(rv["ops"][1], 5)
                            if any(rr == ("arg", ty_arg) or rr in [("arg", a) for a in size_args] or (rr[0] == "call" and mir.last_seg(rr[2] or "") in ("get", "resolve_const_expr_usize", "resolve_const_expr_unsigned")) for (rr, pp) in end):
                                from_type = True
                            if any(rr == ("arg", bits_arg) for (rr, pp) in end):
                                from_bits = True
                    elif r == ("arg", bits_arg):
                        from_bits = True
                    elif r[0] in ("call", "iter"):
                        c = body.term(r[1])
                        if c["args"] and any(rr == ("arg", bits_arg) for (rr, pp) in body.deep_sources(c["args"][0], 4)):
                            from_bits = True
                if from_bits and not from_type:
                    res.bad(Finding("L7", body.id, "%s element count taken from the bits" % label,
                                    "the element loop walks the bit slice (chunks / windows / its length) instead of a Range bounded by the array type: arrays of zero-sized elements decode to the wrong length or panic",
                                    t["sp"]))
                elif from_type:
                    res.ok({"arm": label, "verdict": "element loop bounded by the array type's size"})
                else:
                    res.bad(Finding("L7", body.id, "%s element count of unknown origin" % label, "the element loop is bounded by neither the type nor a constant of the program", t["sp"]))
    return n


def rule_l7(ctx):
    res = RuleResult("L7", "the reader takes the number of array elements from the type, not from the bits")
    body = ctx.body(FROM_BITS)
    ty_arg = bits_arg = None
    for l in range(1, body.arg_count + 1):
        if body.locals[l]["ty"] == "&ast::Type":
            ty_arg = l
        if body.locals[l]["ty"] == "&[bool]":
            bits_arg = l
    if ty_arg is None or bits_arg is None:
        raise AnchorMissing("L7: from_unwrapped_bits has no (&Type, &[bool]) parameters")
    n = 0
    reach = ctx.cg.reach_set({FROM_BITS})
    helpers = set()
    per_arm = {}
    arm_helpers = {}
    for variant in ("Array", "ArrayConst", "ArrayConstExpr"):
        succ = body.pruned_succ({(("arg", ty_arg), ()): variant})
        region = body.reachable([0], succ=succ)
        if len(region) == len(body.reachable([0])):
            raise AnchorMissing("L7: cannot isolate the %s arm of from_unwrapped_bits" % variant)
        per_arm[variant] = _l7_loops(ctx, res, body, region, variant, ty_arg, bits_arg, [])
        n += per_arm[variant]
        # the arm may hand the elements to a helper of literal.rs that decodes them (and calls back)
        for b in region:
            t = body.term(b)
            if t["k"] == "call":
                for c in mir.callee_names(t):
                    if c != FROM_BITS and c in reach and c in ctx.fns and "mir" in ctx.fns[c] and ctx.fns[c]["sp"][0].endswith("literal.rs"):
                        helpers.add(c)
                        arm_helpers.setdefault(variant, set()).add(c)
    helper_loops = {}
    for h in sorted(helpers):
        hb = ctx.body(h)
        hty = hbits = None
        sizes = []
        for l in range(1, hb.arg_count + 1):
            ty = hb.locals[l]["ty"]
            if ty == "&ast::Type":
                hty = l
            elif ty == "&[bool]":
                hbits = l
            elif ty in ("usize", "u64", "u32"):
                sizes.append(l)         # the element count handed over by the arm (whatever integer type it travels in)
        if hbits is None:
            continue
        helper_loops[h] = _l7_loops(ctx, res, hb, hb.reachable([0]), "helper %s" % mir.last_seg(h), hty if hty is not None else -1, hbits, sizes)
        n += helper_loops[h]
    # every arm has its element loop, of its own or in a helper it calls (two arms may share one helper)
    bare = [v for v in per_arm if per_arm[v] + sum(helper_loops.get(h, 0) for h in arm_helpers.get(v, ())) < 1]
    if bare and not res.findings:
        raise AnchorMissing("L7: expected an element loop in each of the three array arms (or in a helper it calls), none found for %s" % ", ".join(bare))
    return res


def rule_l14(ctx):
    """The literal parser type-checks its text like a program: where the checker re-types an untyped range (`0..3` as [i8; 3]:
    C05-S18), the argument parser hands out a Literal::Range.  The gate has to accept a range for the same element kinds, otherwise
    `parse_arg(0, "0..3")` answers with a literal that `literal_arg` / `set_literal` refuse (and the same text is fine inside a program)."""
    from . import C05
    res = RuleResult("L14", "is_of_type accepts a Range literal for the element kinds for which the checker re-types an untyped range")
    kinds = C05.range_retype_kinds(ctx)
    gb = ctx.body(IS_OF_TYPE)
    region = set(gb.reachable([0], succ=gb.pruned_succ({(SELF1, ()): "Range"})))
    if len(region) == len(gb.reachable([0])):
        raise AnchorMissing("L14: cannot isolate the Range arm of is_of_type")
    gate = set()
    for b in sorted(region):
        if gb.blocks[b]["cleanup"]:
            continue
        info = gb.switch_info(b)
        if info and info[2] == "ast::Type":
            t = gb.term(b)
            for v, x in t["targets"]:
                if info[1].get(v) in ("Unsigned", "Signed"):
                    gate.add(info[1][v])
        for st in gb.blocks[b]["stmts"]:
            if st["k"] == "assign" and st["rv"]["k"] == "aggregate" and st["rv"].get("adt") == "ast::Type" and st["rv"].get("variant") in ("Unsigned", "Signed"):
                gate.add(st["rv"]["variant"])       # `elem_ty == &Type::Unsigned(num_ty)`
    if not gate:
        raise AnchorMissing("L14: the Range arm of is_of_type does not look at the element type")
    for kind in sorted(kinds):
        if kind in gate:
            res.ok({"element_kind": kind, "verdict": "re-typed by the checker, accepted by the gate"})
        else:
            res.bad(Finding("L14", IS_OF_TYPE, "a Range literal is never an array of %s numbers" % kind.lower(),
                            "the checker re-types an untyped range for Type::%s elements, so the argument parser answers `0..3` for a parameter of type [i8; 3] with Literal::Range - "
                            "and is_of_type refuses that literal: literal_arg / set_literal / parse_literal fail with InvalidLiteralType for a text that is accepted inside a program" % kind,
                            ctx.fn(IS_OF_TYPE)["sp"]))
    # for signed elements the representability bound is the *signed* type's max (sibling of L11's clause for constrain_type): the
    # bound handed to the final comparison / predicate has SignedNumType::max among its origins
    if "Signed" in kinds and "Signed" in gate:
        smax = [b for b in sorted(region) if gb.term(b) and gb.term(b)["k"] == "call" and str(mir.callee(gb.term(b)) or "").endswith("SignedNumType::max") and not gb.blocks[b]["cleanup"]]
        used = False
        for b in sorted(region):
            t = gb.term(b)
            if gb.blocks[b]["cleanup"] or not t:
                continue
            ops = []
            if t["k"] == "call" and (t["func"].get("declared") or "").startswith("std::option::Option") and len(t["args"]) == 2:
                ops = [t["args"][0]]          # receiver of is_none_or / is_some_and / map_or (the predicate compares its payload)
            for st in gb.blocks[b]["stmts"]:
                if st["k"] == "assign" and st["rv"]["k"] == "binop" and st["rv"]["op"] in ("Lt", "Le", "Gt", "Ge"):
                    ops += [st["rv"]["l"], st["rv"]["r"]]
            for o in ops:
                if o.get("k") in ("copy", "move") and any(r[0] == "call" and r[1] in smax for (r, p) in gb.deep_sources(o, 6)):
                    used = True
        if used:
            res.ok({"verdict": "for signed element types the representability bound derives from SignedNumType::max()"})
        else:
            res.bad(Finding("L14", IS_OF_TYPE, "range for a signed array is bounded by the unsigned type's max",
                            "is_of_type accepts a Range for signed element types but the bound its last element is compared with does not come from SignedNumType::max(): "
                            "Literal::Range(120, 130, U8) is accepted for [i8; 10] and 128, 129 encode as -128, -127", ctx.fn(IS_OF_TYPE)["sp"]))
    return res


def rule_l15(ctx):
    """`printing v and parsing it back as a T yields v` for range literals.  A Literal::Range can only say `<min><unsigned type>..<max>`:
    (a) where the checker re-types an untyped range for signed elements (C05-S18) the conversion of the checked text into a Literal
    must not answer with a Range (its text `0u8..3u8` is no [i8; 3]); (b) the exclusive end of a range may be one above the largest
    number of its type, which has no suffixed spelling - Display must compare the end with max() before it appends the suffix."""
    from . import C05
    res = RuleResult("L15", "range literals print as text that parses back: no Range for signed arrays, no suffix on an end above the type's max")
    # (a) into_literal
    fs = [f for f in ctx.fns.values() if f.get("mir") and mir.last_seg(f["id"]) == "into_literal" and f["sp"][0] == "src/literal.rs"]
    if len(fs) != 1:
        raise AnchorMissing("L15: expected one into_literal in literal.rs, found %d" % len(fs))
    ib = ctx.body(fs[0]["id"])
    aps = [info[0] for b in range(ib.n) for info in [ib.switch_info(b)] if info and info[0] and info[2] == "ast::ExprEnum" and "Range" in info[1].values()]
    if not aps:
        raise AnchorMissing("L15: into_literal does not switch over ExprEnum")
    region = set(ib.reachable([0], succ=ib.pruned_succ({aps[0]: "Range"})))
    builds_range = [b for b in sorted(region) for st in ib.blocks[b]["stmts"]
                    if st["k"] == "assign" and st["rv"]["k"] == "aggregate" and (st["rv"].get("adt") or "").endswith("Literal") and st["rv"].get("variant") == "Range"]
    if "Signed" in C05.range_retype_kinds(ctx):
        # the Range arm has to look at the element type; on the Signed edge no Literal::Range may be built
        tsw = [(b, info) for b in sorted(region) for info in [ib.switch_info(b)] if info and info[2] == "ast::Type" and "Signed" in info[1].values() and
               any(info[1].get(v) == "Signed" for v, _ in ib.term(b)["targets"])]
        bad = True
        for (b, info) in tsw:
            t = ib.term(b)
            signed_t = [x for v, x in t["targets"] if info[1].get(v) == "Signed"]
            after = set(ib.reachable(signed_t))
            if not (after & set(builds_range)):
                bad = False
        if bad:
            res.bad(Finding("L15", fs[0]["id"], "a range re-typed to signed elements becomes a Literal::Range",
                            "the checker re-types `0..3` for a parameter of type [i8; 3], and into_literal answers Literal::Range(0, 3, U8): its text `0u8..3u8` is refused for the same "
                            "parameter (print / parse round trip fails; type test and parser disagree about one literal)", fs[0]["sp"]))
        else:
            res.ok({"function": "into_literal", "verdict": "a range with signed elements is converted to the array of its elements"})
    # (b) Display
    ds = [f for f in ctx.fns.values() if f.get("mir") and f["id"].endswith("::fmt") and "literal::Literal" in f["id"] and "Display" in f["id"]]
    if len(ds) != 1:
        raise AnchorMissing("L15: Display for Literal not found (%r)" % [f["id"] for f in ds])
    db = ctx.body(ds[0]["id"])
    dregion = set(db.reachable([0], succ=db.pruned_succ({(SELF1, ()): "Range"})))
    if len(dregion) == len(db.reachable([0])):
        raise AnchorMissing("L15: cannot isolate the Range arm of Display for Literal")
    maxes = [b for b in sorted(dregion) if db.term(b)["k"] == "call" and mir.last_seg(mir.callee(db.term(b)) or "") == "max"]
    cmp_ok = False
    for b in sorted(dregion):
        for st in db.blocks[b]["stmts"]:
            if st["k"] == "assign" and st["rv"]["k"] == "binop" and st["rv"]["op"] in ("Lt", "Le", "Gt", "Ge"):
                srcs = db.deep_sources(st["rv"]["l"], 4) | db.deep_sources(st["rv"]["r"], 4)
                if any(r == SELF1 and "as Range" in p and p[-1] == "1" for (r, p) in srcs):
                    cmp_ok = True
    for c in ctx.cg.closures_of.get(ds[0]["id"], ()):
        cb = ctx.body(c)
        if any(st["k"] == "assign" and st["rv"]["k"] == "binop" and st["rv"]["op"] in ("Lt", "Le", "Gt", "Ge") for blk in cb.blocks for st in blk["stmts"]):
            cmp_ok = cmp_ok or bool(maxes)
    if maxes and cmp_ok:
        res.ok({"function": "Display for Literal", "verdict": "the end of a range is compared with max() of its type before it is printed with the suffix"})
    else:
        res.bad(Finding("L15", ds[0]["id"], "the end of a range is printed with the type suffix unconditionally",
                        "`253..256` is a value of [u8; 3] and prints as `253u8..256u8`, which does not scan (256 is no u8): the printed form of an accepted argument cannot be parsed back",
                        ds[0]["sp"]))
    return res


def rule_l16(ctx):
    """`refused with an error rather than a panic`: the reader computes the tag of an enum from the bits it is given.  Bits that were
    not encoded from a value of the enum (a result read back from raw wires, an argument assembled by hand) can carry any tag, so the
    tag must be looked up with a checked access, not `variants[tag]`."""
    res = RuleResult("L16", "the reader looks the decoded enum tag up with a checked access")
    body = ctx.body(FROM_BITS)
    n = 0
    for b, t in body.calls():
        if body.blocks[b]["cleanup"] or not t["args"]:
            continue
        seg = mir.last_seg(mir.callee(t) or "")
        recv = body.deep_sources(t["args"][0], 4)
        on_variants = any(p and p[-1] == "variants" for (r, p) in recv)
        if not on_variants or len(t["args"]) != 2:
            continue
        if t["func"].get("declared") in ("std::ops::Index::index", "std::ops::IndexMut::index_mut"):
            n += 1
            res.bad(Finding("L16", FROM_BITS, "the decoded enum tag indexes the variants unchecked",
                            "`enum_def.variants[tag]` with a tag computed from the given bits: the bits `11` for an enum with three variants make parse_output / from_result_bits panic "
                            "(index out of bounds) instead of answering with an error", t["sp"]))
        elif seg == "get":
            n += 1
            res.ok({"site": "line %d" % t["sp"][1], "verdict": "variants.get(tag): an unknown tag is an error"})
    if not n:
        raise AnchorMissing("L16: from_unwrapped_bits does not look a variant up by its tag")
    return res


def rule_l17(ctx):
    """The literal parser hands its text to the checker; `check_or_constrain_signed / _unsigned` are where a number literal meets
    the bounds of the type it is given.  For a literal node every path to the accepting exit has to pass the comparison of the
    payload with min() / max() of the expected type - the only legitimate way around is that the expected type has no bounds (the
    None answer of min() / max(), a value that depends on the expected type alone).  A conversion of the payload that can fail
    (`i64::try_from(n).ok()`) and skips the comparison when it does lets `18446744073709551615` through as the i8 -1."""
    res = RuleResult("L17", "a number literal reaches its type only through the comparison with min() / max(); only the type's own 'no bound' answer bypasses it")
    INNER1 = (SELF1, ("inner",))
    n = 0
    for fid, cases in (("check::check_or_constrain_signed", (("NumUnsigned", ("max",)), ("NumSigned", ("min", "max")))),
                       ("check::check_or_constrain_unsigned", (("NumUnsigned", ("max",)),))):
        if not ctx.has_fn(fid):
            raise AnchorMissing("L17: %s not found" % fid)
        body = ctx.body(fid)
        oks = [b for b, blk in enumerate(body.blocks) if not blk["cleanup"] for st in blk["stmts"]
               if st["k"] == "assign" and st["place"]["l"] == 0 and st["rv"]["k"] == "aggregate" and st["rv"].get("variant") == "Ok"]
        if not oks:
            raise AnchorMissing("L17: %s has no accepting exit" % fid)
        # None edges of Options that depend on the expected type alone (min() / max() / a zip of them)
        free_edges = set()
        for b in range(body.n):
            info = body.switch_info(b)
            if not (info and info[2].startswith("std::option::Option")):
                continue
            t = body.term(b)
            d = t["discr"]
            disc_defs = [x for x in body.defs().get(d["place"]["l"], []) if x[0] == "assign" and x[3]["rv"]["k"] == "discriminant"]
            if not disc_defs:
                continue
            srcs = body.deep_sources({"k": "copy", "place": disc_defs[0][3]["rv"]["place"]}, 6)
            roots = {r for (r, p) in srcs if r[0] == "arg"}
            if roots and roots <= {("arg", 2)}:
                listed = {v for v, _ in t["targets"]}
                for v, x in t["targets"]:
                    if info[1].get(v) == "None":
                        free_edges.add((b, x))
                if any(nm == "None" and v not in listed for v, nm in info[1].items()):
                    free_edges.add((b, t["otherwise"]))
        for variant, bounds in cases:
            succ0 = body.pruned_succ({INNER1: variant})
            for bound in bounds:
                cmps = set()
                for b, blk in enumerate(body.blocks):
                    for st in blk["stmts"]:
                        if st["k"] == "assign" and st["rv"]["k"] == "binop" and st["rv"]["op"] in ("Lt", "Le", "Gt", "Ge"):
                            sides = [body.deep_sources(st["rv"]["l"], 5), body.deep_sources(st["rv"]["r"], 5)]
                            has_payload = [any(r == SELF1 and ("as " + variant) in p for (r, p) in sd) for sd in sides]
                            has_bound = [any(r[0] == "call" and mir.last_seg(str(r[2])) == bound for (r, p) in sd) for sd in sides]
                            if (has_payload[0] and has_bound[1]) or (has_payload[1] and has_bound[0]):
                                cmps.add(b)
                if not cmps:
                    res.bad(Finding("L17", fid, "%s literal is never compared with %s()" % (variant, bound),
                                    "no comparison of the literal's payload with %s() of the expected type" % bound, body.fn["sp"]))
                    continue
                n += 1

                def succ(x, succ0=succ0):
                    return [y for y in succ0(x) if (x, y) not in free_edges and not body.blocks[y]["cleanup"]]
                w = body.path(0, oks, blocked=cmps, succ=succ)
                if w:
                    res.bad(Finding("L17", fid, "%s literal can be accepted without the comparison with %s()" % (variant, bound),
                                    "a path reaches the accepting exit without comparing the literal with %s() although the expected type has such a bound (blocks %s): "
                                    "`18446744073709551615` is accepted for an i8 and becomes -1" % (bound, w[-6:]), body.term(w[-1])["sp"] if body.term(w[-1]) else body.fn["sp"]))
                else:
                    res.ok({"function": fid, "literal": variant, "bound": bound + "()", "verdict": "compared on every path on which the type has the bound"})
    if n < 4 and not res.findings:
        raise AnchorMissing("L17: expected four payload / bound comparisons in check_or_constrain_*, found %d" % n)
    return res


def run(ctx):
    return ctx.run_rules([rule_l1, rule_l1b, rule_l2, rule_l3, rule_l4, rule_l5, rule_l6, rule_l7, rule_l8, rule_l9, rule_l10, rule_l11, rule_l12, rule_l13, rule_l14, rule_l15, rule_l16, rule_l17])


# ---- the literal parser ------------------------------------------------------------------------------
PAIRS = {"LeftParen": "RightParen", "LeftBracket": "RightBracket", "LeftBrace": "RightBrace"}
IS_SOME = {"std::option::Option::<T>::is_some": 0}


def _ok_blocks(body):
    return [b for b, blk in enumerate(body.blocks) if not blk["cleanup"] for st in blk["stmts"]
            if st["k"] == "assign" and st["place"]["l"] == 0 and not st["place"]["p"] and st["rv"]["k"] == "aggregate"
            and st["rv"].get("variant") == "Ok" and st["rv"].get("adt") == "std::result::Result"]


def _hit_edges(body, cb):
    """Blocks entered exactly when the Option returned by the call in block cb is Some."""
    out = set()
    for b in range(body.n):
        t = body.term(b)
        if not t or t["k"] != "switch":
            continue
        info = body.switch_info(b)
        if info and info[0] and info[0][0][:2] == ("call", cb) and not info[0][1] and info[2].startswith("std::option::Option"):
            for v, x in t["targets"]:
                if info[1].get(v) == "Some":
                    out.add(x)
            listed = {v for v, _ in t["targets"]}
            if any(n == "Some" and v not in listed for v, n in info[1].items()):
                out.add(t["otherwise"])
        elif t["discr"]["k"] in ("copy", "move") and body.locals[t["discr"]["place"]["l"]]["ty"] == "bool":
            roots = body.trace(t["discr"]["place"], through=IS_SOME)
            if roots and all(r[:2] == ("call", cb) for (r, p) in roots):
                ds = [d for d in body.defs().get(t["discr"]["place"]["l"], []) if d[0] == "call"]
                if len(ds) == 1 and "is_some" in mir.last_seg(mir.callee(body.term(ds[0][1])) or ""):
                    if all(v == 0 for v, _ in t["targets"]):
                        out.add(t["otherwise"])
    return out


def bracket_sites(ctx, E, body):
    """(opener variant, entry block, line) and {closer variant: blocks} of one parser function."""
    opens, closes = [], {}
    for b, t in body.calls():
        seg = mir.last_seg(mir.callee(t) or "")
        if seg not in ("expect", "next_matches"):
            continue
        key = E.const_key(body, t)
        if not key or not key.startswith("token::TokenEnum::"):
            continue
        v = key.rsplit("::", 1)[1]
        if seg == "expect":
            # the Err edge leaves the function through `?`; the call block stands for the consumption
            if v in PAIRS:
                opens.append((v, t["target"], t["sp"][1]))
            if v in PAIRS.values():
                closes.setdefault(v, set()).add(b)
        else:
            hits = _hit_edges(body, b)
            if v in PAIRS:
                for x in hits:
                    opens.append((v, x, t["sp"][1]))
            if v in PAIRS.values():
                closes.setdefault(v, set()).update(hits)
    # a closing token that was peeked and is then consumed by the very next parser call (advance / next_matches)
    for b, t in body.calls():
        if mir.last_seg(mir.callee(t) or "") != "peek" or (mir.callee(t) or "").startswith("std::"):
            continue
        key = E.const_key(body, t)
        if not key or key.rsplit("::", 1)[1] not in PAIRS.values():
            continue
        v = key.rsplit("::", 1)[1]
        for sb in range(body.n):
            st = body.term(sb)
            if st and st["k"] == "switch" and st["discr"]["k"] in ("copy", "move") and all(x == 0 for x, _ in st["targets"]) and \
                    any(r[:2] == ("call", b) for (r, p) in body.trace(st["discr"]["place"], through={})):
                cur, hops = st["otherwise"], 0
                while hops < 12:
                    tt = body.term(cur)
                    if tt and tt["k"] == "call":
                        seg = mir.last_seg(mir.callee(tt) or "")
                        if seg == "advance" or (seg in ("next_matches", "expect") and E.const_key(body, tt) == key):
                            closes.setdefault(v, set()).add(cur)
                            break
                        if (mir.callee(tt) or "") in E.scope:
                            break
                    nx = body.succs(cur)
                    if len(nx) != 1:
                        break
                    cur, hops = nx[0], hops + 1
    for b in range(body.n):
        info = body.switch_info(b)
        if info and info[2] == "token::TokenEnum" and info[0] and info[0][0][0] == "arg":
            t = body.term(b)
            for v, x in t["targets"]:
                if info[1].get(v) in PAIRS:
                    opens.append((info[1][v], x, t["sp"][1]))
    return opens, closes


def _variant_path(body, cb, start, goals, blocked=()):
    """Block path start -> goal that is consistent about the variant (Ok / Err) of the Result returned by the call in block cb:
    the edges of `is_ok()` / `is_err()` on it and of matches on its discriminant must agree along the path."""
    from collections import deque
    know = {}       # block -> {successor: variant}
    for b in range(body.n):
        t = body.term(b)
        if not t or t["k"] != "switch":
            continue
        info = body.switch_info(b)
        if info and info[0] and info[0][0][:2] == ("call", cb) and not info[0][1]:
            m = {}
            listed = {v for v, _ in t["targets"]}
            for v, x in t["targets"]:
                m.setdefault(x, set()).add(info[1].get(v))
            m.setdefault(t["otherwise"], set()).update(n for v, n in info[1].items() if v not in listed)
            know[b] = m
        elif t["discr"]["k"] in ("copy", "move") and body.locals[t["discr"]["place"]["l"]]["ty"] == "bool":
            ds = [d for d in body.defs().get(t["discr"]["place"]["l"], []) if d[0] == "call"]
            if len(ds) == 1:
                c = body.term(ds[0][1])
                seg = mir.last_seg(mir.callee(c) or "")
                if seg in ("is_ok", "is_err") and c["args"] and c["args"][0]["k"] in ("copy", "move") and \
                        all(r[:2] == ("call", cb) and not p for (r, p) in body.trace(c["args"][0]["place"], through={})) and all(v == 0 for v, _ in t["targets"]):
                    yes, no = ("Ok", "Err") if seg == "is_ok" else ("Err", "Ok")
                    know[b] = {t["otherwise"]: {yes}}
                    for v, x in t["targets"]:
                        know[b].setdefault(x, set()).add(no)
    goals, blocked = set(goals), set(blocked)
    if start in blocked:
        return None
    prev = {(start, None): None}
    dq = deque([(start, None)])
    while dq:
        b, k = dq.popleft()
        if b in goals:
            out, cur = [], (b, k)
            while cur is not None:
                out.append(cur[0])
                cur = prev[cur]
            return out[::-1]
        for s in body.succs(b):
            if s in blocked:
                continue
            k2 = k
            if b in know:
                vs = know[b].get(s, set())
                if k is not None and k not in vs:
                    continue
                if k is None and len(vs) == 1:
                    k2 = next(iter(vs))
            if (s, k2) not in prev:
                prev[(s, k2)] = (b, k)
                dq.append((s, k2))
    return None


def rule_l8(ctx):
    """The text given to Literal::parse is a literal only if nothing follows it."""
    res = RuleResult("L8", "the literal entry point returns Ok only at the end of the token stream and without recorded errors")
    fs = [f for f in ctx.find_fns("parse_literal", None, "parse.rs") if "scan::Tokens" in f["id"]]
    if len(fs) != 1:
        raise AnchorMissing("L8: Tokens::parse_literal not found")
    body = ctx.body(fs[0]["id"])
    inner = [b for b, t in body.calls() if (mir.callee(t) or "").endswith("Parser::parse_literal")]
    oks = _ok_blocks(body)
    if len(inner) != 1:
        raise AnchorMissing("L8: expected one call of Parser::parse_literal in Tokens::parse_literal")
    P = inner[0]
    # the result handed on as it is (`.map_err(..)` keeps an Ok)
    for b, t in body.calls():
        if t["dest"]["l"] == 0 and mir.last_seg(mir.callee(t) or "") in ("map_err", "or_else") and t["args"] and t["args"][0]["k"] in ("copy", "move") and \
                any(r[:2] == ("call", P) for (r, p) in body.trace(t["args"][0]["place"], through={})):
            oks.append(b)
    for b, blk in enumerate(body.blocks):
        for st in blk["stmts"]:
            if st["k"] == "assign" and st["place"]["l"] == 0 and not st["place"]["p"] and st["rv"]["k"] == "use" and st["rv"]["op"]["k"] in ("copy", "move") and \
                    any(r[:2] == ("call", P) and not p for (r, p) in body.trace(st["rv"]["op"]["place"], through={})):
                oks.append(b)
    if not oks:
        raise AnchorMissing("L8: no Ok result found in Tokens::parse_literal")
    probes = []
    for b, t in body.calls():
        if b == P or not body.dominates(P, b) or not t["args"] or t["args"][0]["k"] not in ("copy", "move"):
            continue
        if "Peekable" in t["args"][0]["place"]["ty"] and mir.last_seg(mir.callee(t) or t["func"].get("declared") or "") in ("next", "peek"):
            probes.append(b)
    w = _variant_path(body, P, body.term(P)["target"], oks, blocked=probes)
    if w:
        res.bad(Finding("L8", fs[0]["id"], "tokens after the literal are never looked at",
                        "a path from Parser::parse_literal to the Ok result asks the token stream for nothing more: `1 2` is accepted as the literal 1",
                        body.term(P)["sp"], witness=["line %d" % body.term(x)["sp"][1] for x in w if body.term(x)][-10:]))
        return res
    res.ok({"probes": ["line %d" % body.term(b)["sp"][1] for b in probes], "verdict": "every path to Ok asks for the next token"})
    # the literal parser can record an error and still hand back a node (mismatching range suffixes): Ok only with an empty error list
    from . import C02 as _C02
    gate_edges = set()
    for eb, et in body.calls():
        if mir.last_seg(mir.callee(et) or "") == "is_empty" and "ParseError" in et["args"][0]["place"]["ty"]:
            for sb in range(body.n):
                st = body.term(sb)
                if st and st["k"] == "switch" and st["discr"]["k"] in ("copy", "move") and all(v == 0 for v, _ in st["targets"]) and \
                        any(r[:2] == ("call", eb) for (r, p) in body.trace(st["discr"]["place"], through={})):
                    gate_edges.add((sb, st["otherwise"]))
    ungated = [ob for ob in oks if not (gate_edges and _C02._dominated_by_edges(body, gate_edges, ob))]
    if ungated:
        res.bad(Finding("L8", fs[0]["id"], "Ok although the literal parser recorded an error",
                        "the Ok result is not guarded by errors.is_empty(): `0u8..3u16` records InvalidRangeTypes, still yields a node, and is accepted as `0u8..3u8`",
                        body.blocks[ungated[0]]["stmts"][-1]["sp"] if body.blocks[ungated[0]]["stmts"] else body.fn["sp"]))
    else:
        res.ok({"verdict": "Ok only on the errors.is_empty() edge"})
    pushes = {b for b, t in body.calls() if mir.last_seg(mir.callee(t) or "") in ("push_error", "push_error_for_next")
              or (mir.last_seg(mir.callee(t) or "") == "push" and "ParseError" in t["args"][0]["place"]["ty"])}
    empties = [(b, t) for b, t in body.calls() if mir.last_seg(mir.callee(t) or "") == "is_empty" and "ParseError" in t["args"][0]["place"]["ty"]]
    for pb in probes:
        for x in _hit_edges(body, pb):
            w = body.path(x, oks, blocked=pushes)
            if w:
                res.bad(Finding("L8", fs[0]["id"], "Ok although a token follows the literal",
                                "on the edge on which another token follows, Ok is reached without recording an error",
                                body.term(pb)["sp"], witness=["line %d" % body.term(y)["sp"][1] for y in w if body.term(y)][-10:]))
                continue
            if body.path(x, oks):
                # an error was pushed: Ok must then be guarded by errors.is_empty() asked after the push
                from . import C02
                good = False
                for eb, et in empties:
                    true_edges = set()
                    for sb in range(body.n):
                        st = body.term(sb)
                        if st and st["k"] == "switch" and st["discr"]["k"] in ("copy", "move") and \
                                any(r[:2] == ("call", eb) for (r, p) in body.trace(st["discr"]["place"], through={})):
                            if all(v == 0 for v, _ in st["targets"]):
                                true_edges.add((sb, st["otherwise"]))
                    if true_edges and all(C02._dominated_by_edges(body, true_edges, ob) for ob in oks) and any(eb in body.reachable([p]) for p in pushes):
                        good = True
                if good:
                    res.ok({"edge": "a token follows (line %d)" % body.term(pb)["sp"][1], "verdict": "an error is recorded and Ok is only returned when errors.is_empty()"})
                else:
                    res.bad(Finding("L8", fs[0]["id"], "recorded error does not prevent Ok",
                                    "a token follows the literal and an error is pushed, but Ok is not guarded by errors.is_empty() afterwards", body.term(pb)["sp"]))
            else:
                res.ok({"edge": "a token follows (line %d)" % body.term(pb)["sp"][1], "verdict": "Ok unreachable"})
    return res


def rule_l9(ctx):
    """Display prints nested literals with both brackets; the parser has to consume both on every successful path."""
    from . import C07
    res = RuleResult("L9", "a parser function that consumed an opening bracket returns Ok only after consuming the matching closing one")
    E = C07.get_eof(ctx)
    n = 0
    for f in C07.front_fns(ctx, ("parse.rs",)):
        if f["kind"] == "closure":
            continue
        body = ctx.body(f["id"])
        oks = _ok_blocks(body)
        if not oks:
            continue
        opens, closes = bracket_sites(ctx, E, body)
        for v, x, line in opens:
            n += 1
            w = body.path(x, oks, blocked=closes.get(PAIRS[v], ()))
            if w:
                res.bad(Finding("L9", f["id"], "%s opened at line %d is not closed on a path to Ok" % (v, line),
                                "after TokenEnum::%s was consumed a path reaches the Ok result without consuming TokenEnum::%s: the closing token is left in the stream "
                                "(`()` could not be nested in a literal or written in a program)" % (v, PAIRS[v]),
                                body.term(w[0])["sp"] if body.term(w[0]) else f["sp"],
                                witness=["line %d" % body.term(y)["sp"][1] for y in w if body.term(y)][-12:]))
            else:
                res.ok({"function": f["id"], "opened": "%s at line %d" % (v, line), "verdict": "every path to Ok consumes %s" % PAIRS[v]})
    if n < 18 and not res.findings:
        raise AnchorMissing("L9: only %d bracket openers found in parse.rs (23 on the pinned tree)" % n)
    return res


def rule_l10(ctx):
    """Sibling agreement of the entry points: the type a literal is tested or parsed against is the parameter type with its
    const sizes resolved (Literal::is_of_type / check_type know nothing about ArrayConst sizes)."""
    res = RuleResult("L10", "entry points test / parse literals against the parameter type after resolve_const_type")
    n = 0
    for f in ctx.fns.values():
        if f["sp"][0] not in ("src/lib.rs", "src/eval.rs") or not f.get("mir"):
            continue
        body = ctx.body(f["id"])
        for b, t in body.calls():
            cal = mir.callee(t) or ""
            if cal.endswith("Literal::is_of_type"):
                tyarg = t["args"][2]
            elif cal.endswith("Literal::parse"):
                tyarg = t["args"][1]
            else:
                continue
            if tyarg["k"] not in ("copy", "move"):
                continue
            roots = body.trace(tyarg["place"], through={})
            # (`let ty = self.next_param_type()?;`: look through the `?`)
            for (r, p) in list(roots):
                if r[0] == "call" and body.term(r[1])["func"].get("declared") == "std::ops::Try::branch":
                    roots = (set(roots) - {(r, p)}) | set(body.trace_operand(body.term(r[1])["args"][0], through={}))
            from_param = [r for (r, p) in roots if any("params" in str(x) or x == "ty" for x in p)]
            def answers_resolved(fid, depth=0):
                """a helper of the crate whose every answer (directly or as the Ok payload) is a resolve_const_type result"""
                if depth > 2 or not ctx.has_fn(fid) or ctx.fns[fid]["kind"] == "closure":
                    return False
                hb = ctx.body(fid)
                vals = []
                for d in hb.defs().get(0, []):
                    if d[0] == "call":
                        vals.append(("callee", mir.callee(d[3]) or ""))
                    elif d[0] == "assign" and d[3]["rv"]["k"] == "aggregate" and d[3]["rv"].get("variant") == "Ok":
                        vals += [("op", o) for o in d[3]["rv"]["ops"]]
                    elif d[0] == "assign" and d[3]["rv"]["k"] == "aggregate" and d[3]["rv"].get("variant") == "Err":
                        continue
                    elif d[0] == "assign" and d[3]["rv"]["k"] == "use":
                        vals.append(("op", d[3]["rv"]["op"]))
                    else:
                        return False
                oks = 0
                for kind, v in vals:
                    if kind == "callee":
                        if str(v).endswith("from_residual"):
                            continue
                        if not (str(v).endswith("resolve_const_type") or answers_resolved(v, depth + 1)):
                            return False
                        oks += 1
                    else:
                        rs = hb.trace_operand(v, through={}) if v["k"] in ("copy", "move") else set()
                        if not rs or not all(r2[0] == "call" and (str(r2[2]).endswith("resolve_const_type") or answers_resolved(str(r2[2]), depth + 1)) for (r2, p2) in rs):
                            return False
                        oks += 1
                return oks > 0
            resolved = [r for (r, p) in roots if r[0] == "call" and (str(r[2]).endswith("resolve_const_type") or answers_resolved(str(r[2])))]
            n += 1
            if resolved and len(resolved) == len(roots):
                res.ok({"function": f["id"], "call": "%s at line %d" % (mir.last_seg(cal), t["sp"][1]), "verdict": "type comes from resolve_const_type"})
            else:
                res.bad(Finding("L10", f["id"], "%s against an unresolved parameter type" % mir.last_seg(cal),
                                "the literal is %s against a type that did not go through resolve_const_type: every literal for a `[T; N]` parameter is refused "
                                "(while the sibling entry points accept it)" % ("parsed" if cal.endswith("parse") else "tested"), t["sp"]))
    if n < 4 and not res.findings:
        raise AnchorMissing("L10: expected the literal entry points of lib.rs / eval.rs, found %d" % n)
    return res


def _lifted_deep(ctx, body, op, depth=3):
    """lifted origins of an operand and of the operands of the arithmetic that produced it (`*to - 1`)"""
    out = set()
    work = [(op, depth)]
    while work:
        o, d = work.pop()
        if o["k"] not in ("copy", "move"):
            continue
        for (f, r, p) in ctx.lifted_trace(body, o, through={}):
            out.add((f, r, p))
            if r[0] == "rv" and d > 0 and f == body.id:
                rv = body.blocks[r[2]]["stmts"][r[3]]["rv"]
                for key in ("l", "r", "x", "op"):
                    oo = rv.get(key)
                    if isinstance(oo, dict):
                        work.append((oo, d - 1))
    return out


def rule_l11(ctx):
    """The parser path: a range literal is lowered element by element with the bits of its number type, so the last element
    (exclusive end - 1) has to be compared with that type's max wherever the number type is decided."""
    res = RuleResult("L11", "the type checker compares the end of a range with the max of its element type")
    tc = [f for f in ctx.find_fns("type_check", None, "check.rs") if "Expr<()>" in f["id"]]
    if len(tc) != 1:
        raise AnchorMissing("L11: type_check of untyped expressions not found")
    sites = [(tc[0]["id"], "where the range is typed"), ("check::constrain_type", "where an untyped range takes on the expected element type")]
    for fid, what in sites:
        found = _bound_names(ctx, comparisons_step(ctx, fid),
                             lambda f, r, p: r == SELF1 and "as Range" in p and p[-1] == "1")
        if "max" in found:
            res.ok({"function": fid, "verdict": "range end compared with max() of the number type (%s)" % what})
        else:
            res.bad(Finding("L11", fid, "range end not compared with the element type's max",
                            "%s the exclusive end of the range is never compared with max() of its number type: `250u8..260` is accepted and lowered as 250..255, 0, 1, 2, 3" % what,
                            ctx.fn(fid)["sp"]))
    # where the checker re-types a range for signed elements (C05-S18) the bound has to be the *signed* type's max: the unsigned
    # type of the same width (the type the elements are lowered with) admits 128..=255 for an i8
    from . import C05, C02
    if "Signed" in C05.range_retype_kinds(ctx):
        cb = ctx.body("check::constrain_type")
        region = set(cb.reachable([0], succ=cb.pruned_succ({C02.INNER: "Range"})))
        ok = False
        for b in sorted(region):
            for st in cb.blocks[b]["stmts"]:
                if st["k"] == "assign" and st["rv"]["k"] == "binop" and st["rv"]["op"] in ("Lt", "Le", "Gt", "Ge"):
                    sides = [cb.deep_sources(st["rv"]["l"], 6), cb.deep_sources(st["rv"]["r"], 6)]
                    end = [any(r == SELF1 and "as Range" in p and p[-1] == "1" for (r, p) in sd) for sd in sides]
                    smax = [any(r[0] == "call" and str(r[2]).endswith("SignedNumType::max") for (r, p) in sd) for sd in sides]
                    if (end[0] and smax[1]) or (end[1] and smax[0]):
                        ok = True
        # ... or inside the predicate of `max.is_some_and(|max| .. *to - 1 > max)`: the item of the predicate is the payload of the receiver
        for b in sorted(region):
            t = cb.term(b)
            if not (t and t["k"] == "call" and len(t["args"]) == 2 and t["args"][1]["k"] in ("copy", "move") and (t["func"].get("declared") or "").startswith("std::option::Option")):
                continue
            recv = cb.deep_sources(t["args"][0], 6)
            if not any(r[0] == "call" and str(r[2]).endswith("SignedNumType::max") for (r, p) in recv):
                continue
            for (r, p) in cb.trace(t["args"][1]["place"], through={}):
                cid = cb.blocks[r[1]]["stmts"][r[2]]["rv"].get("closure") if r[0] == "agg" else None
                if not cid or not ctx.has_fn(cid):
                    continue
                kb = ctx.body(cid)
                for blk in kb.blocks:
                    for st in blk["stmts"]:
                        if st["k"] == "assign" and st["rv"]["k"] == "binop" and st["rv"]["op"] in ("Lt", "Le", "Gt", "Ge"):
                            item = [any(rr == ("arg", 2) for (rr, pp) in kb.deep_sources(st["rv"][side], 4)) for side in ("l", "r")]
                            end = [any(rr == SELF1 and "as Range" in pp and pp[-1] == "1" for side_op in [st["rv"][side]] for (ff, rr, pp) in _lifted_deep(ctx, kb, side_op)) for side in ("l", "r")]
                            if (item[0] and end[1]) or (item[1] and end[0]):
                                ok = True
        if ok:
            res.ok({"function": "check::constrain_type", "verdict": "for signed element types the range end is compared with SignedNumType::max()"})
        else:
            res.bad(Finding("L11", "check::constrain_type", "range end of a signed array is not compared with the signed type's max",
                            "the checker re-types an untyped range for signed element types, but the end of the range is never compared with SignedNumType::max(): "
                            "`126..129` is accepted for [i8; 3] and its last element 128 encodes as -128", ctx.fn("check::constrain_type")["sp"]))
    return res


def rule_l12(ctx):
    """Encoding, decoding and type tests resolve `[T; N]` through GarbleProgram::const_sizes: every GarbleProgram must carry the
    const sizes the compilation computed (also for consts the program defines itself), else parse_output / literal_arg panic."""
    res = RuleResult("L12", "every GarbleProgram carries the const sizes computed by the compilation")
    n = 0
    for f in ctx.fns.values():
        if not f.get("mir") or not f["sp"][0].startswith("src/") or f.get("from_expansion"):
            continue
        body = ctx.body(f["id"])
        for b, blk in enumerate(body.blocks):
            if blk["cleanup"]:
                continue
            for st in blk["stmts"]:
                if st["k"] == "assign" and st["rv"]["k"] == "aggregate" and (st["rv"].get("adt") or "").endswith("GarbleProgram"):
                    n += 1
                    fields = st["rv"].get("fields") or []
                    if "const_sizes" not in fields:
                        raise AnchorMissing("L12: GarbleProgram has no const_sizes field")
                    op = st["rv"]["ops"][fields.index("const_sizes")]
                    roots = body.trace_operand(op) if op["k"] in ("copy", "move") else set()

                    def computed(r, p):
                        if r[0] != "call":
                            return False
                        if "compile_with_constants" in str(r[2]):
                            return True
                        if str(r[2]).endswith("Try>::branch"):     # `?` on the result
                            return all(rr[0] == "call" and "compile_with_constants" in str(rr[2]) for (rr, pp) in body.trace_operand(body.term(r[1])["args"][0]))
                        return False
                    if roots and all(computed(r, p) for (r, p) in roots):
                        res.ok({"function": f["id"], "line": st["sp"][1], "verdict": "const_sizes is the third result of compile_with_constants"})
                    else:
                        res.bad(Finding("L12", f["id"], "GarbleProgram built without the computed const sizes",
                                        "const_sizes does not come from compile_with_constants: for `const N: usize = 2usize; pub fn main(x: u8) -> [u8; N]` parse_output, "
                                        "literal_arg and parse_arg unwrap a missing size", st["sp"]))
    if n < 1:
        raise AnchorMissing("L12: no construction of GarbleProgram found")
    return res

def rule_l13(ctx):
    """A repeat literal `[x; n]` encodes n copies of x - none for n = 0.  The result must be a buffer of its own, sized or filled
    per repetition; starting from the element's own bits already contains one copy."""
    res = RuleResult("L13", "as_bits of a repeat literal builds a buffer of its own with one copy of the element per repetition")
    body = ctx.body(AS_BITS)
    succ = body.pruned_succ({(SELF1, ()): "ArrayRepeat"})
    region = set(body.reachable([0], succ=succ))
    if len(region) == len(body.reachable([0])):
        raise AnchorMissing("L13: cannot isolate the ArrayRepeat arm of as_bits")
    rets = [b for b in region for st in body.blocks[b]["stmts"] if st["k"] == "assign" and st["place"]["l"] == 0 and not st["place"]["p"]]
    if not rets:
        raise AnchorMissing("L13: the ArrayRepeat arm assigns no result")
    for b in rets:
        for st in body.blocks[b]["stmts"]:
            if st["k"] == "assign" and st["place"]["l"] == 0 and not st["place"]["p"] and st["rv"]["k"] == "use" and st["rv"]["op"]["k"] in ("copy", "move"):
                roots = body.trace(st["rv"]["op"]["place"], through={})
                direct = [r for (r, p) in roots if r[0] == "call" and str(r[2]) == AS_BITS]
                if direct:
                    res.bad(Finding("L13", AS_BITS, "repeat literal: the result starts as the element's own bits",
                                    "the buffer that is returned is the encoding of the element itself, extended for the further repetitions: `[7; 0]` encodes 8 bits instead of none "
                                    "(inside an enum payload the surplus bits become another value)", st["sp"]))
                else:
                    res.ok({"verdict": "the result is a buffer of its own (%s)" % sorted({mir.last_seg(str(r[2])) for (r, p) in roots if r[0] == "call"})})
    return res

