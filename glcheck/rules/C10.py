"""C10 - register circuit conversion (structural clauses).

R1  output wires are pinned after all uses were recorded
R2  operand registers are read before the destination register is chosen (which may free them)
R3  AND operations are counted in the AND arm only, and that count is the one returned
R4  registers are only created from the running counter, which is bumped on the same path; the counter is the register budget;
    inputs are loaded first, party by party, bit by bit, into registers 0..n
R5  every conversion entry point goes through the one allocator
R6  a register is reused / freed only when its wire was removed from the wire map
R1b every operand field of every gate kind of circuit::Wire is recorded in last_use_map with the index of the reading gate
R8  every xor / and / not wire of the SSA circuit is translated into one instruction on every path of the conversion loop
R7  find_out_reg removes an operand from wire_map only on the edge `last_used[operand] == gate_id`
"""
from .. import mir
from ..core import AnchorMissing, Finding, RuleResult

PROPERTY = "C10"
TECHNIQUE = "ordering (reachability within one loop iteration), who-may-write and operand-origin rules on the MIR of the register allocator"
LEVEL_TEXT = (
    "Equivalence of the register circuit with the SSA circuit for all circuits and inputs is value-level and NOT decided (safety of "
    "executing a validated register circuit is C16). Decided: (R1) in last_use_map no gate-use insertion can follow the insertion of "
    "the usize::MAX pin for output wires, so an output register is never reused; (R2) in each gate arm of convert_circuit the "
    "operand registers are looked up in wire_map before find_out_reg runs (find_out_reg removes dying operands from the map); "
    "(R3) and_ops is written only under Wire::And and is the value stored in the result; (R4) every Reg is built from next_reg (or "
    "taken from the maps / free list), next_reg is incremented on every path that builds one, max_reg_count is next_reg, and the "
    "input instructions are emitted first with party = index of the party and input = index of the bit; (R5) the three From impls "
    "and CircuitType::to_register all call RegisterAllocator::new and convert_circuit; (R6) a register is reused or put on the free "
    "list only when it comes out of wire_map.remove (its wire left the map), never from an index read; (R1b) every operand field "
    "of every Wire variant is inserted into last_use_map with the enumerate index of the same iteration; (R7) each wire_map.remove in "
    "find_out_reg is dominated by the true edge of `last_used[that operand] == gate_id`.")
LEVEL_NOTE = "Trusted: rustc MIR; HashMap / Vec behave as documented."
EXPLANATION = "Functions analysed: register_circuit::{last_use_map, RegisterAllocator::convert_circuit, find_out_reg, From impls}, CircuitType::to_register."
NOT_DECIDED = "bit-for-bit equivalence of the converted circuit; sufficiency of the register count (follows from R4 only together with the reuse logic, which is value-level)"
ASSUMPTIONS = []

SELF1 = ("arg", 1)
CONV = "register_circuit::RegisterAllocator::<'c>::convert_circuit"
FIND = "register_circuit::RegisterAllocator::<'c>::find_out_reg"


def rule_r1(ctx):
    res = RuleResult("R1", "output wires are pinned after all uses were recorded")
    body = ctx.body("register_circuit::last_use_map")
    ins = [(b, t) for b, t in body.calls() if mir.last_seg(mir.callee(t) or "") == "insert" and "HashMap" in (mir.callee(t) or "")]
    pins = [b for b, t in ins if t["args"][2]["k"] == "const" and t["args"][2].get("val") is not None and t["args"][2]["val"] >= 2**63]
    uses = [b for b, t in ins if b not in pins]
    if not pins:
        res.bad(Finding("R1", body.id, "outputs are not pinned", "no insertion of usize::MAX for output wires: an output register may be reused by a later instruction", body.fn["sp"]))
        return res
    if len(uses) < 2 and not res.findings:
        raise AnchorMissing("R1: last_use_map records only %d kinds of uses" % len(uses))
    bad = [u for p in pins for u in uses if body.path(p, [u]) is not None]
    if bad:
        res.bad(Finding("R1", body.id, "a use can be recorded after the pin", "a later gate that reads an output wire overwrites its usize::MAX pin: the output register is handed out again", body.term(bad[0])["sp"]))
    else:
        res.ok({"verdict": "pin insertions are not followed by any use insertion", "pins": len(pins), "use_insertions": len(uses)})
    # the pin keys are the output gates
    for p in pins:
        t = body.term(p)
        if any(r == SELF1 and pth and pth[0] == "output_gates" for (r, pth) in body.trace_operand(t["args"][1])):
            res.ok({"verdict": "pinned keys are circ.output_gates"})
        else:
            res.bad(Finding("R1", body.id, "pin not keyed by output gates", "the pinned wires are not the circuit's outputs", t["sp"]))
    return res


def rule_r1b(ctx):
    res = RuleResult("R1b", "every operand of every gate kind is recorded as a use at the gate's own index")
    body = ctx.body("register_circuit::last_use_map")
    ins = [(b, t) for b, t in body.calls() if mir.last_seg(mir.callee(t) or "") == "insert" and "HashMap" in (mir.callee(t) or "")]
    adt = ctx.adt("circuit::Wire")
    want = set()
    for v in adt["variants"]:
        if v["name"] == "Input":
            continue  # the payload of Input is the position of the input bit, not a wire that is read
        for i, f in enumerate(v["fields"]):
            if f["ty"] == "usize":
                want.add((v["name"], str(i)))
    if len(want) < 5 and not res.findings:
        raise AnchorMissing("R1b: circuit::Wire no longer has the five operand fields (Xor, And: 2, Not: 1): %s" % sorted(want))
    have = {}
    for b, t in ins:
        for (r, p) in body.trace_operand(t["args"][1]):
            if r[0] == "iter" and len(p) == 2 and p[0].startswith("as "):
                val_ok = all(rr[0] == "index" for (rr, pp) in body.trace_operand(t["args"][2])) and len(body.trace_operand(t["args"][2])) > 0
                have[(p[0][3:], p[1])] = (val_ok, t["sp"])
    for w in sorted(want):
        if w not in have:
            res.bad(Finding("R1b", body.id, "operand %s of %s gates is never recorded as a use" % (w[1], w[0]),
                            "the register of a wire read through this operand may be handed out again before the gate is executed", body.fn["sp"]))
        elif not have[w][0]:
            res.bad(Finding("R1b", body.id, "use of operand %s of %s gates recorded at a different index" % (w[1], w[0]),
                            "the last use must be the index of the reading gate (the enumerate counter of the same iteration)", have[w][1]))
        else:
            res.ok({"operand": "%s.%s" % w, "verdict": "recorded with the index of the reading gate"})
    return res


def _nonzero_edges(body, local):
    """CFG edges taken when the bool `local` is true."""
    out = set()
    for x in range(body.n):
        tt = body.term(x)
        if tt and tt["k"] == "switch" and tt["discr"]["k"] in ("copy", "move") and tt["discr"]["place"]["l"] == local and not tt["discr"]["place"]["p"]:
            zero_t = {tg for v, tg in tt["targets"] if v == 0}
            for s_ in body.succs(x):
                if s_ not in zero_t:
                    out.add((x, s_))
    return out


def _last_use_predicate(ctx, fid):
    """(index of the wire argument, index of the gate argument, True) if fid is a bool function that answers
    `self.last_used.get(&wire) == Some(&gate)` (or the inner `==` behind a Some test) and nothing else."""
    if not fid or not ctx.has_fn(fid) or ctx.fns[fid]["kind"] == "closure":
        return None
    hb = ctx.body(fid)
    if hb.locals[0]["ty"] != "bool":
        return None
    gets = [(b, t) for b, t in hb.calls() if mir.last_seg(mir.callee(t) or "") == "get" and any(p and p[-1] == "last_used" for (r, p) in hb.trace_operand(t["args"][0]))]
    if len(gets) != 1:
        return None
    gb, gt = gets[0]
    wj = {r[1] for (r, p) in hb.trace_operand(gt["args"][1]) if r[0] == "arg"}
    for cb_, ct in hb.calls():
        if ct["func"].get("declared") != "std::cmp::PartialEq::eq" or len(ct["args"]) != 2 or ct["dest"]["l"] != 0:
            continue
        sides = [hb.trace_operand(a) for a in ct["args"]]
        from_get = [any(r[:2] == ("call", gb) and not p for (r, p) in sd) for sd in sides]
        gk = [set(), set()]
        for i, sd in enumerate(sides):
            for (r, p) in sd:
                if r[0] == "agg" and not p:
                    rv = hb.blocks[r[1]]["stmts"][r[2]]["rv"]
                    if rv.get("variant") == "Some" and len(rv["ops"]) == 1:
                        gk[i] |= {r2[1] for (r2, p2) in hb.trace_operand(rv["ops"][0]) if r2[0] == "arg" and not p2}
        for i in (0, 1):
            if from_get[i] and len(gk[1 - i]) == 1 and len(wj) == 1:
                return (next(iter(wj)), next(iter(gk[1 - i])), True)
    return None


def rule_r7(ctx):
    """find_out_reg removes an operand from the wire map only on the edge where its last use is the current gate."""
    from .C02 import _dominated_by_edges
    res = RuleResult("R7", "an operand's register is released only when this gate is its last use")
    body = ctx.body(FIND)
    rem = [(b, t) for b, t in body.calls() if mir.last_seg(mir.callee(t) or "") == "remove" and any(p and p[-1] == "wire_map" for (r, p) in body.trace_operand(t["args"][0]))]
    if len(rem) < 2 and not res.findings:
        raise AnchorMissing("R7: find_out_reg no longer removes both operands from wire_map (found %d removals)" % len(rem))
    gets = [(b, t) for b, t in body.calls() if mir.last_seg(mir.callee(t) or "") == "get" and any(p and p[-1] == "last_used" for (r, p) in body.trace_operand(t["args"][0]))]
    for b, t in rem:
        key = {(r, tuple(p)) for (r, p) in body.trace_operand(t["args"][1])}
        ok = False
        for gb, blk in enumerate(body.blocks):
            for st in blk["stmts"]:
                if st["k"] == "assign" and st["rv"]["k"] == "binop" and st["rv"]["op"] in ("Eq", "Ne"):
                    sides = [body.trace_operand(st["rv"]["l"]), body.trace_operand(st["rv"]["r"])]
                    is_gate = [any(r == ("arg", 2) and not p for (r, p) in sd) for sd in sides]
                    from_get = [False, False]
                    for i, sd in enumerate(sides):
                        for (r, p) in sd:
                            if r[0] == "call" and any(r[1] == g for g, _ in gets):
                                gt = body.term(r[1])
                                gkey = {(r2, tuple(p2)) for (r2, p2) in body.trace_operand(gt["args"][1])}
                                if gkey == key:
                                    from_get[i] = True
                    if (is_gate[0] and from_get[1]) or (is_gate[1] and from_get[0]):
                        edges = mir.equality_edges(body, st)
                        if edges and _dominated_by_edges(body, edges, b):
                            ok = True
        # the same guard written on the Options: `self.last_used.get(&b) == Some(&gate_id)`
        for cb_, ct in body.calls():
            dec = ct["func"].get("declared")
            if dec not in ("std::cmp::PartialEq::eq", "std::cmp::PartialEq::ne") or len(ct["args"]) != 2 or ct["dest"]["p"]:
                continue
            sides = [body.trace_operand(a) for a in ct["args"]]
            from_get = [any(r[0] == "call" and any(r[1] == g for g, _ in gets) and not p and
                            {(r2, tuple(p2)) for (r2, p2) in body.trace_operand(body.term(r[1])["args"][1])} == key for (r, p) in sd) for sd in sides]
            some_gate = [False, False]
            for i, sd in enumerate(sides):
                for (r, p) in sd:
                    if r[0] == "agg" and not p:
                        rv = body.blocks[r[1]]["stmts"][r[2]]["rv"]
                        if rv.get("variant") == "Some" and len(rv["ops"]) == 1 and any(r2 == ("arg", 2) and not p2 for (r2, p2) in body.trace_operand(rv["ops"][0])):
                            some_gate[i] = True
            if (from_get[0] and some_gate[1]) or (from_get[1] and some_gate[0]):
                fake = {"rv": {"op": "Eq" if dec.endswith("::eq") else "Ne"}, "place": {"l": ct["dest"]["l"]}}
                edges = mir.equality_edges(body, fake)
                if edges and _dominated_by_edges(body, edges, b):
                    ok = True
        # the guard as a predicate of its own: `fn is_last_use(&self, wire, gate_id) -> bool { self.last_used.get(&wire) == Some(&gate_id) }`
        for cb_, ct in body.calls():
            h = mir.callee(ct) or ""
            summ = _last_use_predicate(ctx, h)
            if not summ or ct["dest"]["p"]:
                continue
            wj, gk, is_eq = summ
            if wj - 1 >= len(ct["args"]) or gk - 1 >= len(ct["args"]):
                continue
            wkey = {(r2, tuple(p2)) for (r2, p2) in body.trace_operand(ct["args"][wj - 1])}
            gate = any(r2 == ("arg", 2) and not p2 for (r2, p2) in body.trace_operand(ct["args"][gk - 1]))
            if wkey == key and gate:
                fake = {"rv": {"op": "Ne"}, "place": {"l": ct["dest"]["l"]}}      # `result != false`: the edges on which the predicate holds
                edges = {(x, s_) for (x, s_) in _nonzero_edges(body, ct["dest"]["l"])} if is_eq else mir.equality_edges(body, {"rv": {"op": "Eq"}, "place": {"l": ct["dest"]["l"]}})
                if edges and _dominated_by_edges(body, edges, b):
                    ok = True
        if ok:
            res.ok({"site": "wire_map.remove at line %d" % t["sp"][1], "verdict": "only on the edge last_used[operand] == gate_id"})
        else:
            res.bad(Finding("R7", body.id, "operand released although a later gate still reads it",
                            "wire_map.remove of an operand is not guarded by `last_used[that operand] == gate_id`: its register is reused while the wire is still live", t["sp"]))
    return res


def rule_r8(ctx):
    """Every gate of the SSA circuit becomes one instruction (and the AND count counts every AND gate)."""
    res = RuleResult("R8", "every xor / and / not wire is translated: no iteration of the conversion loop skips the instruction")
    body = ctx.body(CONV)
    sw, info = _wire_ap(body)
    loops = [lp for lp in body.loops() if sw in lp["body"]]
    if not loops:
        raise AnchorMissing("R8: the conversion does not switch over Wire inside a loop")
    lp = min(loops, key=lambda l: len(l["body"]))
    pushes = {b for b in lp["body"] if body.term(b) and body.term(b)["k"] == "call" and mir.last_seg(mir.callee(body.term(b)) or "") == "push"
              and any(p and p[-1] == "insts" for (r, p) in body.trace_operand(body.term(b)["args"][0]))}
    maps = {b for b in lp["body"] if body.term(b) and body.term(b)["k"] == "call" and mir.last_seg(mir.callee(body.term(b)) or "") == "insert"
            and any(p and p[-1] == "wire_map" for (r, p) in body.trace_operand(body.term(b)["args"][0]))}
    if not pushes or not maps:
        raise AnchorMissing("R8: the conversion loop does not push instructions / record the wire's register")
    latches = [b for b in lp["body"] if lp["header"] in body.succs(b)]
    for v in ("Xor", "And", "Not"):
        succ = body.pruned_succ({info[0]: v})

        def inloop(b, succ=succ):
            return [x for x in succ(b) if x in lp["body"] and not body.blocks[x]["cleanup"]]
        w1 = body.path(lp["header"], latches, blocked=pushes, succ=inloop)
        w2 = body.path(lp["header"], latches, blocked=maps, succ=inloop)
        if w1 or w2:
            res.bad(Finding("R8", CONV, "%s wires can be skipped by the conversion" % v,
                            "an iteration for a %s wire can end without pushing an instruction / recording its register (blocks %s): the register circuit has fewer operations than the SSA circuit "
                            "(and a later reader of the wire has no register to read)" % (v, (w1 or w2)[:10]), body.term(sw)["sp"]))
        else:
            res.ok({"wire": v, "verdict": "every iteration pushes one instruction and records the wire's register"})
    return res


def _wire_ap(body):
    for b in range(body.n):
        info = body.switch_info(b)
        if info and info[0] and info[2] == "circuit::Wire":
            return b, info
    raise AnchorMissing("convert_circuit does not switch over Wire")


def rule_r2_r3(ctx):
    r2 = RuleResult("R2", "operand registers are read before the destination is chosen")
    r3 = RuleResult("R3", "AND operations are counted in the AND arm only")
    body = ctx.body(CONV)
    sw, info = _wire_ap(body)
    loops = [lp for lp in body.loops() if sw in lp["body"]]
    hdr = min(loops, key=lambda l: len(l["body"]))["header"]
    for variant, n_ops in (("Xor", 2), ("And", 2), ("Not", 1)):
        succ = body.pruned_succ({info[0]: variant})
        t = body.term(sw)
        tgt = [x for v, x in t["targets"] if info[1].get(v) == variant] or [t["otherwise"]]
        arm = body.reachable(tgt, blocked={hdr}, succ=succ)
        finds = [b for b in arm if body.term(b)["k"] == "call" and mir.callee(body.term(b)) == FIND]
        reads = [b for b in arm if body.term(b)["k"] == "call" and body.term(b)["func"].get("declared") == "std::ops::Index::index" and "HashMap" in body.term(b)["args"][0]["place"]["ty"]]
        if len(finds) != 1:
            r2.bad(Finding("R2", CONV, "Wire::%s arm without find_out_reg" % variant, "the destination register is not chosen by find_out_reg", body.term(tgt[0])["sp"]))
            continue
        if len(reads) < n_ops:
            r2.bad(Finding("R2", CONV, "Wire::%s reads %d operand registers" % (variant, len(reads)), "expected %d lookups in wire_map" % n_ops, body.term(finds[0])["sp"]))
            continue
        late = [rd for rd in reads if body.path(finds[0], [rd], blocked={hdr}) is not None]
        if late:
            r2.bad(Finding("R2", CONV, "Wire::%s operand read after find_out_reg" % variant,
                           "find_out_reg removes a dying operand from wire_map: reading the operand's register afterwards panics or yields another wire's register", body.term(late[0])["sp"]))
        else:
            r2.ok({"arm": "Wire::" + variant, "operand_lookups": len(reads), "verdict": "all before find_out_reg"})
        # the instruction's operands are those lookups, the destination the find_out_reg result
        # and the new mapping gate_id -> out is inserted afterwards
    ins = [b for b, t in body.calls() if mir.last_seg(mir.callee(t) or "") == "insert" and "HashMap" in (mir.callee(t) or "") and b in min(loops, key=lambda l: len(l["body"]))["body"]]
    if ins:
        r2.ok({"verdict": "wire_map updated with the new wire after the instruction is built", "sites": len(ins)})
    else:
        r2.bad(Finding("R2", CONV, "new wire not recorded", "wire_map is not updated with the register of the new wire", body.fn["sp"]))
    # R3
    writes = []
    for b, blk in enumerate(body.blocks):
        if blk["cleanup"]:
            continue
        for st in blk["stmts"]:
            if st["k"] == "assign" and mir.proj_names(st["place"]["p"])[-1:] == ("and_ops",):
                writes.append((b, st))
        t = blk["term"]
        if t and t["k"] == "call" and t["func"].get("declared", "").startswith("std::ops::AddAssign") and any(p and p[-1] == "and_ops" for (r, p) in body.trace_operand(t["args"][0])):
            writes.append((b, t))
    succ = body.pruned_succ({info[0]: "And"})
    t = body.term(sw)
    tgt = [x for v, x in t["targets"] if info[1].get(v) == "And"] or [t["otherwise"]]
    and_arm = body.reachable(tgt, blocked={hdr}, succ=succ)
    others = set()
    for variant in ("Xor", "Not", "Input"):
        tg = [x for v, x in t["targets"] if info[1].get(v) == variant]
        if tg:
            others |= body.reachable(tg, blocked={hdr} | set(tgt), succ=body.pruned_succ({info[0]: variant}))
    if not writes:
        r3.bad(Finding("R3", CONV, "ANDs are never counted", "and_ops is never incremented", body.fn["sp"]))
    for b, w in writes:
        if b in and_arm and b not in (others - and_arm):
            r3.ok({"write": "and_ops += 1", "arm": "Wire::And"})
        else:
            r3.bad(Finding("R3", CONV, "and_ops written outside the AND arm", "the AND count is changed where no AND instruction is emitted", w["sp"]))
    # must-pass: every path through the And arm increments
    if writes:
        wb = {b for b, _ in writes}
        if body.path(tgt[0], [hdr], blocked=wb, succ=succ):
            r3.bad(Finding("R3", CONV, "AND arm can skip the count", "a path emits an AND instruction without counting it", body.term(tgt[0])["sp"]))
        else:
            r3.ok({"verdict": "every AND instruction is counted"})
    # the returned count
    for blk in body.blocks:
        for st in blk["stmts"]:
            if st["k"] == "assign" and st["rv"]["k"] == "aggregate" and st["rv"].get("adt") == "register_circuit::Circuit":
                i = st["rv"]["fields"].index("and_ops")
                tr = body.trace_operand(st["rv"]["ops"][i])
                if any(p and p[-1] == "and_ops" for (r, p) in tr):
                    r3.ok({"verdict": "Circuit.and_ops = self.and_ops"})
                else:
                    r3.bad(Finding("R3", CONV, "returned AND count is something else", "Circuit.and_ops is not the counted value", st["sp"]))
    return [r2, r3]


def rule_r4(ctx):
    res = RuleResult("R4", "registers come from the running counter; the counter is the budget; inputs are loaded first in order")
    for fid in (CONV, FIND):
        body = ctx.body(fid)
        for b, blk in enumerate(body.blocks):
            if blk["cleanup"]:
                continue
            for st in blk["stmts"]:
                if st["k"] == "assign" and st["rv"]["k"] == "aggregate" and st["rv"].get("adt") == "register_circuit::Reg":
                    srcs = body.deep_sources(st["rv"]["ops"][0], 2)
                    if any(r == SELF1 and p and p[-1] == "next_reg" for (r, p) in srcs):
                        # the counter is bumped on every path through this block
                        incs = set()
                        for x, bl in enumerate(body.blocks):
                            for s2 in bl["stmts"]:
                                if s2["k"] == "assign" and mir.proj_names(s2["place"]["p"])[-1:] == ("next_reg",):
                                    incs.add(x)
                        lp = [l for l in body.loops() if b in l["body"]]
                        if lp:
                            hdr = min(lp, key=lambda l: len(l["body"]))["header"]
                            around = body.path(b, [hdr], blocked=incs - {b}) is None or b in incs or any(body.dominates(i, b) and body.path(i, [b], blocked={hdr}) is not None for i in incs)
                        else:
                            around = b in incs or any(body.dominates(i, b) for i in incs) or body.must_pass(incs - {b}, entry=b) is None
                        if around:
                            res.ok({"function": fid, "site": "Reg(next_reg)", "verdict": "counter bumped on the same path"})
                        else:
                            res.bad(Finding("R4", fid, "register created without bumping the counter", "two wires can get the same fresh register", st["sp"]))
                    else:
                        res.bad(Finding("R4", fid, "register not taken from the counter", "a Reg is built from %s" % sorted(str(r) for r, p in srcs)[:3], st["sp"]))
    body = ctx.body(CONV)
    for blk in body.blocks:
        for st in blk["stmts"]:
            if st["k"] == "assign" and st["rv"]["k"] == "aggregate" and st["rv"].get("adt") == "register_circuit::Circuit":
                fields = st["rv"]["fields"]
                tr = body.deep_sources(st["rv"]["ops"][fields.index("max_reg_count")], 2)
                if any(p and p[-1] == "next_reg" for (r, p) in tr):
                    res.ok({"verdict": "max_reg_count = next_reg"})
                else:
                    res.bad(Finding("R4", CONV, "register budget is not the counter", "max_reg_count does not come from next_reg", st["sp"]))
                tr = body.deep_sources(st["rv"]["ops"][fields.index("input_regs")], 2)
                if any(r == SELF1 and p and p[-1] == "input_gates" for (r, p) in tr):
                    res.ok({"verdict": "input_regs = circ.input_gates"})
                else:
                    res.bad(Finding("R4", CONV, "declared inputs differ", "input_regs is not the SSA circuit's input_gates", st["sp"]))
    # input instructions: party = enumerate index over input_gates, input = range index
    inp = None
    for b, blk in enumerate(body.blocks):
        for st in blk["stmts"]:
            if st["k"] == "assign" and st["rv"]["k"] == "aggregate" and st["rv"].get("adt") == "register_circuit::Input":
                inp = (b, st)
    if inp is None:
        res.bad(Finding("R4", CONV, "no input instructions", "the conversion never emits Op::Input", body.fn["sp"]))
    else:
        b, st = inp
        fields = st["rv"]["fields"]
        pt = body.deep_sources(st["rv"]["ops"][fields.index("party")], 2)
        it = body.deep_sources(st["rv"]["ops"][fields.index("input")], 2)
        if any(r[0] == "index" for (r, p) in pt) and any(r[0] == "range" for (r, p) in it):
            res.ok({"verdict": "Input{party: index of the party, input: index of the bit}"})
        else:
            res.bad(Finding("R4", CONV, "input instruction fields", "party / input are not the running indices (party from %s, input from %s)" % (sorted(str(r) for r, p in pt)[:2], sorted(str(r) for r, p in it)[:2]), st["sp"]))
        # emitted before any gate instruction: the input loop precedes the wires loop
        sw, info = _wire_ap(body)
        if body.path(sw, [b]) is None:
            res.ok({"verdict": "input instructions are emitted before the gate loop"})
        else:
            res.bad(Finding("R4", CONV, "inputs not first", "an input instruction can be emitted after a gate instruction", st["sp"]))
    return res


def rule_r6(ctx):
    res = RuleResult("R6", "a register is reused or freed only after its wire left the map")
    body = ctx.body(FIND)

    def origins(op):
        out = set()
        for (r, p) in body.deep_sources(op, 3, through={}):
            if r[0] == "call":
                t = body.term(r[1])
                seg = mir.last_seg(mir.callee(t) or "")
                recv = ""
                if t["args"] and t["args"][0]["k"] in ("copy", "move"):
                    recv = ".".join(pp[-1] for (rr, pp) in body.trace_operand(t["args"][0]) if pp)
                out.add((seg, recv))
                # the value may be produced inside a closure handed to the call (`dies(&a).then(|| self.wire_map[&a])`)
                for a in t["args"][1:]:
                    if a["k"] not in ("copy", "move"):
                        continue
                    for (r2, p2) in body.trace(a["place"], through={}):
                        cid = body.blocks[r2[1]]["stmts"][r2[2]]["rv"].get("closure") if r2[0] == "agg" else None
                        if cid and ctx.has_fn(cid):
                            cb = ctx.body(cid)
                            for _, ct in cb.calls():
                                cseg = mir.last_seg(mir.callee(ct) or "")
                                if cseg in ("index", "get", "get_mut") and ct["args"]:
                                    crecv = ".".join(p3[-1] for (f3, r3, p3) in ctx.lifted_trace(cb, ct["args"][0]) if p3)
                                    out.add((cseg, crecv))
            elif r[0] == "agg":
                rv = body.blocks[r[1]]["stmts"][r[2]]["rv"]
                out.add(("agg", rv.get("adt") or rv.get("akind")))
        return out
    sites = []
    for b, t in body.calls():
        if mir.last_seg(mir.callee(t) or "") == "push" and any(p and p[-1] == "free_regs" for (r, p) in body.trace_operand(t["args"][0])):
            sites.append(("free_regs.push", t["args"][1], t["sp"]))
    for blk in body.blocks:
        for st in blk["stmts"]:
            if st["k"] == "assign" and st["place"]["l"] == 0 and not st["place"]["p"] and st["rv"]["k"] == "use":
                sites.append(("returned register", st["rv"]["op"], st["sp"]))
    for b, t in body.calls():
        # `reuse_reg.or_else(..).unwrap_or_else(..)` written straight into the return place
        if t["dest"]["l"] == 0 and not t["dest"]["p"] and not body.blocks[b]["cleanup"] and t["args"]:
            sites.append(("returned register", t["args"][0], t["sp"]))
    if (len(sites) < 2) and not res.findings:
        raise AnchorMissing("R6: find_out_reg has no reuse / free sites")
    for what, op, sp in sites:
        o = origins(op)
        idx = [x for x in o if x[0] in ("index", "get", "get_mut") and "wire_map" in x[1]]
        if idx:
            res.bad(Finding("R6", FIND, "%s taken from wire_map without removing the wire" % what,
                            "the register stays mapped to its (dead) wire while it is handed out again: with a repeated operand the same register is both reused and put on the free list", sp))
        else:
            res.ok({"site": what, "origins": sorted("%s(%s)" % x for x in o)})
    return res


def rule_r5(ctx):
    res = RuleResult("R5", "every conversion entry point goes through the one allocator")
    n = 0
    for f in ctx.facts["fns"]:
        if "mir" not in f:
            continue
        is_from = f.get("impl_trait") == "std::convert::From" and f.get("impl_self") == "register_circuit::Circuit" and mir.last_seg(f["id"]) == "from"
        is_tr = f["id"] == "circuit_type::CircuitType::to_register"
        if not (is_from or is_tr):
            continue
        n += 1
        body = ctx.body(f["id"])
        reach = ctx.cg.reachable_from([f["id"]])
        if CONV in reach and any(mir.last_seg(x) == "new" and "RegisterAllocator" in x for x in reach):
            res.ok({"entry": f["id"], "verdict": "RegisterAllocator::new + convert_circuit"})
        else:
            res.bad(Finding("R5", f["id"], "conversion bypasses the allocator", "this entry point does not reach RegisterAllocator::convert_circuit", f["sp"]))
    if (n < 4) and not res.findings:
        raise AnchorMissing("R5: expected three From impls and to_register, found %d" % n)
    return res


def run(ctx):
    out = []
    for r in ctx.run_rules([rule_r1, rule_r1b, rule_r2_r3, rule_r4, rule_r5, rule_r6, rule_r7, rule_r8]):
        out.extend(r if isinstance(r, list) else [r])
    return out
