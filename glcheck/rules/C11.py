"""C11 - Bristol import: importing any text file returns a circuit or an error and never panics.

B1  no trapping arithmetic on numbers read from the file unless a dominating guard range-checked them
B2  no unwrap / expect / panic macro in the importer
B3  index sites of the importer are guarded (constant index vs. length test, variable index vs. range test)
B5  tables sized by header numbers are allocated only after the declared wire count was compared with the length of the file
B6  assigned-table: a gate reads only assigned wires, writes an unassigned one, and all declared outputs are assigned
B4  every imported gate writes its output wire into the translation table the later gates read, and takes a fresh wire number
    (the one structural clause of "import reproduces the circuit" that is visible in the shape of the loop)
B7  exporter: the wire number given to a de-aliased repeated output advances with every helper gate appended
"""
from .. import mir
from ..core import AnchorMissing, Finding, RuleResult

PROPERTY = "C11"
TECHNIQUE = "taint analysis from str::parse results to trapping arithmetic / index positions on MIR, with dominance-checked guard idioms"
LEVEL_TEXT = (
    "Decides the clause 'importing any text file returns a circuit or an error and never panics' for the panic sources "
    "that are visible in the code: every overflow / division Assert of bristol_to_garble, parse_line and their helpers "
    "whose operand derives from a number parsed from the file must be discharged by a dominating guard on the same "
    "values (comparison, checked_add/sub, or a counter whose start value was range-checked); Iterator::sum over file "
    "numbers (traps in the debug profile) is a violation; the importer contains no unwrap/expect/panic!; constant and "
    "variable index sites must be dominated by a length / range test, element indices by a find/any/all test over the "
    "vector. Index expressions the idioms cannot classify (computed differences, ranges with a parsed bound) and the "
    "two allocations sized by header numbers must follow a rejecting comparison of the declared wire count with the number of lines (B5); a table of assigned wires is consulted for every gate and for the outputs (B6). (B4) On every path of the gate loop that "
    "pushes a gate, the gate's output wire is written into the table from which later gates translate their operands, and the wire "
    "counter is incremented. Not decided: round-trip "
    "equivalence and well-formedness of the exported text (computed wire numbers for all circuits: value level)."
    " (B6) a table of assigned wires is consulted for every gate (read wires assigned, written wire not yet) and for the declared outputs."
    " (B7) In the exporter, the number a repeated output wire is renamed to derives from a counter assigned on every loop path that appends helper gates (by as much as gates are appended) or from the length of the circuit they are appended to.")
LEVEL_NOTE = ("Trusted: rustc MIR in the debug profile (overflow checks are Assert terminators); a guard is accepted when it compares "
              "the same parsed values - that the compared bound is the right one is read from the code, not proved.")
EXPLANATION = ("Functions analysed: Circuit::bristol_to_garble, convert::parse_line, convert::checked_sum and their closures. Taint "
               "sources: results of str::parse::<usize>, parse_line and checked_sum. For every Assert / sum / index site the "
               "operand origins are computed with deep_sources (through Try::branch, collect, indexing).")
NOT_DECIDED = ("export/import round trip, declared counts and wire assignment order of the exported text"
               "; index expressions outside the idioms (listed per run)")
ASSUMPTIONS = []

TAINT_SEGS = {"parse", "parse_line", "checked_sum"}
CMP = {"Lt", "Le", "Gt", "Ge", "Eq", "Ne"}
CHECKED = {"checked_add", "checked_sub", "checked_mul"}


def importer_bodies(ctx):
    roots = [f["id"] for f in ctx.facts["fns"] if mir.last_seg(f["id"]) == "bristol_to_garble"]
    if len(roots) != 1:
        raise AnchorMissing("expected exactly one bristol_to_garble, found %r" % roots)
    ids = set(roots)
    for extra in ("convert::parse_line", "convert::checked_sum"):
        if extra in ctx.fns:
            ids.add(extra)
    # local helper functions of convert.rs called from the importer
    work = list(ids)
    while work:
        x = work.pop()
        for c in ctx.cg.closures_of.get(x, ()):
            if c not in ids:
                ids.add(c)
                work.append(c)
        for y in ctx.cg.edges.get(x, ()):
            if y in ctx.fns and ctx.fns[y]["sp"][0].endswith("convert.rs") and "mir" in ctx.fns[y] and y not in ids and not ctx.fns[y].get("from_expansion"):
                ids.add(y)
                work.append(y)
    return roots[0], sorted(ids)


def tainted_sources(body, op, depth=6):
    out = set()
    for (r, p) in body.deep_sources(op, depth):
        if r[0] == "call" and mir.last_seg(r[2] or "") in TAINT_SEGS:
            out.add((r[1], mir.last_seg(r[2])))
        if r[0] == "arg":
            out.add(("arg", r[1]))
    return out


def src_key(body, op):
    """Comparable description of where an operand comes from (set of (root, path))."""
    if op["k"] not in ("copy", "move"):
        return frozenset([("const", op.get("val"))])
    return frozenset((r, tuple(p)) for (r, p) in body.trace(op["place"]))


def guards(body):
    """(block, set of operand source keys) for comparisons and checked_* calls."""
    out = []
    for b, blk in enumerate(body.blocks):
        if blk["cleanup"]:
            continue
        for st in blk["stmts"]:
            if st["k"] == "assign" and st["rv"]["k"] == "binop" and st["rv"]["op"] in CMP:
                out.append((b, [src_key(body, st["rv"]["l"]), src_key(body, st["rv"]["r"])], "compare", st))
        t = blk["term"]
        if t and t["k"] == "call":
            seg = mir.last_seg(mir.callee(t) or "")
            if seg in CHECKED:
                out.append((t["target"] if t.get("target") is not None else b, [src_key(body, a) for a in t["args"]], seg, t))
            if t["func"].get("declared") in ("std::cmp::PartialEq::eq", "std::cmp::PartialEq::ne", "std::cmp::PartialOrd::lt",
                                             "std::cmp::PartialOrd::le", "std::cmp::PartialOrd::gt", "std::cmp::PartialOrd::ge"):
                keys = []
                for a in t["args"]:
                    ds = frozenset((r, tuple(p)) for (r, p) in body.deep_sources(a, 4))
                    keys.append(ds)
                out.append((t["target"] if t.get("target") is not None else b, keys, "compare-call", t))
    return out


def rejecting(body, g):
    """Is the comparison statement g tested by a switch one of whose edges returns Err unconditionally?"""
    from .C16 import leads_to_err
    dst = g["place"]["l"]
    for x in range(body.n):
        t = body.term(x)
        if t and t["k"] == "switch" and t["discr"]["k"] in ("copy", "move") and t["discr"]["place"]["l"] == dst:
            if any(leads_to_err(body, s) for s in body.succs(x)):
                return True
    return False


def overlaps(k1, k2):
    return bool(k1 & k2)


def rule_b1(ctx):
    res = RuleResult("B1", "no trapping arithmetic on numbers read from the file without a dominating guard on the same values")
    root, ids = importer_bodies(ctx)
    n_asserts = 0
    for fid in ids:
        body = ctx.body(fid)
        gs = guards(body)
        traps = mir.trapping_arith_sites(body)
        for b in range(body.n):
            t = body.term(b)
            if not t or body.blocks[b]["cleanup"]:
                continue
            if t["k"] == "call" and mir.last_seg(t["func"].get("declared") or "") in ("sum", "product") and (t["func"].get("declared") or "").startswith("std::iter::Iterator::"):
                ts = tainted_sources(body, t["args"][0])
                if ts:
                    res.bad(Finding("B1", fid, "Iterator::%s over file numbers" % mir.last_seg(t["func"]["declared"]),
                                    "numbers read from the file are summed with the trapping `+` (panics on overflow in debug builds)", t["sp"]))
                continue
            trap = [x for x in traps if x[0] == b]
            if not trap:
                continue
            n_asserts += 1
            t = dict(t, kind=trap[0][1].split(" on ")[0], ops=trap[0][2])
            ops = t["ops"]
            taint = set()
            for o in ops:
                taint |= tainted_sources(body, o)
            site = "%s" % t["kind"]
            if not taint:
                res.ok({"function": fid, "site": site, "at": mir.span_str(t["sp"]), "verdict": "operands do not derive from the file"})
                continue
            keys = [src_key(body, o) for o in ops if o["k"] in ("copy", "move")]
            deep_keys = [frozenset((r, tuple(p)) for (r, p) in body.deep_sources(o, 4)) for o in ops if o["k"] in ("copy", "move")]
            ok = None
            for (gb, gkeys, kind, _g) in gs:
                if not body.dominates(gb, b):
                    continue
                # every non-constant operand of the trapping operation takes part in the guard
                if all(any(overlaps(k, gk) or overlaps(dk, gk) for gk in gkeys) for k, dk in zip(keys, deep_keys)):
                    ok = "%s in bb%d" % (kind, gb)
                    break
            if ok is None and t["kind"] in ("Overflow(Add)",) and any(o["k"] == "const" and o.get("val") == 1 for o in ops):
                # counter idiom: x += 1 where the start value of x was range-checked by a dominating comparison
                var = [o for o in ops if o["k"] in ("copy", "move")]
                if var:
                    start = set()
                    for (r, p) in body.deep_sources(var[0], 6):
                        if r[0] == "call" and mir.last_seg(r[2] or "") in TAINT_SEGS:
                            start.add((r, tuple(p)))
                    for (gb, gkeys, kind, _g) in gs:
                        if body.dominates(gb, b) and kind == "compare":
                            gdeep = set()
                            for side in ("l", "r"):
                                gdeep |= {(r, tuple(p)) for (r, p) in body.deep_sources(_g["rv"][side], 6)}
                            if start and start <= gdeep | start and (start & gdeep):
                                ok = "counter whose start value is range-checked in bb%d" % gb
                                break
            if ok:
                res.ok({"function": fid, "site": site, "at": mir.span_str(t["sp"]), "verdict": "guarded by " + ok})
            else:
                res.bad(Finding("B1", fid, "%s on file numbers" % site,
                                "%s on a value parsed from the file is not dominated by a guard on the same values" % t["kind"], t["sp"]))
    res.note("overflow/division Asserts in the importer: %d" % n_asserts)
    return res


def rule_b2(ctx):
    res = RuleResult("B2", "no unwrap / expect / panic macro in the importer")
    root, ids = importer_bodies(ctx)
    n = 0
    for fid in ids:
        body = ctx.body(fid)
        for b, t in body.calls():
            if body.blocks[b]["cleanup"]:
                continue
            n += 1
            cal = mir.callee(t) or ""
            seg = mir.last_seg(cal)
            macros = set(t["sp"][5])
            if seg in ("unwrap", "expect", "unwrap_err", "expect_err") and cal.startswith(("std::option::Option", "std::result::Result")):
                res.bad(Finding("B2", fid, "%s" % seg, "%s in the importer: a malformed file panics instead of returning an error" % cal, t["sp"]))
            elif cal.startswith(("core::panicking::", "std::rt::begin_panic", "core::panicking")) or (macros & {"panic", "unreachable", "assert", "assert_eq", "assert_ne", "todo", "unimplemented"}):
                res.bad(Finding("B2", fid, "panic macro", "explicit panic (%s) in the importer" % (sorted(macros) or cal), t["sp"]))
    res.obligations += 1
    if not res.findings:
        res.discharged += 1
        res.samples.append({"functions": ids, "calls_scanned": n, "verdict": "no unwrap/expect/panic"})
    return res


def _difference_index(body, gs, b, t, helpers=None):
    """Idiom  v = vec![_; L]; first = W.checked_sub(L)?; if a >= W { Err }; if a >= first { v[a - first] }:
    then a - first < W - (W - L) = L.  Returns None when the site does not have this shape at all, else (ok, text)."""
    ix = t["args"][1]
    sub = None
    for (r, p) in body.trace_operand(ix, through={}):
        if r[0] == "rv" and r[1] == "binop":
            rv = body.blocks[r[2]]["stmts"][r[3]]["rv"]
            if rv["op"].startswith("Sub"):
                sub = rv
    if sub is None:
        return None
    a, first = sub["l"], sub["r"]
    # the vector and its length L
    L = None
    for (r, p) in body.trace_operand(t["args"][0]):
        if r[0] == "call" and mir.last_seg(r[2] or "") == "from_elem":
            L = body.term(r[1])["args"][1]
        elif r[0] == "call" and helpers and r[2] in helpers:
            # a helper that allocates as many entries as its parameter says (see B5)
            L = body.term(r[1])["args"][helpers[r[2]][0] - 1]
    if L is None:
        return None
    Lk = src_key(body, L)
    # first = checked_sub(W, L) (through `?` / let-else)
    W = None
    for (r, p) in body.trace_operand(first):
        if r[0] == "call" and mir.last_seg(r[2] or "") == "checked_sub":
            ct = body.term(r[1])
            if overlaps(src_key(body, ct["args"][1]), Lk):
                W = ct["args"][0]
    if W is None:
        return (False, "the subtracted offset is not `W.checked_sub(L)` for the length L the vector was created with: nothing relates the difference to the vector's length")
    Wk = src_key(body, W)
    ak = src_key(body, a)
    # a rejecting comparison of a with W dominates the site
    for (gb, gkeys, kind, g) in gs:
        if kind == "compare" and body.dominates(gb, b) and rejecting(body, g) and len(gkeys) == 2:
            if (overlaps(gkeys[0], ak) and overlaps(gkeys[1], Wk)) or (overlaps(gkeys[1], ak) and overlaps(gkeys[0], Wk)):
                return (True, "a < W tested in bb%d, offset = W - L, vector has L elements: a - offset < L" % gb)
    return (False, "no rejecting comparison of the minuend with W (the value the offset was derived from) dominates the index")


SEARCHES = ("std::iter::Iterator::find", "std::iter::Iterator::any", "std::iter::Iterator::all", "std::iter::Iterator::position")


def _elem_guards(body):
    """(block after the test, sources of the tested vector): vectors whose elements were tested with find/any/all."""
    out = []
    for b, t in body.calls():
        if (t["func"].get("declared") or "") in SEARCHES:
            srcs = frozenset((r, tuple(p)) for (r, p) in body.deep_sources(t["args"][0], 3))
            out.append((t["target"] if t.get("target") is not None else b, srcs))
    return out


def _item_tested_in_parent(ctx, fid):
    """For the closure fid handed to an iterator adaptor: the guard of its parent that tested every element of the collection the
    closure's item ranges over, before the closure was built (`ws.iter().find(|&&w| !assigned[w])` after `ws.iter().any(|&w| w >= n)`)."""
    site = ctx.closure_item_sources(fid)
    if not site or () not in site[1]:
        return None
    pb, m = site
    rv = ctx.closure_site(fid)[1]
    at = [b for b, blk in enumerate(pb.blocks) for st in blk["stmts"] if st["k"] == "assign" and st["rv"] is rv]
    coll = frozenset((r, tuple(p)) for (r, p) in pb.deep_sources(m[()], 3))
    for g in _elem_guards(pb):
        if at and pb.dominates(g[0], at[0]) and g[0] != at[0] and (coll & g[1]):
            return g
    return None


def rule_b3(ctx):
    res = RuleResult("B3", "index sites of the importer are dominated by a length / range test")
    root, ids = importer_bodies(ctx)
    undecided = []
    for fid in ids:
        body = ctx.body(fid)
        gs = guards(body)
        len_guards = []  # (block, vec source key, const)
        for (gb, gkeys, kind, g) in gs:
            if kind != "compare":
                continue
            for side, other in (("l", "r"), ("r", "l")):
                o = g["rv"][side]
                c = g["rv"][other]
                if c["k"] == "const" and o["k"] in ("copy", "move"):
                    for (r, p) in body.trace(o["place"], through={}):
                        if r[0] == "call" and mir.last_seg(r[2] or "") == "len":
                            lt = body.term(r[1])
                            len_guards.append((gb, src_key(body, lt["args"][0]), c.get("val"), g["rv"]["op"]))
        elem_guards = _elem_guards(body)
        for b, t in body.calls():
            if t["func"].get("declared") not in ("std::ops::Index::index", "std::ops::IndexMut::index_mut") or body.blocks[b]["cleanup"]:
                continue
            vec_key = src_key(body, t["args"][0])
            ix = t["args"][1]
            ity = ix.get("ty") or ix.get("place", {}).get("ty", "")
            site = "index into %s" % t["args"][0]["place"]["ty"].replace("std::vec::", "")
            if ix["k"] == "const" and ix.get("val") is not None:
                c = ix["val"]
                ok = [g for g in len_guards if body.dominates(g[0], b) and overlaps(g[1], vec_key) and g[2] is not None and g[2] > c]
                if ok:
                    res.ok({"function": fid, "site": "%s[%d]" % (site, c), "verdict": "length compared with %d in bb%d" % (ok[0][2], ok[0][0])})
                else:
                    res.bad(Finding("B3", fid, "constant %s[%d] without length test" % (site, c),
                                    "element %d is read without a dominating test that the vector has more than %d elements" % (c, c), t["sp"]))
            elif ix["k"] in ("copy", "move") and ity == "usize":
                ikey = src_key(body, ix)
                ideep = frozenset((r, tuple(p)) for (r, p) in body.deep_sources(ix, 3))
                direct = [g for g in gs if g[2] == "compare" and body.dominates(g[0], b) and any(overlaps(ikey, gk) for gk in g[1]) and rejecting(body, g[3])]
                # the index is an element of a vector whose elements were all tested
                def _stem(p):
                    # (`v[..][0]` / a slice pattern `[x] = v[..]`: every trailing index step leads to an element of the same vector)
                    q = tuple(p)
                    while q and q[-1].startswith("["):
                        q = q[:-1]
                    return q
                elem = [g for g in elem_guards if body.dominates(g[0], b) and any((r, p[:-1]) in g[1] or (r, p) in g[1] or (r, _stem(p)) in g[1] for (r, p) in ikey if p)]
                # ... also when the element reaches the index through a helper of the crate that only takes its slice apart
                # (`let Some((x, y)) = binary_gate_inputs(&input_wires)`): no arithmetic in the helper
                if not elem:
                    for (r, p) in ikey:
                        if r[0] == "call" and ctx.has_fn(str(r[2])) and ctx.fns[str(r[2])]["kind"] != "closure":
                            hb = ctx.body(str(r[2]))
                            pure = not any(st["k"] == "assign" and st["rv"]["k"] in ("binop", "checked_binop") and not st["rv"].get("op", "").startswith(("Eq", "Ne", "Lt", "Le", "Gt", "Ge"))
                                           for blk in hb.blocks for st in blk["stmts"]) and not any(True for _ in hb.calls() if not hb.blocks[_[0]]["cleanup"])
                            if not pure:
                                continue
                            for a in body.term(r[1])["args"]:
                                asrc = frozenset((r2, tuple(p2)) for (r2, p2) in body.deep_sources(a, 3))
                                elem += [g for g in elem_guards if body.dominates(g[0], b) and (asrc & g[1])]
                # computed index (a - b): not one of the idioms
                computed = any(r[0] == "rv" for (r, p) in ikey)
                if direct:
                    res.ok({"function": fid, "site": site + "[var]", "verdict": "index compared in bb%d" % direct[0][0]})
                elif elem:
                    res.ok({"function": fid, "site": site + "[elem]", "verdict": "all elements of the index vector tested (find/any/all) in bb%d" % elem[0][0]})
                elif ikey and all(r == ("arg", 2) for (r, p) in ikey) and ctx.fns[fid]["kind"] == "closure" and _item_tested_in_parent(ctx, fid):
                    res.ok({"function": fid, "site": site + "[item]", "verdict": "the closure's item ranges over a vector all of whose elements were tested before (bb%d of the parent)" %
                            _item_tested_in_parent(ctx, fid)[0]})
                elif computed:
                    verdict = _difference_index(body, gs, b, t, _allocators(ctx, [c for c in {mir.callee(t2) for _b2, t2 in body.calls()} if c]))
                    if verdict is None:
                        undecided.append("%s %s: computed index" % (fid, mir.span_str(t["sp"])))
                    elif verdict[0]:
                        res.ok({"function": fid, "site": site + "[a - b]", "verdict": verdict[1]})
                    else:
                        res.bad(Finding("B3", fid, "difference index %s not bounded by the vector's length" % site, verdict[1], t["sp"]))
                else:
                    res.bad(Finding("B3", fid, "variable %s without range test" % site,
                                    "a value from the file is used as an index without a dominating comparison", t["sp"]))
            else:
                undecided.append("%s %s: range index %s" % (fid, mir.span_str(t["sp"]), ity))
    if undecided:
        res.note("not decided (outside the idioms): " + "; ".join(undecided))
    return res


def rule_b4(ctx):
    """Wire translation of the importer: every gate line defines its wire in the table that later lines read."""
    res = RuleResult("B4", "every imported gate records its output wire in the translation table and takes a fresh wire number")
    root, _ = importer_bodies(ctx)
    body = ctx.body(root)
    pushes = []
    for b, t in body.calls():
        if mir.last_seg(mir.callee(t) or "") == "push" and len(t["args"]) == 2 and "circuit::Gate" in t["args"][1].get("place", {}).get("ty", ""):
            pushes.append((b, t))
    if len(pushes) != 1:
        raise AnchorMissing("B4: expected one gates.push(gate) in the importer, found %d" % len(pushes))
    pb, pt = pushes[0]
    # the table: receiver of the index reads that feed the operands of the pushed gates
    tables = set()
    for (r, p) in body.trace_operand(pt["args"][1]):
        if r[0] != "agg":
            continue
        st = body.blocks[r[1]]["stmts"][r[2]]
        for o in st["rv"]["ops"]:
            for (r2, p2) in body.trace_operand(o):
                if p2 and p2[-1].startswith("["):
                    tables.add((r2, tuple(p2[:-1])))
                elif r2[0] == "call" and mir.last_seg(r2[2] or "") == "index":
                    for (r3, p3) in body.trace_operand(body.term(r2[1])["args"][0]):
                        tables.add((r3, tuple(p3)))
    if len(tables) != 1:
        raise AnchorMissing("B4: the operands of imported gates are not read from one translation table (%s)" % sorted(tables))
    table = next(iter(tables))
    loops = [lp for lp in body.loops() if pb in lp["body"]]
    if not loops:
        raise AnchorMissing("B4: gates are not pushed inside a loop over the lines")
    lp = min(loops, key=lambda l: len(l["body"]))
    writes = [(b, t) for b, t in body.calls() if b in lp["body"] and mir.last_seg(mir.callee(t) or "") == "index_mut"
              and any((r, tuple(p)) == table for (r, p) in body.trace_operand(t["args"][0]))]
    if not writes:
        res.bad(Finding("B4", root, "gates never define their output wire", "no write into the wire translation table inside the gate loop: later gates read stale entries", pt["sp"]))
        return res

    def inloop(b):
        return [x for x in body.succs(b) if x in lp["body"] and not body.blocks[x]["cleanup"]]
    w = body.path(lp["header"], [pb], blocked={b for b, _ in writes}, succ=inloop)
    if w:
        res.bad(Finding("B4", root, "a gate can be pushed without defining its output wire",
                        "a path through the gate loop reaches gates.push without writing the translation table (blocks %s): a later gate reading this wire is connected to whatever the entry held before" % w,
                        body.term(writes[0][0])["sp"]))
    else:
        res.ok({"verdict": "the write wires_map[output_wire] lies on every path of the gate loop that pushes a gate", "writes": len(writes)})
    # the stored number is a counter that is bumped on every path that pushes a gate
    counters = set()
    for b, t in writes:
        d = t["dest"]["l"]
        for x in lp["body"]:
            for st in body.blocks[x]["stmts"]:
                if st["k"] == "assign" and st["place"]["l"] == d and any(e["k"] == "deref" for e in st["place"]["p"]) and st["rv"]["k"] == "use" and st["rv"]["op"]["k"] in ("copy", "move"):
                    c = st["rv"]["op"]["place"]["l"]
                    for _ in range(4):
                        ds = [d_ for d_ in body.defs().get(c, []) if d_[0] == "assign"]
                        if len(body.defs().get(c, [])) == 1 and ds and ds[0][3]["rv"]["k"] == "use" and ds[0][3]["rv"]["op"]["k"] in ("copy", "move") and not ds[0][3]["rv"]["op"]["place"]["p"]:
                            c = ds[0][3]["rv"]["op"]["place"]["l"]
                        else:
                            break
                    counters.add(c)
    if len(counters) != 1:
        res.bad(Finding("B4", root, "translation table entries are not one running counter", "the values written into the translation table come from %d different locals" % len(counters), body.term(writes[0][0])["sp"]))
        return res
    cnt = next(iter(counters))
    bumps = set()
    for x in lp["body"]:
        for st in body.blocks[x]["stmts"]:
            if st["k"] == "assign" and st["rv"]["k"] == "binop" and st["rv"]["op"] in ("AddWithOverflow", "Add", "AddUnchecked"):
                ops = (st["rv"]["l"], st["rv"]["r"])
                if any(o["k"] in ("copy", "move") and o["place"]["l"] == cnt and not o["place"]["p"] for o in ops) and any(o["k"] == "const" and o.get("val") == 1 for o in ops):
                    bumps.add(x)
    w = body.path(lp["header"], [pb], blocked=bumps, succ=inloop) if bumps else [lp["header"]]
    if w:
        res.bad(Finding("B4", root, "a gate can be pushed without taking a fresh wire number", "the wire counter is not incremented on every path that pushes a gate: two gates share one wire number", pt["sp"]))
    else:
        res.ok({"verdict": "the wire counter is incremented on every path that pushes a gate"})
    return res


def _allocators(ctx, ids):
    """Helper functions that allocate as many entries as a parameter says: fid -> (index of the size parameter, fallible?).
    Fallible: try_reserve(_exact)(param) dominates the allocation and one edge of the test of its result does not reach it."""
    out = {}
    for fid in ids:
        if not ctx.has_fn(fid):
            continue
        b = ctx.body(fid)
        reserves, sized = [], []
        for blk, t in b.calls():
            seg = mir.last_seg(mir.callee(t) or "")
            if b.blocks[blk]["cleanup"]:
                continue
            if seg in ("try_reserve", "try_reserve_exact") and len(t["args"]) == 2:
                reserves.append((blk, t, {r for (r, p) in b.trace_operand(t["args"][1]) if r[0] == "arg"}))
            elif seg in ("resize", "resize_with", "from_elem", "with_capacity", "reserve", "reserve_exact"):
                a = t["args"][1] if seg in ("resize", "resize_with", "reserve", "reserve_exact") else (t["args"][-1] if seg == "from_elem" else t["args"][0])
                args = {r for (r, p) in b.trace_operand(a) if r[0] == "arg"}
                if args:
                    sized.append((blk, t, args))
        if not sized:
            continue
        fallible = True
        for blk, t, args in sized:
            good = False
            for rb, rt, rargs in reserves:
                if rargs == args and b.dominates(rb, blk):
                    sw = _first_switch(b, rt.get("target"))
                    if sw is not None and any(not b.path(tgt, [blk]) for tgt in b.succs(sw) if not b.blocks[tgt]["cleanup"]):
                        good = True
            fallible = fallible and good
        out[fid] = (next(iter(sized[0][2]))[1], fallible)
    return out


def _first_switch(body, b):
    """The first branching block from b on (through the calls that re-wrap a Result: ok(), branch(), is_err())."""
    for _ in range(10):
        if b is None:
            return None
        t = body.blocks[b]["term"]
        if t["k"] == "switch":
            return b
        nxt = [x for x in body.succs(b) if not body.blocks[x]["cleanup"]]
        if len(nxt) != 1:
            return None
        b = nxt[0]
    return None


def _failure_is_error(body, b, t):
    """The Option / Result a fallible allocator returns is tested and one edge of the test is a straight line to `return Err`."""
    from .C16 import leads_to_err
    holders = {t["dest"]["l"]}
    for _ in range(3):
        for blk in body.blocks:
            for st in blk["stmts"]:
                if st["k"] == "assign" and st["rv"]["k"] in ("aggregate", "use"):
                    ops = st["rv"].get("ops", []) if st["rv"]["k"] == "aggregate" else [st["rv"]["op"]]
                    if any(o.get("k") in ("copy", "move") and o["place"]["l"] in holders for o in ops):
                        holders.add(st["place"]["l"])
    for x, blk in enumerate(body.blocks):
        if blk["cleanup"] or blk["term"]["k"] != "switch":
            continue
        if any(st["k"] == "assign" and st["rv"]["k"] == "discriminant" and st["rv"]["place"]["l"] in holders for st in blk["stmts"]):
            if any(leads_to_err(body, tgt) for tgt in body.succs(x)):
                return True
    return False


def rule_b5(ctx):
    """`vec![x; n]` with n taken from the header aborts the process (capacity overflow / failed allocation) for absurd n; every
    table the importer sizes by a number from the file is either sized by the very number that a rejecting comparison bounds by
    the number of lines the file really has, or allocated by a helper that reserves fallibly (try_reserve) and whose failure is
    turned into an error."""
    res = RuleResult("B5", "tables sized by numbers from the file: the allocated number itself is bounded by the length of the file, or the allocation is fallible and its failure an error")
    root, ids = importer_bodies(ctx)
    body = ctx.body(root)
    callees = {mir.callee(t) for b, t in body.calls()}
    helpers = _allocators(ctx, [c for c in callees if c])
    allocs = []

    def tainted(size):
        return size["k"] in ("copy", "move") and any(r[0] == "call" and mir.last_seg(str(r[2])) in TAINT_SEGS for (r, p) in body.deep_sources(size, 4))
    for b, t in body.calls():
        if body.blocks[b]["cleanup"]:
            continue
        cal = mir.callee(t) or ""
        seg = mir.last_seg(cal)
        if seg in ("from_elem", "with_capacity"):
            size = t["args"][-1] if seg == "from_elem" else t["args"][0]
            if tainted(size):
                allocs.append((b, t, size, "direct"))
        elif seg in ("resize", "resize_with", "reserve", "reserve_exact") and len(t["args"]) >= 2 and tainted(t["args"][1]):
            allocs.append((b, t, t["args"][1], "direct"))
        elif cal in helpers and tainted(t["args"][helpers[cal][0] - 1]):
            allocs.append((b, t, t["args"][helpers[cal][0] - 1], "fallible" if helpers[cal][1] else "direct"))
    if len(allocs) < 2:
        raise AnchorMissing("B5: expected the tables sized by header numbers (at least 2), found %d" % len(allocs))
    # guards: rejecting comparisons one side of which is the number of remaining lines; remembered with the origins of the other side
    file_guards = []
    for (gb, gkeys, kind, g) in guards(body):
        if kind != "compare" or not rejecting(body, g):
            continue
        sides = (g["rv"]["l"], g["rv"]["r"])
        for i, o in enumerate(sides):
            if o["k"] not in ("copy", "move"):
                continue
            for (r, p) in body.trace(o["place"], through={}):
                if r[0] == "call" and mir.last_seg(str(r[2])) == "len":
                    c = body.term(r[1])
                    # the collection of the file's lines (Vec<String> or its IntoIter)
                    if c["args"] and c["args"][0]["k"] in ("copy", "move") and "String" in c["args"][0]["place"]["ty"] and "usize" not in c["args"][0]["place"]["ty"]:
                        file_guards.append((gb, body.trace_operand(sides[1 - i])))
    for b, t, size, how in allocs:
        where = "line %d" % t["sp"][1]
        if how == "fallible":
            # the caller turns the failure (None / Err) into an error
            if _failure_is_error(body, b, t):
                res.ok({"allocation": where, "verdict": "allocated by a helper that reserves with try_reserve before it fills the table; its failure is an error of the file"})
            else:
                res.bad(Finding("B5", root, "failure of the fallible allocation is not an error", "the result of the allocating helper is not turned into an error", t["sp"]))
            continue
        origins = body.trace_operand(size)
        same = [gb for (gb, other) in file_guards if body.dominates(gb, b) and other & origins]
        if same:
            res.ok({"allocation": where, "verdict": "the allocated number itself was compared with the number of lines of the file"})
        else:
            res.bad(Finding("B5", root, "table sized by a header number without a bound",
                            "the size comes from the header of the file and nothing bounds this number by what the file can define (a comparison of another quantity - e.g. the declared wires minus the "
                            "input wires - with the length of the file does not bound it): `0 18446744073709551615` / `1 18446744073709551615` / `1 0` panics with capacity overflow, 10^14 wires abort the process", t["sp"]))
    return res


def rule_b6(ctx):
    """A gate line may only read wires that were assigned (by a party or by an earlier line) and assigns a wire that was not
    assigned before; the declared outputs must all have been assigned.  Otherwise the imported circuit reads wire 0 in place of
    the missing one, or fails its validation."""
    res = RuleResult("B6", "the importer keeps an assigned-table: read wires must be assigned, the written wire must not be, outputs must be")
    root, ids = importer_bodies(ctx)
    body = ctx.body(root)
    from .C16 import leads_to_err
    lookups = []    # (block, index operand, rejecting?)
    for b, t in body.calls():
        if t["func"].get("declared") == "std::ops::Index::index" and "Vec<bool>" in t["args"][0]["place"]["ty"] and not body.blocks[b]["cleanup"]:
            lookups.append((b, t))
    # a lookup inside a predicate (`ws.iter().find(|&&w| !is_assigned[w])`) happens where the predicate is built and handed to the adaptor
    for b, blk in enumerate(body.blocks):
        if blk["cleanup"]:
            continue
        for st in blk["stmts"]:
            cid = st["rv"].get("closure") if st["k"] == "assign" and st["rv"]["k"] == "aggregate" else None
            if cid and ctx.has_fn(cid):
                for cb_, ct in ctx.body(cid).calls():
                    if ct["func"].get("declared") == "std::ops::Index::index" and "Vec<bool>" in ct["args"][0]["place"]["ty"]:
                        lookups.append((b, ct))
    stores = [(b, t) for b, t in body.calls() if t["func"].get("declared") == "std::ops::IndexMut::index_mut" and "Vec<bool>" in t["args"][0]["place"]["ty"]]
    if not lookups or not stores:
        res.bad(Finding("B6", root, "no table of assigned wires",
                        "the importer does not record which wires were assigned: a gate may read a wire that no line assigns (it is silently translated to wire 0) or its own output, "
                        "a wire may be assigned twice, and declared outputs may be missing", body.fn["sp"]))
        return res
    gate_pushes = [b for b, t in body.calls() if mir.last_seg(mir.callee(t) or "") == "push" and len(t["args"]) == 2 and "circuit::Gate" in t["args"][1].get("place", {}).get("ty", "")]
    if len(gate_pushes) != 1:
        raise AnchorMissing("B6: expected one gates.push(gate)")
    pb = gate_pushes[0]
    dom = [(b, t) for (b, t) in lookups if body.dominates(b, pb) or any(b in lp["body"] and body.dominates(lp["header"], pb) for lp in body.loops())]
    if len(dom) >= 2 and any(body.dominates(b, pb) or True for b, t in stores):
        res.ok({"lookups_before_the_gate": len(dom), "verdict": "read wires and the written wire are looked up in the assigned-table before the gate is built; the written wire is marked"})
    else:
        res.bad(Finding("B6", root, "gate built without consulting the assigned-table", "a gate line is accepted without checking its wires against the table of assigned wires", body.term(pb)["sp"]))
    # order inside one iteration: the gate's own output is marked only after the wires it reads were looked up - a look-up of
    # the table that can follow the mark in the same iteration finds the gate's own output "assigned" (a gate reading itself)
    glp = [l for l in body.loops() if pb in l["body"]]
    if glp:
        inner = min(glp, key=lambda l: len(l["body"]))

        def in_iteration(x):
            return [y for y in body.succs(x) if y in inner["body"] and y != inner["header"] and not body.blocks[y]["cleanup"]]
        late = []
        for sb, st_ in stores:
            if sb not in inner["body"]:
                continue
            for lb, lt in lookups:
                if lb in inner["body"] and lb != sb and body.path(sb, [lb], succ=in_iteration):
                    late.append((sb, lb, lt))
        if late:
            res.bad(Finding("B6", root, "assigned-table consulted after the gate's own output was marked",
                            "a look-up of the assigned-table (line %d) can follow the mark of the gate's output wire in the same iteration: a gate line that reads its own output "
                            "(`2 1 2 3 3 XOR`) is accepted and the imported circuit is cyclic" % late[0][2]["sp"][1], body.term(late[0][0])["sp"]))
        else:
            res.ok({"verdict": "no look-up of the assigned-table follows the mark of the output wire within one iteration"})
    # outputs: after the loop over the lines, the table is examined again before Ok
    oks = [b for b, blk in enumerate(body.blocks) if not blk["cleanup"] for st in blk["stmts"]
           if st["k"] == "assign" and st["place"]["l"] == 0 and st["rv"]["k"] == "aggregate" and st["rv"].get("variant") == "Ok"]
    lp = [l for l in body.loops() if pb in l["body"]]
    outer = max(lp, key=lambda l: len(l["body"])) if lp else None
    finals = []
    for b, t in body.calls():
        if outer and b not in outer["body"] and any(body.path(x, [b]) for x in outer["body"]) and t["args"] and t["args"][0]["k"] in ("copy", "move"):
            if any("Vec<bool>" in str(body.locals[r[1]]["ty"]) if r[0] == "local" else ("bool" in t["args"][0]["place"]["ty"]) for (r, p) in body.deep_sources(t["args"][0], 3)):
                finals.append(b)
    if finals and all(any(body.dominates(fb, ob) for fb in finals) for ob in oks):
        res.ok({"verdict": "the assigned-table is examined once more after the last line, before Ok"})
    else:
        res.bad(Finding("B6", root, "declared outputs are not checked for being assigned", "the importer returns Ok without looking at the assigned-table after the last line: output wires that no gate assigns become wire 0", body.fn["sp"]))
    return res


def rule_b7(ctx):
    """Exporter: Bristol needs every output bit on a wire of its own, so for every repeated output wire the exporter appends
    helper gates and renumbers the output.  The number a renumbered output gets has to change from one repeated output to the
    next (a counter advanced in the loop, or the length of the circuit the gates are appended to); a number that is the same in
    every iteration gives two outputs the same wire."""
    res = RuleResult("B7", "exporter: the wire number given to a de-aliased repeated output advances with every helper gate appended")
    f = ctx.find_fn("format_as_bristol")
    root = f["id"]
    body = ctx.body(root)
    pushes = [(b, t) for b, t in body.calls() if mir.last_seg(mir.callee(t) or "") == "push" and len(t["args"]) == 2
              and "circuit::Gate" in t["args"][1].get("place", {}).get("ty", "") and not body.blocks[b]["cleanup"]]
    appended = {b: 1 for b, _ in pushes}
    # `gates.extend([g1, g2])`: as many gates as the array literal has elements
    for b, t in body.calls():
        if mir.last_seg(mir.callee(t) or "") == "extend" and len(t["args"]) == 2 and not body.blocks[b]["cleanup"] \
                and "circuit::Gate" in t["args"][1].get("place", {}).get("ty", "") and "Vec<circuit::Gate>" in t["args"][0].get("place", {}).get("ty", ""):
            for (r, p) in body.trace_operand(t["args"][1]):
                if r[0] == "agg":
                    rv = body.blocks[r[1]]["stmts"][r[2]]["rv"]
                    if rv.get("akind") == "array":
                        pushes.append((b, t))
                        appended[b] = len(rv["ops"])
    loops = [lp for lp in body.loops() if any(b in lp["body"] for b, _ in pushes)]
    if not pushes or not loops:
        raise AnchorMissing("B7: expected the exporter to append helper gates for repeated output wires inside a loop")
    lp = min(loops, key=lambda l: len(l["body"]))
    pushes = [(b, t) for b, t in pushes if b in lp["body"]]
    pushed_to = set()
    for b, t in pushes:
        pushed_to |= {r for (r, p) in body.trace_operand(t["args"][0])}
    stores = []
    for b in sorted(lp["body"]):
        if body.blocks[b]["cleanup"]:
            continue
        for st in body.blocks[b]["stmts"]:
            if st["k"] == "assign" and st["place"]["ty"] == "usize" and st["place"]["p"] and st["place"]["p"][0]["k"] == "deref" \
                    and "&mut usize" in body.locals[st["place"]["l"]]["ty"] and st["rv"]["k"] == "use":
                stores.append((b, st))
    if not stores:
        raise AnchorMissing("B7: expected the loop over the outputs to renumber a repeated output (`*out = ..`)")
    defs = body.defs()

    def sources(l, seen):
        """('carried', local) for locals assigned both outside and inside the loop, ('len', block) for lengths of the object the
        gates are appended to, looking through the temporaries defined inside the loop."""
        if l in seen:
            return set()
        seen.add(l)
        ds = [d for d in defs.get(l, []) if d[0] in ("assign", "call")]
        inside = [d for d in ds if d[1] in lp["body"]]
        outside = [d for d in ds if d[1] not in lp["body"]]
        if inside and outside:
            return {("carried", l)}
        out = set()
        for d in inside:
            if d[0] == "assign":
                rv = d[3]["rv"]
                ops = [rv.get("op")] if rv["k"] in ("use", "cast") else [rv.get("l"), rv.get("r")] if rv["k"] == "binop" else rv.get("ops", [])
                for o in ops:
                    if isinstance(o, dict) and o.get("k") in ("copy", "move"):
                        out |= sources(o["place"]["l"], seen)
            else:
                t = d[3]
                seg = mir.last_seg(mir.callee(t) or "")
                if seg in ("len", "wires_len") and t["args"] and {r for (r, p) in body.trace_operand(t["args"][0])} & pushed_to:
                    out.add(("len", d[1]))
                else:
                    for o in t["args"]:
                        if o.get("k") in ("copy", "move"):
                            out |= sources(o["place"]["l"], seen)
        return out

    def inloop(b):
        return [x for x in body.succs(b) if x in lp["body"] and not body.blocks[x]["cleanup"]]
    for b, st in stores:
        op = st["rv"]["op"]
        src = sources(op["place"]["l"], set()) if op["k"] in ("copy", "move") else set()
        if not src:
            res.bad(Finding("B7", root, "renumbered outputs all get the same wire",
                            "the wire number stored for a repeated output does not depend on anything that changes inside the loop (no counter advanced in the loop, no length of the "
                            "circuit the helper gates are appended to): with two repeated outputs the second is given the wire of the first, and the helper gates of the second define a wire twice",
                            st["sp"]))
            continue
        bad = None
        for kind, l in sorted(src):
            if kind != "carried":
                continue
            bumps = {d[1] for d in defs.get(l, []) if d[0] == "assign" and d[1] in lp["body"]}
            for pb, pt in pushes:
                if pb not in bumps and body.path(lp["header"], [pb], blocked=bumps, succ=inloop) and body.path(pb, [lp["header"]], blocked=bumps, succ=inloop):
                    bad = (l, pt)
            # the step: constant additions to the counter against the gates appended per iteration (straight-line loop bodies only)
            steps = []
            for d in defs.get(l, []):
                if d[0] == "assign" and d[1] in lp["body"] and d[3]["rv"]["k"] == "use" and d[3]["rv"]["op"]["k"] in ("copy", "move"):
                    for d2 in defs.get(d[3]["rv"]["op"]["place"]["l"], []):
                        if d2[0] == "assign" and d2[3]["rv"]["k"] == "binop" and d2[3]["rv"]["op"] in ("AddWithOverflow", "Add", "AddUnchecked"):
                            ops = (d2[3]["rv"]["l"], d2[3]["rv"]["r"])
                            if any(o["k"] in ("copy", "move") and o["place"]["l"] == l for o in ops):
                                steps += [o.get("val") for o in ops if o["k"] == "const"]
            chain = all(body.dominates(pushes[i][0], pushes[i + 1][0]) for i in range(len(pushes) - 1))
            per_iteration = sum(appended.get(pb_, 1) for pb_, _ in pushes)
            if len(steps) == 1 and steps[0] is not None and chain and steps[0] != per_iteration and not bad:
                res.bad(Finding("B7", root, "counter step differs from the number of helper gates",
                                "every iteration appends %d gates (each defines one wire) but advances the wire counter by %s" % (per_iteration, steps[0]), st["sp"]))
                bad = "step"
        if bad and bad != "step":
            res.bad(Finding("B7", root, "helper gates appended without advancing the wire counter",
                            "a path through the loop appends a helper gate (line %d) and comes back to the loop head without assigning the counter the renumbered output is taken from" % bad[1]["sp"][1], st["sp"]))
        elif not bad:
            res.ok({"store": "line %d" % st["sp"][1], "depends_on": sorted("%s:%s" % k for k in src), "helper_gates_per_iteration": sum(appended.get(pb_, 1) for pb_, _ in pushes),
                    "verdict": "the number changes with every repeated output"})
    return res


def run(ctx):
    return ctx.run_rules([rule_b1, rule_b2, rule_b3, rule_b4, rule_b5, rule_b6, rule_b7])
