"""C12 - const parameters: missing / mistyped ones are errors, never panics; wrapping arithmetic; fold identities.

K1  every panicking use of a supplied constant comes after all constant errors have been collected and returned
K2  the collecting loops never stop early; errors are sorted and returned together
K3  const expressions are evaluated with wrapping add / sub and never trap
K4  const definitions are bound in an order that does not depend on a hash seed (cross-reference to C06-D1)
K5  min / max folds start from the identity of the constant's type
K6  every const definition that is resolved (or recorded as a size) is entered into the table that the resolver of later
    const definitions reads, on every path of the definition loop (paths pruned by the definition's type)
K8  sums / differences are reduced to the width of the constant's type inside the evaluators (min / max and later consts see the
    wrapped value); the width handed over by compile_with_constants is the size of the definition's type
K9  every error about a supplied constant carries party and identifier (known finding: InvalidLiteralType does not)
K7  cross-reference: const-sized repeat literals are constrained exactly like literal-sized ones (C05-S2 rows for ArrayRepeatLiteralConst / ArrayConst)
"""
import re

from .. import mir
from ..core import AnchorMissing, Finding, RuleResult
from . import C06

PROPERTY = "C12"
TECHNIQUE = "reachability / dominance between error-collection and value-use sites on MIR; variant-pruned must-pass for wrapping ops; constant inspection of fold identities"
LEVEL_TEXT = (
    "Decides the error-path and arithmetic-mode clauses. 'A missing or mistyped constant is an error that names every such "
    "constant and never a panic': in compile_with_constants no site that constructs MissingConstant / InvalidLiteralType is "
    "reachable from a panicking use of a supplied constant (unwrap of a lookup in the maps filled from the supplied "
    "constants, resolve_const_expr_*), the collecting loops have no early exit, and the error vector is sorted and returned "
    "before the first use. 'min/max/+/- in wrapping arithmetic of the constant's type': the three instantiations of the "
    "const evaluator contain no overflow trap, their Add/Sub arms go through wrapping_add/wrapping_sub, and the Min/Max "
    "accumulators start from the type's MAX/MIN; the result of every Add/Sub node passes, together with the width parameter, through a reducing call before it is returned, and the callers pass size_in_bits_for_defs of the definition's type or the width of usize (K8). Every error built for a supplied constant carries party and identifier (K9; InvalidLiteralType does not: known finding). Definition order must not follow hash order (K4). 'Consts act as substitution' has one clause visible in the shape of the "
    "definition loops: a resolved definition must be entered into the table the later definitions are resolved against, on every "
    "path (K6; found a genuine defect: only usize consts were entered). Not decided: equivalence "
    "with literal substitution for all programs and inputs (that is C01's question), array sizes and trip counts following "
    "the constants.")
LEVEL_NOTE = "Trusted: rustc MIR (debug profile keeps overflow Asserts visible); Literal::is_of_type is the gate (its own soundness is C09)."
EXPLANATION = ("K1/K2 work on the MIR of TypedProgram::compile_with_constants: E = blocks building CompilerError::MissingConstant / "
               "InvalidLiteralType, U = panicking uses of supplied constants; no path U -> E may exist and every U is dominated "
               "by the `errs.is_empty()` test that follows the collection. K3/K5 inspect resolve_const_expr_{usize,unsigned,signed} "
               "pruned to one ConstExprEnum variant.")
NOT_DECIDED = "equivalence of compiling with constants and compiling the substituted program (semantic, C01); shapes (array sizes, trip counts, parties) following the constants"
ASSUMPTIONS = ["K6: resolve_const_expr_signed is reached only for definitions of a signed type, the other two resolvers only for unsigned ones (numeric const expressions of another type do not pass the type checker)"]

CWC = ("compile_with_constants", "&ast::Program<ast::Type>")
RESOLVERS = ["compile::resolve_const_expr_usize", "compile::resolve_const_expr_unsigned", "compile::resolve_const_expr_signed"]


def _cwc(ctx):
    f = ctx.find_fn(CWC[0], CWC[1], "compile.rs")
    return f, ctx.body(f["id"])


def _err_blocks(body):
    out = {}
    for b, blk in enumerate(body.blocks):
        if blk["cleanup"]:
            continue
        for st in blk["stmts"]:
            if st["k"] == "assign" and st["rv"]["k"] == "aggregate" and st["rv"].get("adt") == "compile::CompilerError":
                out.setdefault(st["rv"]["variant"], []).append((b, st["sp"]))
    return out


def _supplied_maps(body):
    """locals (by name) that are filled from the supplied `consts` parameter inside the collection loop."""
    names = set()
    consts_arg = None
    for l in range(1, body.arg_count + 1):
        if "HashMap<std::string::String, std::collections::HashMap<std::string::String, literal::Literal>>" in body.locals[l]["ty"]:
            consts_arg = l
    if consts_arg is None:
        raise AnchorMissing("compile_with_constants has no `consts` parameter of the expected type")
    return consts_arg


def _uses(ctx, body):
    """Panicking uses of supplied constants: (block, span, what)."""
    out = []
    for b, t in body.calls():
        cal = mir.callee(t) or ""
        seg = mir.last_seg(cal)
        if cal in RESOLVERS:
            out.append((b, t["sp"], "call %s" % seg))
        elif seg in ("unwrap", "expect") and cal.startswith("std::option::Option"):
            # receiver is the result of HashMap::get on a map of constants
            for (r, p) in body.trace_operand(t["args"][0], through={}):
                if r[0] == "call" and mir.last_seg(r[2] or "") == "get" and "HashMap" in (r[2] or ""):
                    g = body.term(r[1])
                    recv_ty = g["args"][0]["place"]["ty"]
                    if "HashMap<std::string::String, usize>" in recv_ty or "HashMap<std::string::String, u64>" in recv_ty or "HashMap<std::string::String, i64>" in recv_ty:
                        out.append((b, t["sp"], "unwrap of a lookup in %s" % recv_ty.replace("std::collections::", "").replace("std::string::", "")))
    return out


def rule_k1(ctx):
    res = RuleResult("K1", "constant errors are collected and returned before any panicking use of a supplied constant")
    f, body = _cwc(ctx)
    errs = _err_blocks(body)
    for v in ("MissingConstant", "InvalidLiteralType"):
        if v not in errs:
            res.bad(Finding("K1", f["id"], "no %s" % v, "compile_with_constants never constructs CompilerError::%s" % v, f["sp"]))
    uses = _uses(ctx, body)
    if len(uses) < 2:
        raise AnchorMissing("K1: found only %d panicking uses of supplied constants (expected the const_sizes lookups and resolve_const_expr calls)" % len(uses))
    eblocks = {b: (v, sp) for v, lst in errs.items() if v in ("MissingConstant", "InvalidLiteralType") for (b, sp) in lst}
    for (ub, usp, what) in uses:
        hit = None
        reach = body.reachable(body.succs(ub))
        for eb, (v, esp) in eblocks.items():
            if eb in reach:
                hit = (v, esp)
                break
        site = "%s" % what
        if hit:
            res.bad(Finding("K1", f["id"], "%s before %s is reported" % (what, hit[0]),
                            "a supplied constant is used (%s, panics when the entry is absent) on a path on which CompilerError::%s is only collected later (%s)"
                            % (what, hit[0], mir.span_str(hit[1])), usp))
        else:
            res.ok({"use": what, "at": mir.span_str(usp), "verdict": "all constant errors are collected before"})
    # each use is dominated by an is_empty test of the error vector
    tests = [b for b, t in body.calls() if mir.last_seg(mir.callee(t) or "") == "is_empty" and "compile::CompilerError" in t["args"][0]["place"]["ty"]]
    if not tests:
        res.bad(Finding("K1", f["id"], "errors never tested", "the collected errors are never tested with is_empty()", f["sp"]))
    else:
        for (ub, usp, what) in uses:
            if any(body.dominates(tb, ub) for tb in tests):
                res.ok({"use": what, "verdict": "dominated by errs.is_empty() test"})
            else:
                res.bad(Finding("K1", f["id"], "%s not behind the error test" % what, "use of a supplied constant is not dominated by the test of the collected errors", usp))
    return res


def rule_k2(ctx):
    res = RuleResult("K2", "the error-collecting loops run to completion; errors are sorted and returned together")
    f, body = _cwc(ctx)
    errs = _err_blocks(body)
    can_return = C06._can_return(body)
    for v in ("MissingConstant", "InvalidLiteralType"):
        for (eb, sp) in errs.get(v, []):
            loops = [lp for lp in body.loops() if eb in lp["body"]]
            if not loops:
                res.bad(Finding("K2", f["id"], "%s outside a loop" % v, "the error is constructed outside the collection loop", sp))
                continue
            # none of the loops around the error site may be left other than by exhausting its own iterator
            early = []
            for lp in loops:
                region = lp["body"]
                own_next = set()
                for b in region:
                    t = body.term(b)
                    if t and t["k"] == "call" and t["func"].get("declared") == "std::iter::Iterator::next":
                        inner = [l2 for l2 in body.loops() if b in l2["body"]]
                        if min(inner, key=lambda l2: len(l2["body"]))["header"] == lp["header"]:
                            own_next |= C06._next_test_blocks(body, b, region)
                for u in region:
                    if body.blocks[u]["cleanup"]:
                        continue
                    for s in body.succs(u):
                        if s not in region and u not in own_next and s in can_return:
                            early.append(u)
            if early:
                res.bad(Finding("K2", f["id"], "collection of %s stops early" % v, "the loop that collects %s errors can be left before all constants were looked at" % v, body.term(early[0])["sp"]))
            else:
                res.ok({"error": v, "at": mir.span_str(sp), "verdict": "collected in a loop without early exit"})
    # sorted before returned
    ret_err = []
    for b, blk in enumerate(body.blocks):
        for st in blk["stmts"]:
            if st["k"] == "assign" and st["place"]["l"] == 0 and st["rv"]["k"] == "aggregate" and st["rv"].get("variant") == "Err":
                srcs = body.trace_operand(st["rv"]["ops"][0], through={})
                ret_err.append((b, st, srcs))
    sorts = [b for b, t in body.calls() if mir.last_seg(mir.callee(t) or "") in C06.SORTS and "compile::CompilerError" in t["args"][0]["place"]["ty"]]
    n = 0
    for (b, st, srcs) in ret_err:
        # only the returns of the accumulated vector (a local filled by push), not `vec![FnNotFound]`
        roots = {r for (r, p) in srcs}
        if any(r[0] == "call" and "exchange_malloc" not in (r[2] or "") and mir.last_seg(r[2] or "") in ("new", "with_capacity") for r in roots) or any(r[0] == "local" for r in roots):
            n += 1
            if any(body.dominates(s, b) for s in sorts):
                res.ok({"return": mir.span_str(st["sp"]), "verdict": "errors sorted before they are returned"})
            else:
                res.bad(Finding("K2", f["id"], "unsorted errors returned", "the accumulated errors are returned without being sorted (order follows hash order)", st["sp"]))
    if (n < 1) and not res.findings:
        raise AnchorMissing("K2: no `return Err(errs)` of the accumulated error vector found")
    return res


def rule_k3(ctx):
    res = RuleResult("K3", "const expressions use wrapping add / sub and contain no overflow trap")
    for fid in RESOLVERS:
        if fid not in ctx.fns:
            raise AnchorMissing("%s not found" % fid)
        body = ctx.body(fid)
        traps = mir.trapping_arith_sites(body)
        if traps:
            for (b, kind, ops, sp) in traps:
                res.bad(Finding("K3", fid, "trapping arithmetic %s" % kind.split(" on ")[0], "the const evaluator can panic on %s" % kind, sp))
        else:
            res.ok({"function": fid, "verdict": "no overflow / division Assert"})
        for variant, want in (("Add", "wrapping_add"), ("Sub", "wrapping_sub")):
            succ = body.pruned_succ({(("arg", 1), ("0",)): variant})
            region = body.reachable([0], succ=succ)
            if len(region) == len(body.reachable([0])):
                raise AnchorMissing("K3: cannot isolate the %s arm of %s" % (variant, fid))
            via = {b for b in region if body.term(b)["k"] == "call" and mir.last_seg(mir.callee(body.term(b)) or "") == want}
            w = body.must_pass(via, succ=succ)
            if w:
                res.bad(Finding("K3", fid, "%s arm without %s" % (variant, want), "ConstExprEnum::%s is not evaluated with %s" % (variant, want), body.term(w[-1])["sp"]))
            else:
                res.ok({"function": fid, "arm": variant, "verdict": want})
    return res


def rule_k8(ctx):
    """'wrapping arithmetic of the constant's type': the evaluators compute in usize / u64 / i64; the result of every Add / Sub
    node has to be reduced to the width of the constant's type before min / max (or a later constant) sees it, and the width the
    callers hand over has to be the one of the definition's type."""
    res = RuleResult("K8", "sums and differences of const expressions are reduced to the width of the constant's type")
    for fid in RESOLVERS:
        if fid not in ctx.fns:
            raise AnchorMissing("%s not found" % fid)
        body = ctx.body(fid)
        width_args = [l for l in range(1, body.arg_count + 1) if body.locals[l]["ty"] in ("usize", "u32") and l >= 3]
        for variant, want in (("Add", "wrapping_add"), ("Sub", "wrapping_sub")):
            succ = body.pruned_succ({(("arg", 1), ("0",)): variant})
            region = body.reachable([0], succ=succ)
            wraps = [b for b in region if body.term(b)["k"] == "call" and mir.last_seg(mir.callee(body.term(b)) or "") == want and not body.blocks[b]["cleanup"]]
            if not wraps:
                continue        # K3 reports it
            if not width_args:
                res.bad(Finding("K8", fid, "%s result keeps the evaluator's width" % variant,
                                "the evaluator does not know the width of the constant's type: `max(X + Y, 127u8)` with 255, 1 compares 256 (not 0) with 127", body.term(wraps[0])["sp"]))
                continue
            for wb in wraps:
                d = body.term(wb)["dest"]["l"]
                # the calls / operations in the arm that take the sum together with the width parameter
                reducers = []
                for b in region:
                    t = body.term(b)
                    if t["k"] == "call" and b != wb and not body.blocks[b]["cleanup"]:
                        srcs = [set(r for (r, p) in body.trace_operand(a)) for a in t["args"]]
                        has_sum = any(("call", wb, mir.callee(body.term(wb))) in sset for sset in srcs)
                        has_width = any(any(r == ("arg", w) for w in width_args) for sset in srcs for r in sset)
                        if has_sum and has_width:
                            reducers.append(b)
                raw = ("call", wb, mir.callee(body.term(wb)))
                ret_from_reducer, raw_returned = False, False
                for b in region:
                    if body.blocks[b]["cleanup"]:
                        continue
                    t = body.term(b)
                    if t["k"] == "call" and t["dest"]["l"] == 0 and not t["dest"]["p"]:
                        if b in reducers:
                            ret_from_reducer = True
                        elif b == wb:
                            raw_returned = True
                    for st in body.blocks[b]["stmts"]:
                        if st["k"] == "assign" and st["place"]["l"] == 0 and not st["place"]["p"] and st["rv"]["k"] == "use" and st["rv"]["op"]["k"] in ("copy", "move"):
                            srcs = {r for (r, p) in body.trace_operand(st["rv"]["op"])}
                            if any(r[0] == "call" and r[1] in reducers for r in srcs):
                                ret_from_reducer = True
                            if raw in srcs:
                                raw_returned = True
                if reducers and ret_from_reducer and not raw_returned:
                    res.ok({"function": fid, "arm": variant, "verdict": "the sum passes a reduction that takes the width parameter before it is returned"})
                else:
                    res.bad(Finding("K8", fid, "%s result keeps the evaluator's width" % variant,
                                    "the result of %s is returned without being reduced to the width of the constant's type: `max(X + Y, 127u8)` with 255, 1 compares 256 (not 0) with 127; "
                                    "a later const sees the unreduced value" % want, body.term(wb)["sp"]))
    # the callers in compile_with_constants: the width is the size of the definition's type (or the width of usize for sizes)
    f, body = _cwc(ctx)
    n = 0
    for b, t in body.calls():
        cal = mir.callee(t) or ""
        if cal in RESOLVERS and not body.blocks[b]["cleanup"] and len(t["args"]) >= 3:
            n += 1
            w = t["args"][2]
            if w["k"] == "const":
                okw = w.get("val") == 32
                how = "the constant %s" % w.get("val")
            else:
                src = body.deep_sources(w, 2)
                okw = any(r[0] == "call" and mir.last_seg(str(r[2])) == "size_in_bits_for_defs" for (r, p) in src)
                how = "size_in_bits_for_defs of the definition's type"
            if okw:
                res.ok({"call": "line %d" % t["sp"][1], "width": how})
            else:
                res.bad(Finding("K8", f["id"], "width handed to the const evaluator is not the one of the definition's type",
                                "the width argument is neither the size in bits of the definition's type nor the width of usize", t["sp"]))
    if n < 4 and all(len(ctx.body(fid).locals) and ctx.body(fid).arg_count >= 3 for fid in RESOLVERS):
        raise AnchorMissing("K8: expected at least 4 calls of the const evaluators in compile_with_constants, found %d" % n)
    return res


def rule_k9(ctx):
    """'returns an error that names every such constant': every error built while the supplied constants are collected carries
    the party and the identifier of the constant it is about."""
    res = RuleResult("K9", "errors about a supplied constant name the constant (party and identifier)")
    f, body = _cwc(ctx)
    errs = _err_blocks(body)
    seen = 0
    for variant in ("MissingConstant", "InvalidLiteralType"):
        for (b, sp) in errs.get(variant, []):
            seen += 1
            st = [x for x in body.blocks[b]["stmts"] if x["k"] == "assign" and x["rv"]["k"] == "aggregate" and x["rv"].get("variant") == variant][0]
            strings = [o for o in st["rv"]["ops"] if o.get("k") in ("copy", "move") and "String" in o["place"]["ty"]]
            if len(strings) >= 2:
                res.ok({"error": variant, "line": sp[1], "verdict": "carries party and identifier"})
            else:
                res.bad(Finding("K9", f["id"], "%s does not name the constant" % variant,
                                "the error carries the literal and the expected type but neither the party nor the identifier: two parties that supply the same wrong literal "
                                "produce two identical errors and the caller cannot tell which constant is meant", sp))
    if not errs.get("MissingConstant") or not errs.get("InvalidLiteralType"):
        raise AnchorMissing("K9: expected sites that build MissingConstant and InvalidLiteralType in compile_with_constants, found %d" % seen)
    return res


def rule_k4(ctx):
    res = RuleResult("K4", "const definitions are bound in a hash-seed independent order")
    f, body = _cwc(ctx)
    d1 = C06.rule_d1(ctx)
    mine = [x for x in d1.findings if x.fn == f["id"]]
    for x in mine:
        res.bad(Finding("K4", x.fn, x.site, x.message, x.span))
    if not mine:
        res.ok({"function": f["id"], "verdict": "no hash-ordered loop of compile_with_constants reads and writes Env or emits gates (C06-D1)"})
    return res


TYPE_MIN = {"usize": 0, "u64": 0, "i64": -(2 ** 63)}
TYPE_MAX = {"usize": 2 ** 64 - 1, "u64": 2 ** 64 - 1, "i64": 2 ** 63 - 1}


def rule_k5(ctx):
    res = RuleResult("K5", "Min folds start from the type's MAX, Max folds from the type's MIN")
    for fid in RESOLVERS:
        body = ctx.body(fid)
        ty = body.locals[0]["ty"]
        if ty not in TYPE_MIN:
            raise AnchorMissing("K5: unexpected result type %s of %s" % (ty, fid))
        for variant, want, call in (("Max", TYPE_MIN[ty], "max"), ("Min", TYPE_MAX[ty], "min")):
            succ = body.pruned_succ({(("arg", 1), ("0",)): variant})
            region = body.reachable([0], succ=succ)
            # the accumulator: the local that receives the result of std::cmp::max/min
            accs = set()
            for b in region:
                t = body.term(b)
                if t["k"] == "call" and mir.callee(t) == "std::cmp::" + call:
                    # the loop-carried accumulator: the local that receives the fold result and feeds the next fold
                    d = t["dest"]["l"]
                    for l, ds in body.defs().items():
                        for dd in ds:
                            if dd[0] == "assign" and dd[3]["rv"]["k"] == "use" and dd[3]["rv"]["op"].get("place", {}).get("l") == d and not dd[3]["rv"]["op"]["place"]["p"]:
                                accs.add(l)
            if not accs:
                # `args.iter().map(resolve).fold(<ty>::MIN, max)`: identity and combining function are the operands of the fold
                folds = [(b, body.term(b)) for b in sorted(region) if body.term(b)["k"] == "call" and body.term(b)["func"].get("declared") == "std::iter::Iterator::fold"
                         and len(body.term(b)["args"]) == 3 and body.term(b)["args"][2].get("fn") == "std::cmp::" + call]
                if len(folds) != 1:
                    raise AnchorMissing("K5: %s arm of %s does not fold with std::cmp::%s" % (variant, fid, call))
                fb, ft = folds[0]
                chain = set()
                cur = ft["args"][0]
                for _ in range(10):
                    # the adaptor chain the fold consumes: receiver of the receiver of ..
                    nxt = None
                    for (r, p) in body.trace_operand(cur, through={}) if cur["k"] in ("copy", "move") else ():
                        if r[0] == "call":
                            chain.add(mir.last_seg(r[2] or ""))
                            if body.term(r[1])["args"]:
                                nxt = body.term(r[1])["args"][0]
                    if nxt is None:
                        break
                    cur = nxt
                dropping = chain & {"filter", "take", "skip", "take_while", "skip_while", "step_by", "filter_map", "rev_take"}
                init = ft["args"][1]
                if dropping:
                    res.bad(Finding("K5", fid, "%s fold does not see every argument" % variant, "the iterator handed to fold goes through %s: arguments can be left out" % sorted(dropping), ft["sp"]))
                elif init["k"] == "const" and init.get("val") == want:
                    res.ok({"function": fid, "fold": variant, "identity": want, "verdict": "Iterator::fold over all arguments, starting from the identity"})
                else:
                    res.bad(Finding("K5", fid, "%s fold starts from %s" % (variant, init.get("val", init.get("repr"))),
                                    "the identity of a %s fold over %s is %d; starting elsewhere makes `%s()` of small / large constants wrong" % (variant.lower(), ty, want, variant.lower()), ft["sp"]))
                continue
            # every argument must take part in the fold: the loop over the arguments is only left early when the
            # accumulator has reached the absorbing element of the fold (type MIN for min, type MAX for max)
            absorbing = TYPE_MIN[ty] if variant == "Min" else TYPE_MAX[ty]
            can_return = C06._can_return(body)
            fold_blocks = {b for b in region if body.term(b)["k"] == "call" and mir.callee(body.term(b)) == "std::cmp::" + call}
            for lp in body.loops():
                if not (lp["body"] & fold_blocks):
                    continue
                nexts = set()
                for b in lp["body"]:
                    t = body.term(b)
                    if t and t["k"] == "call" and t["func"].get("declared") == "std::iter::Iterator::next":
                        nexts |= C06._next_test_blocks(body, b, lp["body"])
                early = [u for u in lp["body"] if u in region and not body.blocks[u]["cleanup"] and
                         any(s_ not in lp["body"] and s_ in can_return and u not in nexts for s_ in body.succs(u))]
                if not early:
                    res.ok({"function": fid, "fold": variant, "verdict": "loop over the arguments has no early exit"})
                    continue
                consts = []
                for b in lp["body"]:
                    for st in body.blocks[b]["stmts"]:
                        if st["k"] == "assign" and st["rv"]["k"] == "binop" and st["rv"]["op"] in ("Eq", "Ne", "Le", "Ge", "Lt", "Gt"):
                            for side, other in (("l", "r"), ("r", "l")):
                                if st["rv"][side]["k"] == "const" and st["rv"][other]["k"] in ("copy", "move"):
                                    consts.append(st["rv"][side].get("val"))
                if consts and all(c == absorbing for c in consts):
                    res.ok({"function": fid, "fold": variant, "verdict": "early exit only at the absorbing element %s" % absorbing})
                else:
                    res.bad(Finding("K5", fid, "%s fold stops early" % variant,
                                    "the %s fold over %s constants leaves the argument loop early (tested against %s; only %s is absorbing): later arguments are ignored"
                                    % (variant.lower(), ty, consts, absorbing), body.term(early[0])["sp"]))
            for acc in accs:
                inits = [d for d in body.defs().get(acc, []) if d[0] == "assign" and d[1] in region and d[3]["rv"]["k"] == "use" and d[3]["rv"]["op"]["k"] == "const"]
                if not inits:
                    res.bad(Finding("K5", fid, "%s accumulator not initialised with a constant" % variant, "cannot read the fold identity", body.fn["sp"]))
                    continue
                for d in inits:
                    val = d[3]["rv"]["op"].get("val")
                    if val == want or (ty in ("usize",) and want == TYPE_MAX[ty] and val in (2 ** 64 - 1, 2 ** 32 - 1)):
                        res.ok({"function": fid, "fold": variant, "identity": val})
                    else:
                        res.bad(Finding("K5", fid, "%s fold starts at %s" % (variant, val),
                                        "the %s fold over %s constants starts from %s instead of %s: arguments beyond it are ignored" % (variant.lower(), ty, val, want), d[3]["sp"]))
    return res


def rule_k6(ctx):
    """A const definition whose value was resolved is visible to the const definitions after it."""
    res = RuleResult("K6", "every resolved const definition is entered into the table later const expressions are resolved against")
    f, body = _cwc(ctx)
    n = 0
    for fid in RESOLVERS:
        calls = [(b, t) for b, t in body.calls() if mir.callee(t) == fid]
        for rb, rt in calls:
            table = {(r, tuple(p)) for (r, p) in body.trace_operand(rt["args"][1])}
            loops = [lp for lp in body.loops() if rb in lp["body"]]
            if not loops:
                continue
            lp = min(loops, key=lambda l: len(l["body"]))
            n += 1
            ins = [(b, t) for b, t in body.calls() if b in lp["body"] and mir.last_seg(mir.callee(t) or "") == "insert" and "HashMap" in (mir.callee(t) or "")]
            mine = {b for b, t in ins if {(r, tuple(p)) for (r, p) in body.trace_operand(t["args"][0])} & table}
            for b, t in ins:
                if b in mine:
                    vs = body.trace_operand(t["args"][2])
                    if not vs or not all(r[0] == "call" and r[2] == fid for (r, p) in vs):
                        res.bad(Finding("K6", f["id"], "a table entry is not the value the resolver computed",
                                        "the value entered into the table %s reads does not come from %s (it comes from %s): the table and the bound wires can disagree, "
                                        "e.g. on the sign of a narrow signed const" % (mir.last_seg(fid), mir.last_seg(fid), sorted(str(r[:3]) for (r, p) in vs)[:3]), t["sp"]))
            if not mine:
                res.bad(Finding("K6", f["id"], "resolved consts are never entered into the resolution table",
                                "the loop resolves const definitions against a table it never extends: a const defined in terms of an earlier const cannot be resolved", rt["sp"]))
                continue

            # the resolver call sits under a test of the definition's type: paths are explored under that assumption
            assume = {}
            for sw in lp["body"]:
                info = body.switch_info(sw)
                if info and info[0] and info[2] == "ast::Type" and body.dominates(sw, rb):
                    # the signed resolver is used for definitions of a signed type, the other two for unsigned ones
                    # (numeric const expressions of any other type do not pass the type checker)
                    assume[info[0]] = "Signed" if fid.endswith("_signed") else "Unsigned"
            psucc = body.pruned_succ(assume) if assume else (lambda b: body.succs(b))

            def inloop(b, lp=lp, psucc=psucc):
                return [x for x in psucc(b) if x in lp["body"] and not body.blocks[x]["cleanup"]]
            latches = [b for b in lp["body"] if lp["header"] in body.succs(b)]
            # (a) a resolved value always reaches the table
            w = body.path(rb, latches, blocked=mine, succ=inloop)
            # (b) a definition recorded in any other table (the sizes) is also recorded in this one
            others = [b for b, t in ins if b not in mine]
            w2 = None
            for ob in others:
                p1 = body.path(lp["header"], [ob], blocked=mine, succ=inloop)
                p2 = body.path(ob, latches, blocked=mine, succ=inloop)
                if p1 and p2:
                    w2 = p1 + p2[1:]
            if w or w2:
                res.bad(Finding("K6", f["id"], "a const definition is recorded without entering the resolution table",
                                "a path through the const-definition loop records a definition (blocks %s) but does not insert it into the table that %s reads: later const definitions "
                                "that mention it hit the 'existence checked during type checking' panic" % (w or w2, mir.last_seg(fid)), rt["sp"]))
            else:
                res.ok({"resolver": mir.last_seg(fid), "verdict": "every path that resolves or records a definition inserts it into the resolver's table",
                        "inserts": len(mine), "other_tables": len(others), "assuming": {str(k): v for k, v in assume.items()}})
    if n < 1 and not res.findings:
        raise AnchorMissing("K6: compile_with_constants no longer resolves const definitions in a loop")
    return res


def rule_k7(ctx):
    """Cross-reference: a const-sized repeat literal is constrained like a literal-sized one (C05-S2) - else `[2; N]` and `[2; 3]` compile differently."""
    from . import C05
    res = RuleResult("K7", "const-sized array literals take part in literal type inference like literal-sized ones (cross-reference to C05-S2)")
    s2 = C05.rule_s2(ctx)
    mine = [x for x in s2.findings if "Const" in x.site]
    for x in mine:
        res.bad(Finding("K7", x.fn, x.site, x.message, x.span))
    if not mine:
        res.ok({"verdict": "C05-S2 holds for ArrayRepeatLiteralConst / ArrayConst rows"})
    return res


def run(ctx):
    return ctx.run_rules([rule_k1, rule_k2, rule_k3, rule_k4, rule_k5, rule_k6, rule_k7, rule_k8, rule_k9])
