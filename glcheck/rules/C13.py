"""C13 - join / join_iter (guard and hiding clauses).

J1  a pair is joined iff the keys are equal AND the two rows come from different arrays
J2  the join built-in zeroes every wire of a non-matching row and sorts on the flag bit before concatenating
J3  the for-join body obeys the panic-record and environment protocols (C02-P2, C14-E4)
J4  the number of emitted rows and the declared result size derive from the same two array sizes
J7  push_eq_circuit (the key comparison of the join) compares every bit position pairwise and conjoins all comparisons; no
    element-dropping adaptor (chunks_exact, skip, take ...) on the way
J6  layout of the rows given to the merger: tag inserted / removed at the key width, merger compares key width + 1 bits ascending,
    tags 0 / 1, padding rows first, first array ascending, second array reversed, rows truncated to their own element width
J5  shape of the bitonic network: power-of-two stride used for partner index and split, compare-exchange of [i] / [i+stride],
    min -> [i] and max -> [i+stride] swapped exactly on the descending edge, both halves merged in the same direction,
    sorter = sort(lower, !dir); sort(upper, dir); merge(all, dir), 2-sorter = condswap(gt(x, y), x_i, y_i) returned as (min, max)
"""
from .. import mir
from ..core import AnchorMissing, Finding, RuleResult
from . import C02, C14

PROPERTY = "C13"
TECHNIQUE = "operand-origin checks of the join condition and of the zeroing / sorting steps on MIR; reuse of the protocol interpreter for the for-join body"
LEVEL_TEXT = (
    "Correctness of the bitonic merge network for all inputs and sizes is value-level and NOT decided. Decided: (J1) the condition "
    "handed to the per-pair callback is and(push_eq_circuit(key of left row, key of right row), xor(tag of left row, tag of right "
    "row)) - equality of keys and different source arrays, with the two tags removed from the two different rows of the window - so "
    "that a key repeated inside one array can never join with itself; the row tag is 0 for the first and 1 for the second array; "
    "(J2) in the join built-in every wire of a row except the flag goes through push_mux(join_eq, wire, 0) and "
    "push_bitonic_sorter(1, rows) lies on every path between the merge and concat(); (J3) the for-join closure satisfies the "
    "panic-record and environment protocols (effects and panics only for joined pairs); (J4) the rows are taken from windows(2) "
    "skipping exactly the padding rows that were pushed, and the declared result size is (size a + size b) - 1; (J5) eight shape "
    "clauses of the compare-exchange network that are necessary for a bitonic sorter of arbitrary length (stride a power of two, "
    "operand order and min/max placement, direction swap, directions of the recursive calls, 2-sorter wiring).")
LEVEL_NOTE = "Trusted: rustc MIR; push_eq_circuit / push_bitonic_merger compute what their names say (not decided)."
EXPLANATION = "Functions analysed: compile::compile_bitonic_merge, the Join arm and the JoinLoop closure of the lowering, check::join_array_size, CircuitBuilder::{push_bitonic_merger, push_bitonic_sorter_inner, push_sorter}."
NOT_DECIDED = "that the network sorts (only its shape clauses J5 are decided); push_gt_circuit; ascending order of the executed pairs; exactly-once for all sizes"
ASSUMPTIONS = []

MERGE = "compile::compile_bitonic_merge"
SELF1 = ("arg", 1)
INNER = C02.INNER


def rule_j1(ctx):
    res = RuleResult("J1", "joined iff keys equal and rows come from different arrays")
    body = ctx.body(MERGE)
    cbs = [(b, t) for b, t in body.calls() if (t["func"].get("declared") or "").startswith("std::ops::FnMut::call_mut") or mir.last_seg(mir.callee(t) or "") == "call_mut"]
    if len(cbs) != 1:
        raise AnchorMissing("J1: expected one callback invocation in compile_bitonic_merge, found %d" % len(cbs))
    cb, ct = cbs[0]
    # the argument tuple (env, circuit, join_eq, binding)
    tup = None
    for (r, p) in body.trace_operand(ct["args"][1], through={}):
        if r[0] == "agg":
            tup = body.blocks[r[1]]["stmts"][r[2]]["rv"]
    if tup is None or len(tup["ops"]) != 4:
        raise AnchorMissing("J1: cannot see the callback's argument tuple")
    cond = tup["ops"][2]
    roots = body.trace_operand(cond)
    ands = [r for (r, p) in roots if r[0] == "call" and mir.last_seg(r[2] or "") == "push_and"]
    if len(ands) == 1:
        # `let mut c = eq(..); c = and(c, guard);`: the earlier definition only feeds the later one
        fed = set()
        for o in body.term(ands[0][1])["args"][1:3]:
            fed |= {r for (r, p) in body.trace_operand(o)}
        roots = {(r, p) for (r, p) in roots if r == ands[0] or r not in fed}
    if len(roots) != 1 or not ands:
        res.bad(Finding("J1", MERGE, "join condition is not an AND", "the condition handed to the callback is %s" % sorted(str(r) for r, p in roots), ct["sp"]))
        return res
    at = body.term(ands[0][1])
    parts = {"eq": None, "xor": None}
    for o in at["args"][1:3]:
        for (r, p) in body.trace_operand(o):
            if r[0] == "call":
                seg = mir.last_seg(r[2] or "")
                if seg == "push_eq_circuit":
                    parts["eq"] = r[1]
                elif seg == "push_xor":
                    parts["xor"] = r[1]
    if parts["eq"] is None:
        res.bad(Finding("J1", MERGE, "join condition without key equality", "the condition does not contain push_eq_circuit(keys)", at["sp"]))
    if parts["xor"] is None:
        res.bad(Finding("J1", MERGE, "join condition without the different-arrays guard",
                        "the condition is not and(keys equal, tag_a xor tag_b): a key repeated inside one array joins with itself", at["sp"]))
    if res.findings:
        return res
    xt = body.term(parts["xor"])
    tags = []
    for o in xt["args"][1:3]:
        src = set()
        for (r, p) in body.trace_operand(o, through={}):
            if r[0] == "call" and mir.last_seg(r[2] or "") == "remove":
                src.add(r[1])
        tags.append(src)
    if all(tags) and tags[0] != tags[1]:
        # the two removes act on the two different rows of the window
        rows = []
        for t_ in tags:
            rt = body.term(next(iter(t_)))
            rows.append(frozenset((r, tuple(p)) for (r, p) in body.trace_operand(rt["args"][0], through={"std::clone::Clone::clone": 0, "std::ops::Deref::deref": 0, "std::ops::DerefMut::deref_mut": 0, "@index": 0})))
        if rows[0] != rows[1]:
            res.ok({"condition": "push_and(push_eq_circuit(key_a, key_b), push_xor(tag_a, tag_b))", "tags": "removed from the two rows of the window"})
        else:
            res.bad(Finding("J1", MERGE, "both tags come from the same row", "tag_a xor tag_b is constant false / compares a row with itself", xt["sp"]))
    else:
        res.bad(Finding("J1", MERGE, "guard is not tag_a xor tag_b", "the xor in the condition does not combine the two removed tag bits", xt["sp"]))
    # keys: the two operands of push_eq_circuit are slices of the two rows up to the key size
    et = body.term(parts["eq"])
    k1 = body.deep_sources(et["args"][1], 3)
    k2 = body.deep_sources(et["args"][2], 3)
    if k1 and k2 and k1 != k2:
        res.ok({"keys": "prefixes of the left and of the right row"})
    else:
        res.bad(Finding("J1", MERGE, "key comparison compares a row with itself", "push_eq_circuit receives the same row twice", et["sp"]))
    # tags inserted: 0 for rows of a, 1 for rows of b
    ins = [(b, t) for b, t in body.calls() if mir.last_seg(mir.callee(t) or "") == "insert" and "Vec" in (mir.callee(t) or "") and t["args"][2]["k"] == "const"]
    vals = sorted(t["args"][2].get("val") for b, t in ins)
    if vals == [0, 1]:
        res.ok({"tags": "rows of the first array are tagged 0, rows of the second 1"})
    else:
        res.bad(Finding("J1", MERGE, "row tags", "rows are tagged with %s, expected 0 for the first and 1 for the second array" % vals, body.fn["sp"]))
    return res


def rule_j2(ctx):
    res = RuleResult("J2", "the join built-in zeroes non-matching rows and sorts on the flag before concatenating")
    f = C02.fn_of(ctx, C02.EXPR_COMPILE)
    body = ctx.body(f["id"])
    succ = body.pruned_succ({INNER: "BuiltInFnCall"})
    region = body.reachable([0], succ=succ)
    if len(region) == len(body.reachable([0])):
        raise AnchorMissing("J2: cannot isolate the Join arm")
    merges = [b for b in region if body.term(b)["k"] == "call" and mir.callee(body.term(b)) == MERGE]
    sorts = [b for b in region if body.term(b)["k"] == "call" and mir.last_seg(mir.callee(body.term(b)) or "") == "push_bitonic_sorter"]
    concats = [b for b in region if body.term(b)["k"] == "call" and mir.last_seg(mir.callee(body.term(b)) or "") == "concat"]
    if not merges or not concats:
        raise AnchorMissing("J2: the Join arm does not merge / concat")
    if not sorts:
        res.bad(Finding("J2", f["id"], "join result not sorted on the flag", "positions of the matches reveal where the common keys sit in the inputs", body.term(concats[0])["sp"]))
    else:
        w = body.path(merges[0], concats, blocked=set(sorts), succ=succ)
        st = body.term(sorts[0])
        if w:
            res.bad(Finding("J2", f["id"], "a path skips the flag sort", "the join result can be concatenated without sorting on the flag bit", body.term(concats[0])["sp"]))
        elif st["args"][1].get("val") != 1:
            res.bad(Finding("J2", f["id"], "flag sort uses %s key bits" % st["args"][1].get("val"), "the final sort must compare the single flag bit only", st["sp"]))
        else:
            res.ok({"verdict": "push_bitonic_sorter(1, rows) between merge and concat"})
    # the zeroing closure
    cls = []
    for b in region:
        for s in body.blocks[b]["stmts"]:
            if s["k"] == "assign" and s["rv"]["k"] == "aggregate" and s["rv"].get("akind") == "closure":
                cls.append(s["rv"]["closure"])
    ok = False
    for c in cls:
        cb = ctx.body(c)
        for b, t in cb.calls():
            if mir.callee(t) == C02.PUSH_MUX:
                sel = cb.trace_operand(t["args"][1])
                zero = t["args"][3]["k"] == "const" and t["args"][3].get("val") == 0
                keep = any(r[0] in ("iter", "arg", "call") for (r, p) in cb.trace_operand(t["args"][2]))
                skip1 = any(mir.last_seg(mir.callee(tt) or "") == "skip" and tt["args"][1].get("val") == 1 for _, tt in cb.calls())
                if any(r == ("arg", 4) for (r, p) in sel) and zero and keep and skip1:
                    ok = True
    if ok:
        res.ok({"verdict": "every wire but the flag := push_mux(join_eq, wire, 0)"})
    else:
        res.bad(Finding("J2", f["id"], "non-matching rows are not zeroed", "the join callback does not mux every payload wire with constant 0 under join_eq", f["sp"]))
    return res


def rule_j3(ctx):
    res = RuleResult("J3", "the for-join body obeys the panic-record and environment protocols")
    sf = C02.fn_of(ctx, C02.STMT_COMPILE)
    jl = C02._joinloop_closures(ctx, sf)
    if not jl:
        raise AnchorMissing("J3: no JoinLoop closure")
    for c in jl:
        cb = ctx.body(c)
        C02.check_protocol(res, "J3", ctx, "JoinLoop", cb, None, "join", C02.SigmaSpec(ctx), "SIGMA", "panic record")
        C02.check_protocol(res, "J3", ctx, "JoinLoop", cb, None, "join", C14.EnvSpec(ctx), ("A", C14.env_arg(cb)), "environment")
    return res


def rule_j4(ctx):
    res = RuleResult("J4", "emitted rows and declared size derive from the same two sizes")
    body = ctx.body(MERGE)
    wins = [(b, t) for b, t in body.calls() if mir.last_seg(mir.callee(t) or "") == "windows"]
    skips = [(b, t) for b, t in body.calls() if mir.last_seg(mir.callee(t) or "") == "skip" and (t["func"].get("declared") or "").startswith("std::iter::Iterator")]
    if not wins or wins[0][1]["args"][1].get("val") != 2:
        res.bad(Finding("J4", MERGE, "rows are not adjacent pairs", "the merged rows are not walked with windows(2)", body.fn["sp"]))
    else:
        res.ok({"verdict": "adjacent pairs: windows(2)"})
    # the skipped count is the number of padding rows pushed
    pad_loops = []
    for b, t in body.calls():
        if mir.last_seg(mir.callee(t) or "") == "from_elem" or (mir.last_seg(mir.callee(t) or "") == "push" and False):
            pass
    if skips:
        sk = {(r, tuple(p)) for (r, p) in body.trace_operand(skips[0][1]["args"][1], through={})}
        # the range 0..num_empty of the padding loop
        same = False
        for blk in body.blocks:
            for st in blk["stmts"]:
                if st["k"] == "assign" and st["rv"]["k"] == "aggregate" and "Range" in (st["rv"].get("adt") or "") and len(st["rv"]["ops"]) == 2:
                    end = {(r, tuple(p)) for (r, p) in body.trace_operand(st["rv"]["ops"][1], through={})}
                    if end == sk:
                        same = True
        if same:
            res.ok({"verdict": "skip(n) skips exactly the n padding rows of the padding loop"})
        else:
            res.bad(Finding("J4", MERGE, "skipped rows differ from the padding", "windows are skipped by a count that is not the number of padding rows pushed", skips[0][1]["sp"]))
    else:
        res.bad(Finding("J4", MERGE, "padding rows are not skipped", "pairs with padding rows are handed to the callback", body.fn["sp"]))
    js = ctx.fn("check::join_array_size")
    jb = ctx.body(js["id"])
    shape = []
    for blk in jb.blocks:
        for st in blk["stmts"]:
            if st["k"] == "assign" and st["rv"]["k"] == "aggregate" and st["rv"].get("adt") == "ast::ConstExprEnum":
                shape.append((st["rv"]["variant"], [o.get("val") for o in st["rv"]["ops"] if o["k"] == "const"]))
    if ("Sub", []) in shape and ("Add", []) in shape and any(v == "NumUnsigned" and 1 in c for v, c in shape):
        res.ok({"verdict": "declared size = (size a + size b) - 1"})
    else:
        res.bad(Finding("J4", js["id"], "declared join size", "join_array_size does not build Sub(Add(a, b), 1): %s" % shape, js["sp"]))
    return res


MERGER = "circuit::CircuitBuilder::push_bitonic_merger"
SORTER_INNER = "circuit::CircuitBuilder::push_bitonic_sorter::push_bitonic_sorter_inner"
SORTER2 = "circuit::CircuitBuilder::push_sorter"
POW2 = ("next_power_of_two", "checked_next_power_of_two", "pow", "ilog2", "leading_zeros", "is_power_of_two")


def _keys(body, op, depth=3):
    return {(r, tuple(p)) for (r, p) in body.deep_sources(op, depth)}


def _is_pow2_derived(body, op):
    for (r, p) in body.deep_sources(op, 4):
        if r[0] == "call" and mir.last_seg(r[2] or "") in POW2:
            return True
        if r[0] == "rv" and r[1] == "binop":
            rv = body.blocks[r[2]]["stmts"][r[3]]["rv"]
            if rv["op"] in ("Shl", "ShlUnchecked") and rv["l"]["k"] == "const" and rv["l"].get("val") == 1:
                return True
    return False


def rule_j5(ctx):
    """Shape of the compare-exchange network (necessary conditions of a bitonic sorter for arbitrary lengths)."""
    res = RuleResult("J5", "shape of the bitonic network: power-of-two stride, min/max placement, directions of the recursion")
    body = ctx.body(MERGER)
    arr = ("arg", 4)
    # N1: stride
    splits = [(b, t) for b, t in body.calls() if mir.last_seg(mir.callee(t) or "").startswith("split_at")]
    sorters = [(b, t) for b, t in body.calls() if mir.callee(t) == SORTER2]
    if len(splits) != 1 or len(sorters) != 1:
        raise AnchorMissing("J5: push_bitonic_merger no longer has one compare-exchange call and one split (%d, %d)" % (len(sorters), len(splits)))
    sb, st_ = splits[0]
    stride = st_["args"][1]
    if not _is_pow2_derived(body, stride):
        res.bad(Finding("J5", MERGER, "stride is not a power of two", "the partner distance / split point of the merger is not derived from a power-of-two computation "
                        "(a bitonic merger for arbitrary lengths needs the greatest power of two below the length)", st_["sp"]))
    else:
        res.ok({"clause": "N1", "verdict": "split point derives from a power-of-two computation"})
    skeys = {(r, tuple(p_)) for (r, p_) in body.trace_operand(stride)}
    # index places into the array
    reads, writes = [], []
    for b, blk in enumerate(body.blocks):
        if blk["cleanup"]:
            continue
        for st in blk["stmts"]:
            if st["k"] != "assign":
                continue
            for (pl, lst) in ((st["place"], writes), (st["rv"].get("place") if st["rv"]["k"] == "ref" else None, reads)):
                if pl and pl["l"] == 4 and any(e["k"] == "index" for e in pl["p"]):
                    idx = [e for e in pl["p"] if e["k"] == "index"][0]["local"]
                    ik = _keys(body, {"k": "copy", "place": {"l": idx, "p": []}})
                    lst.append((b, st, "far" if skeys and skeys <= ik else "near", ik))
    bt, tt = sorters[0]

    # operands of the compare-exchange: (near, far)
    kinds = []
    for a in tt["args"][2:4]:
        k = set()
        for (b, st, kind, ik) in reads:
            if st["place"]["l"] in _ref_chain(body, a):
                k.add(kind)
        kinds.append(k)
    if kinds == [{"near"}, {"far"}]:
        res.ok({"clause": "N2", "verdict": "compare-exchange of rows [i] and [i + stride]"})
    else:
        res.bad(Finding("J5", MERGER, "compare-exchange operands", "the merger must compare row [i] with row [i + stride] in this order; found %s" % kinds, tt["sp"]))
    # results: .0 (min) -> near, .1 (max) -> far;  swapped exactly when !ascending
    swaps = [(b, t) for b, t in body.calls() if mir.callee(t) == "std::mem::swap"]

    def placed_under(ascending):
        """which component of the compare-exchange result is stored at [i] / [i + stride] on the paths on which `ascending` has the
        given value (switches on the parameter pruned; a value local assigned in both branches contributes the pruned branch only)"""
        def succ(x):
            tx = body.term(x)
            if tx and tx["k"] == "switch" and tx["discr"]["k"] in ("copy", "move") and any(r == ("arg", 3) and not p for (r, p) in body.trace_operand(tx["discr"])):
                zero_t = [tg for v, tg in tx["targets"] if v == 0]
                neg = any(r[0] == "rv" and r[1] == "unop" for (r, p) in body.trace(tx["discr"]["place"], through={}))
                take_zero = (not ascending) != neg
                return zero_t[:1] if take_zero else [y for y in body.succs(x) if y not in zero_t]
            return body.succs(x)
        region = set(body.reachable([0], succ=succ))
        out = {}
        for (wb, st, kind, ik) in writes:
            if wb not in region or st["rv"]["k"] != "use":
                continue
            comps = set()
            work = [(st["rv"]["op"], ())]
            seen = set()
            while work:
                o, path = work.pop()
                if o["k"] not in ("copy", "move"):
                    continue
                path = tuple(e["name"] for e in o["place"]["p"] if e["k"] == "field") + path
                key = (o["place"]["l"], path)
                if key in seen or len(seen) > 200:
                    continue
                seen.add(key)
                # definitions of the local inside the pruned region only (a local assigned in both branches of `if ascending`)
                for d in body.defs().get(o["place"]["l"], []):
                    if d[1] not in region:
                        continue
                    if d[0] == "call" and d[1] == bt and path:
                        comps.add(path[0])
                    elif d[0] == "assign" and d[3]["rv"]["k"] == "use":
                        work.append((d[3]["rv"]["op"], path))
                    elif d[0] == "assign" and d[3]["rv"]["k"] == "aggregate" and path and path[0].isdigit() and int(path[0]) < len(d[3]["rv"]["ops"]):
                        work.append((d[3]["rv"]["ops"][int(path[0])], path[1:]))
            out[kind] = comps
        return out
    up, down = placed_under(True), placed_under(False)
    if not swaps and up == {"near": {"0"}, "far": {"1"}} and down == {"near": {"1"}, "far": {"0"}}:
        res.ok({"clause": "N3", "verdict": "ascending: min -> [i], max -> [i + stride]"})
        res.ok({"clause": "N4", "verdict": "descending: max -> [i], min -> [i + stride] (selected by `ascending`, no swap call)"})
    else:
        placed = {}
        for (b, st, kind, ik) in writes:
            for (r, p) in body.trace_operand(st["rv"]["op"]) if st["rv"]["k"] == "use" else ():
                if r[0] == "call" and r[1] == bt and p:
                    placed[kind] = p[0]
        if placed == {"near": "0", "far": "1"}:
            res.ok({"clause": "N3", "verdict": "min -> [i], max -> [i + stride]"})
        else:
            res.bad(Finding("J5", MERGER, "min / max placement", "the smaller row must be stored at [i] and the larger at [i + stride] (before the direction swap); found %s" % placed, tt["sp"]))
        sw_ok = False
        for b, t in swaps:
            # guarded by ascending == false
            for x in range(body.n):
                tx = body.term(x)
                if tx and tx["k"] == "switch" and tx["discr"]["k"] in ("copy", "move") and any(r == ("arg", 3) and not p for (r, p) in body.trace_operand(tx["discr"])):
                    zero_t = [tg for v, tg in tx["targets"] if v == 0]
                    if zero_t and C02._dominated_by_edges(body, {(x, zero_t[0])}, b) and zero_t[0] != tx.get("otherwise"):
                        sw_ok = True
        if sw_ok:
            res.ok({"clause": "N4", "verdict": "min and max are swapped exactly on the descending edge"})
        else:
            res.bad(Finding("J5", MERGER, "direction swap", "min and max are not swapped on (exactly) the `!ascending` edge", tt["sp"]))
    # recursion: both halves, same direction
    recs = [(b, t) for b, t in body.calls() if mir.callee(t) == MERGER]
    halves = set()
    dir_ok = True
    for b, t in recs:
        for (r, p) in body.trace_operand(t["args"][3]):
            if r[0] == "call" and r[1] == sb and p:
                halves.add(p[0])
        if not any(r == ("arg", 3) and not p for (r, p) in body.trace_operand(t["args"][2])) or len(body.trace_operand(t["args"][2])) != 1:
            dir_ok = False
    if halves == {"0", "1"} and len(recs) == 2 and dir_ok:
        res.ok({"clause": "N5", "verdict": "both halves are merged recursively in the same direction"})
    else:
        res.bad(Finding("J5", MERGER, "recursion of the merger", "the merger must recurse into both halves of the split with the unchanged direction; halves %s, direction unchanged %s" % (sorted(halves), dir_ok), body.fn["sp"]))
    # sorter: lower half opposite direction, upper half same direction, then merge the whole input in that direction
    sbod = ctx.body(SORTER_INNER)
    ssplit = [(b, t) for b, t in sbod.calls() if mir.last_seg(mir.callee(t) or "").startswith("split_at")]
    srec = [(b, t) for b, t in sbod.calls() if mir.callee(t) == SORTER_INNER]
    smer = [(b, t) for b, t in sbod.calls() if mir.callee(t) == MERGER]
    if len(ssplit) != 1 or len(srec) != 2 or len(smer) != 1:
        raise AnchorMissing("J5: push_bitonic_sorter_inner no longer splits once, recurses twice and merges once")

    def direction(op):
        d = set()
        for (r, p) in sbod.trace_operand(op):
            if r == ("arg", 3) and not p:
                d.add("same")
            elif r[0] == "rv" and r[1] == "unop":
                rv = sbod.blocks[r[2]]["stmts"][r[3]]["rv"]
                if rv.get("op") == "Not" and any(rr == ("arg", 3) and not pp for (rr, pp) in sbod.trace_operand(rv.get("x") or rv.get("op_") or rv.get("operand") or {"k": "const"})):
                    d.add("opposite")
                else:
                    d.add("?")
            else:
                d.add("?")
        return next(iter(d)) if len(d) == 1 else "?"
    got = {}
    for b, t in srec:
        for (r, p) in sbod.trace_operand(t["args"][3]):
            if r[0] == "call" and r[1] == ssplit[0][0] and p:
                got[p[0]] = direction(t["args"][2])
    whole = any(r == ("arg", 4) and not p for (r, p) in sbod.trace_operand(smer[0][1]["args"][3]))
    mdir = direction(smer[0][1]["args"][2])
    if got == {"0": "opposite", "1": "same"} and whole and mdir == "same":
        res.ok({"clause": "N6", "verdict": "sort(lower, !dir); sort(upper, dir); merge(all, dir)"})
    else:
        res.bad(Finding("J5", SORTER_INNER, "directions of the bitonic sorter", "expected sort(lower, !dir), sort(upper, dir), merge(whole, dir); found halves %s, merge of the whole input %s in direction %s" % (got, whole, mdir), sbod.fn["sp"]))
    # the 2-sorter: gt(x, y) selects; (min, max) = condswap(gt, x_i, y_i)
    b2 = ctx.body(SORTER2)
    gts = [(b, t) for b, t in b2.calls() if mir.last_seg(mir.callee(t) or "") == "push_gt_circuit"]
    cs = [(b, t) for b, t in b2.calls() if mir.last_seg(mir.callee(t) or "") == "push_condswap"]
    if len(gts) == 1 and not cs:
        return _j5_sorter2_adaptor(ctx, res, b2, gts[0])
    if len(gts) != 1 or len(cs) != 1:
        raise AnchorMissing("J5: push_sorter no longer has one comparison and one conditional swap")

    def side(body_, op):
        out = set()
        for (r, p) in body_.deep_sources(op, 3):
            if r in (("arg", 3), ("arg", 4)):
                out.add("x" if r == ("arg", 3) else "y")
        return out
    g = gts[0][1]
    c = cs[0][1]
    sel_ok = any(r[0] == "call" and r[1] == gts[0][0] for (r, p) in b2.trace_operand(c["args"][1]))
    if [side(b2, g["args"][2]), side(b2, g["args"][3])] == [{"x"}, {"y"}] and sel_ok and [side(b2, c["args"][2]), side(b2, c["args"][3])] == [{"x"}, {"y"}]:
        res.ok({"clause": "N7", "verdict": "swap selector = gt(x, y); condswap(gt, x_i, y_i)"})
    else:
        res.bad(Finding("J5", SORTER2, "2-sorter operands", "the 2-sorter must swap x_i, y_i under gt(x, y) (operands in this order)", c["sp"]))
    # returned tuple (min, max) = (vector of .0, vector of .1)
    pushes = {}
    for b, t in b2.calls():
        if mir.last_seg(mir.callee(t) or "") == "push" and "Vec" in (mir.callee(t) or ""):
            for (r, p) in b2.trace_operand(t["args"][1]):
                if r[0] == "call" and r[1] == cs[0][0] and p:
                    for (r2, p2) in b2.trace_operand(t["args"][0]):
                        pushes[p[0]] = r2
    ret = {}
    for blk in b2.blocks:
        for st in blk["stmts"]:
            if st["k"] == "assign" and st["place"]["l"] == 0 and st["rv"]["k"] == "aggregate" and len(st["rv"]["ops"]) == 2:
                for i, o in enumerate(st["rv"]["ops"]):
                    for (r2, p2) in b2.trace_operand(o):
                        ret[i] = r2
    if pushes.get("0") is not None and ret.get(0) == pushes.get("0") and ret.get(1) == pushes.get("1") and pushes.get("0") != pushes.get("1"):
        res.ok({"clause": "N8", "verdict": "push_sorter returns (rows of condswap.0, rows of condswap.1)"})
    else:
        res.bad(Finding("J5", SORTER2, "2-sorter results", "the first returned row must collect the first results of the conditional swap, the second the second", b2.fn["sp"]))
    return res


def _j5_sorter2_adaptor(ctx, res, b2, gt):
    """N7 / N8 for the 2-sorter written as `x.iter().zip(y.iter()).map(|(&x, &y)| self.push_condswap(gt, x, y)).unzip()`."""
    gb, g = gt
    found = []
    for c in sorted(ctx.cg.closures_of.get(b2.id, ())):
        cb = ctx.body(c)
        for b, t in cb.calls():
            if mir.last_seg(mir.callee(t) or "") == "push_condswap":
                found.append((c, cb, b, t))
    if len(found) != 1:
        raise AnchorMissing("J5: push_sorter no longer has one comparison and one conditional swap (also not inside one closure)")
    cid, cb, xb, c = found[0]
    site = ctx.closure_site(cid)
    items = ctx.closure_item_sources(cid)
    if not site or not items:
        raise AnchorMissing("J5: cannot see where the closure of push_sorter is built and what it ranges over")
    caps = site[1]["ops"]

    def parent_side(op):
        return {"x" if r == ("arg", 3) else "y" for (r, p) in b2.deep_sources(op, 3) if r in (("arg", 3), ("arg", 4))}

    def side_in_closure(op):
        out = set()
        for (r, p) in cb.trace_operand(op):
            if r == ("arg", 2) and p and (p[0],) in items[1]:
                out |= parent_side(items[1][(p[0],)])
            elif r == ("arg", 2) and () in items[1]:
                out |= parent_side(items[1][()])
        return out
    sel_ok = False
    for (r, p) in cb.trace_operand(c["args"][1]):
        if r == ("arg", 1) and p and p[0].isdigit() and int(p[0]) < len(caps):
            if any(r2[0] == "call" and r2[1] == gb for (r2, p2) in b2.trace_operand(caps[int(p[0])])):
                sel_ok = True
    if [parent_side(g["args"][2]), parent_side(g["args"][3])] == [{"x"}, {"y"}] and sel_ok and [side_in_closure(c["args"][2]), side_in_closure(c["args"][3])] == [{"x"}, {"y"}]:
        res.ok({"clause": "N7", "verdict": "swap selector = gt(x, y); condswap(gt, x_i, y_i) in the map closure"})
    else:
        res.bad(Finding("J5", SORTER2, "2-sorter operands", "the 2-sorter must swap x_i, y_i under gt(x, y) (operands in this order)", c["sp"]))
    # the closure answers with the pair as condswap returned it, `unzip` puts the first components in the first row
    as_is = all(d[0] == "call" and d[1] == xb for d in cb.defs().get(0, [])) and bool(cb.defs().get(0))
    maps = [(b, t) for b, t in b2.calls() if t["func"].get("declared") == "std::iter::Iterator::map" and len(t["args"]) == 2 and t["args"][1]["k"] in ("copy", "move") and
            any(r[0] == "agg" and b2.blocks[r[1]]["stmts"][r[2]]["rv"] is site[1] for (r, p) in b2.trace(t["args"][1]["place"], through={}))]
    unz = [(b, t) for b, t in b2.calls() if t["func"].get("declared") == "std::iter::Iterator::unzip" and maps and
           any(r[:2] == ("call", maps[0][0]) for (r, p) in b2.trace_operand(t["args"][0], through={}))]
    ret_ok = bool(unz) and (unz[0][1]["dest"]["l"] == 0 or any(d[0] == "assign" and d[3]["rv"]["k"] == "use" and any(r[:2] == ("call", unz[0][0]) for (r, p) in b2.trace_operand(d[3]["rv"]["op"]))
                                                              for d in b2.defs().get(0, [])))
    if as_is and ret_ok:
        res.ok({"clause": "N8", "verdict": "push_sorter returns the unzipped (condswap.0, condswap.1) pairs"})
    else:
        res.bad(Finding("J5", SORTER2, "2-sorter results", "the first returned row must collect the first results of the conditional swap, the second the second", b2.fn["sp"]))
    return res


def json_key(x):
    import json as _j
    return _j.dumps(x, sort_keys=True)


def blk_index(body, b, st):
    return body.blocks[b]["stmts"].index(st)


def _ref_chain(body, op):
    """locals an operand is a (re)borrow / deref of"""
    out = set()
    work = [op["place"]["l"]] if op["k"] in ("copy", "move") else []
    while work:
        l = work.pop()
        if l in out:
            continue
        out.add(l)
        for d in body.defs().get(l, []):
            if d[0] == "assign":
                rv = d[3]["rv"]
                if rv["k"] in ("ref", "copyforderef") :
                    work.append(rv["place"]["l"])
                elif rv["k"] == "use" and rv["op"]["k"] in ("copy", "move"):
                    work.append(rv["op"]["place"]["l"])
            elif d[0] == "call":
                t = d[3]
                if mir.last_seg(mir.callee(t) or "") in ("deref", "deref_mut", "as_slice", "as_ref") and t["args"] and t["args"][0]["k"] in ("copy", "move"):
                    work.append(t["args"][0]["place"]["l"])
    return out


def rule_j6(ctx):
    """Layout of the rows handed to the merger."""
    res = RuleResult("J6", "rows are bitonic on (key, tag): padding first, a ascending, b reversed; one key width for tag position, sort width and comparison")
    body = ctx.body(MERGE)

    def keys(op):
        return {(r, tuple(p)) for (r, p) in body.trace_operand(op)}
    ins = [(b, t) for b, t in body.calls() if mir.last_seg(mir.callee(t) or "") == "insert" and "Vec" in (mir.callee(t) or "")]
    rem = [(b, t) for b, t in body.calls() if mir.last_seg(mir.callee(t) or "") == "remove" and "Vec" in (mir.callee(t) or "")]
    mer = [(b, t) for b, t in body.calls() if mir.last_seg(mir.callee(t) or "") == "push_bitonic_merger"]
    if len(ins) != 2 or len(rem) != 2 or len(mer) != 1:
        raise AnchorMissing("J6: expected two tag insertions, two tag removals and one merger call (%d, %d, %d)" % (len(ins), len(rem), len(mer)))
    pos = [keys(t["args"][1]) for _, t in ins + rem]
    if all(k == pos[0] for k in pos) and pos[0]:
        res.ok({"clause": "tag position", "verdict": "inserted and removed at the same index (the key width) in both rows"})
    else:
        res.bad(Finding("J6", MERGE, "tag bit inserted and removed at different positions", "the index of the tag insertion and of its removal do not derive from the same value: a payload bit is taken for the tag", rem[0][1]["sp"]))
    # sort width = key width + 1
    mb, mt = mer[0]
    w_ok = False
    for (r, p) in body.trace_operand(mt["args"][1], through={}):
        if r[0] == "rv" and r[1] == "binop":
            rv = body.blocks[r[2]]["stmts"][r[3]]["rv"]
            if rv["op"].startswith("Add"):
                for me, other in ((rv["l"], rv["r"]), (rv["r"], rv["l"])):
                    if keys(me) == pos[0] and other["k"] == "const" and other.get("val") == 1:
                        w_ok = True
    if w_ok:
        res.ok({"clause": "sort width", "verdict": "the merger compares key width + 1 bits (key and tag)"})
    else:
        res.bad(Finding("J6", MERGE, "merger does not compare key and tag", "push_bitonic_merger must be given key width + 1 bits so that the tag takes part in the ordering", mt["sp"]))
    if mt["args"][2]["k"] == "const" and mt["args"][2].get("val") in (1, True):
        res.ok({"clause": "direction", "verdict": "merged ascending"})
    else:
        res.bad(Finding("J6", MERGE, "merger direction", "rows are laid out for an ascending merge (padding zeros first) but the merger is not asked for ascending order", mt["sp"]))
    # tags: constants 0 (first array) and 1 (second array); the second array's rows are pushed in reverse
    rows = keys(mt["args"][3])
    tagged = {}
    for b, t in ins:
        src = {r[1] for (r, p) in body.trace_operand(t["args"][0]) if r[0] == "call" and mir.last_seg(r[2] or "").startswith("compile")}
        tagged[t["args"][2].get("val")] = (b, src)
    if set(tagged) != {0, 1} or tagged[0][1] == tagged[1][1]:
        res.bad(Finding("J6", MERGE, "row tags", "rows of the two arrays must be tagged with the constants 0 and 1 respectively", ins[0][1]["sp"]))
        return res
    revs = [(b, t) for b, t in body.calls() if mir.last_seg(mir.callee(t) or "") == "rev"]
    order = {}
    for tag, (b, src) in tagged.items():
        lp = [l for l in body.loops() if b in l["body"]]
        if not lp:
            res.bad(Finding("J6", MERGE, "rows are not pushed in a loop", "cannot see the order of the rows", body.term(b)["sp"]))
            return res
        lp = min(lp, key=lambda l: len(l["body"]))
        # is the loop's iterator a reversed range?
        nxt = [x for x in lp["body"] if body.term(x) and body.term(x)["k"] == "call" and mir.last_seg(mir.callee(body.term(x)) or "") == "next"]
        reversed_ = any("Rev" in (body.term(x)["args"][0].get("place", {}).get("ty", "")) or "Rev" in (mir.callee(body.term(x)) or "") for x in nxt)
        order[tag] = (lp["header"], reversed_)
    if order[0][1] is False and order[1][1] is True:
        res.ok({"clause": "bitonic layout", "verdict": "rows of the first array ascending, rows of the second array reversed"})
    else:
        res.bad(Finding("J6", MERGE, "rows are not laid out as a bitonic sequence", "exactly the rows of the second array must be pushed in reverse order (first ascending, second descending); found reversed: a=%s b=%s" % (order[0][1], order[1][1]),
                        body.term(tagged[1][0])["sp"]))
    # padding before a before b
    pads = [b for b, t in body.calls() if mir.last_seg(mir.callee(t) or "") == "push" and keys(t["args"][0]) == rows and
            any(r[0] == "call" and mir.last_seg(r[2] or "") == "from_elem" for (r, p) in body.trace_operand(t["args"][1]))]
    if pads and all(body.dominates(pb_, order[0][0]) or body.path(pb_, [order[0][0]]) for pb_ in pads) and not any(body.path(order[0][0], [pb_]) for pb_ in pads) \
            and body.path(order[0][0], [order[1][0]]) and not body.path(order[1][0], [order[0][0]]):
        res.ok({"clause": "order of the blocks", "verdict": "padding rows, then the first array, then the second"})
    else:
        res.bad(Finding("J6", MERGE, "padding / a / b are not pushed in this order", "zero padding must come first, then the first array, then the (reversed) second array", body.fn["sp"]))
    # each row is cut back to its own array's element width
    trs = [(b, t) for b, t in body.calls() if mir.last_seg(mir.callee(t) or "") == "truncate"]
    widths = {}
    for b, t in body.calls():
        if mir.last_seg(mir.callee(t) or "") == "unwrap_array_size":
            for (r, p) in body.trace_operand(t["args"][0]):
                if r[0] == "arg":
                    widths[r[1]] = b
    good = 0
    for (rb, rt), (tb, tt) in zip(sorted(rem), sorted(trs)):
        row = keys(rt["args"][0]) & keys(tt["args"][0])
        if row:
            good += 1
    if len(trs) == 2 and good == 2 and keys(trs[0][1]["args"][1]) != keys(trs[1][1]["args"][1]):
        res.ok({"clause": "truncation", "verdict": "each row is cut back to its own array's element width"})
    else:
        res.bad(Finding("J6", MERGE, "rows are not cut back to their own element widths", "after removing the tag each row must be truncated to the element width of the array it came from", (trs[0][1] if trs else mt)["sp"]))
    return res


DROPPERS = ("chunks_exact", "chunks_exact_mut", "array_chunks", "step_by", "skip", "take", "skip_while", "take_while", "filter", "windows", "nth", "rchunks_exact")


def _j7_fold(ctx, res, fid, body, fold):
    """The same conjunction written as `x.iter().zip(y).fold(1, |acc, (&x, &y)| and(acc, eq(x, y)))`."""
    fb, ft = fold
    clos = ft["args"][2]
    cids = [body.blocks[r[1]]["stmts"][r[2]]["rv"].get("closure") for (r, p) in body.trace(clos["place"], through={}) if r[0] == "agg"] if clos["k"] in ("copy", "move") else []
    if len(cids) != 1 or not cids[0] or not ctx.has_fn(cids[0]):
        raise AnchorMissing("J7: the fold in push_eq_circuit is not given a closure of this function")
    cb = ctx.body(cids[0])
    site = ctx.closure_item_sources(cids[0])
    item = site[1] if site else {}
    which = {}
    for pre, op in item.items():
        which[pre] = {r[1] for (r, p) in body.deep_sources(op, 3) if r in (("arg", 2), ("arg", 3))}
    ceqs = [(b, t) for b, t in cb.calls() if mir.last_seg(mir.callee(t) or "") == "push_eq"]
    cands = [(b, t) for b, t in cb.calls() if mir.last_seg(mir.callee(t) or "") == "push_and"]
    if len(ceqs) != 1 or not cands:
        raise AnchorMissing("J7: the fold closure of push_eq_circuit does not compare with one push_eq and conjoin with push_and")
    eb, et = ceqs[0]
    sides = []
    for a in et["args"][1:3]:
        ss = set()
        for (r, p) in cb.trace_operand(a):
            if r == ("arg", 3) and p and (p[0],) in which:
                ss |= which[(p[0],)]
        sides.append(ss)
    if sides[0] and sides[1] and sides[0] != sides[1] and len(sides[0]) == 1 and len(sides[1]) == 1:
        res.ok({"clause": "positions", "verdict": "push_eq(x[i], y[i]) over the zipped keys (fold closure)"})
    else:
        res.bad(Finding("J7", fid, "key positions are not compared pairwise", "push_eq gets operands from %s" % sides, et["sp"]))
    good = []
    for b, t in cands:
        srcs = [cb.trace_operand(a) for a in t["args"][1:3]]
        has_eq = [any(r[0] == "call" and r[1] == eb for (r, p) in sset) for sset in srcs]
        has_acc = [any(r == ("arg", 2) and not p for (r, p) in sset) for sset in srcs]
        if (has_eq[0] and has_acc[1]) or (has_eq[1] and has_acc[0]):
            good.append(b)
    returned = bool(good) and all((d[0] == "call" and d[1] in good) or
                                  (d[0] == "assign" and d[3]["rv"]["k"] == "use" and any(r[0] == "call" and r[1] in good for (r, p) in cb.trace_operand(d[3]["rv"]["op"])))
                                  for d in cb.defs().get(0, []))
    skip = cb.must_pass(set(good)) if good else [0]
    out_ok = ft["dest"]["l"] == 0 or any(d[0] == "assign" and d[3]["rv"]["k"] == "use" and any(r[:2] == ("call", fb) for (r, p) in body.trace_operand(d[3]["rv"]["op"]))
                                         for d in body.defs().get(0, []))
    if good and returned and not skip and out_ok:
        res.ok({"clause": "conjunction", "verdict": "the fold closure ands every position's comparison into the accumulator, the fold's result is returned"})
    else:
        res.bad(Finding("J7", fid, "a position's comparison can be left out of the conjunction", "every step of the fold must and its comparison into the accumulator that is returned", et["sp"]))
    return res


def rule_j7(ctx):
    """Key equality compares every bit position: eq(x[i], y[i]) for all i, all conjoined."""
    res = RuleResult("J7", "push_eq_circuit compares every bit position of the two keys and conjoins all comparisons")
    fid = "circuit::CircuitBuilder::push_eq_circuit"
    body = ctx.body(fid)
    ids = [fid] + sorted(ctx.cg.closures_of.get(fid, ()))
    drops = []
    for i_ in ids:
        bb = ctx.body(i_)
        for b, t in bb.calls():
            if mir.last_seg(mir.callee(t) or "") in DROPPERS and not bb.blocks[b]["cleanup"]:
                drops.append((i_, t))
    for (i_, t) in drops:
        res.bad(Finding("J7", fid, "bit positions can be left out of the key comparison",
                        "%s can drop elements (a leftover chunk, a skipped prefix ...): keys that differ only in the dropped positions compare as equal and rows with different keys are joined" % mir.last_seg(mir.callee(t)),
                        t["sp"]))
    eqs = [(b, t) for b, t in body.calls() if mir.last_seg(mir.callee(t) or "") == "push_eq"]
    fold = [(b, t) for b, t in body.calls() if t["func"].get("declared") == "std::iter::Iterator::fold" and len(t["args"]) == 3]
    if not eqs and len(fold) == 1 and not drops:
        return _j7_fold(ctx, res, fid, body, fold[0])
    if len(eqs) != 1:
        if not drops:
            raise AnchorMissing("J7: push_eq_circuit no longer compares the positions with one push_eq call in a loop")
        return res
    eb, et = eqs[0]
    loops = [lp for lp in body.loops() if eb in lp["body"]]
    if not loops:
        raise AnchorMissing("J7: push_eq is not called in a loop")
    lp = min(loops, key=lambda l: len(l["body"]))
    # operands: items of x and y (zip), not twice the same side
    sides = []
    for a in et["args"][1:3]:
        ss = set()
        for (r, p) in body.deep_sources(a, 3):
            if r in (("arg", 2), ("arg", 3)):
                ss.add(r[1])
        sides.append(ss)
    if sides[0] and sides[1] and sides[0] != sides[1] and len(sides[0]) == 1 and len(sides[1]) == 1:
        res.ok({"clause": "positions", "verdict": "push_eq(x[i], y[i]) over the zipped keys"})
    else:
        res.bad(Finding("J7", fid, "key positions are not compared pairwise", "push_eq gets operands from %s" % sides, et["sp"]))
    # the linear fold: acc = and(acc, eq) in the same iteration, acc returned
    folds = []
    for b in lp["body"]:
        t = body.term(b)
        if t and t["k"] == "call" and mir.last_seg(mir.callee(t) or "") == "push_and":
            srcs = [body.trace_operand(a) for a in t["args"][1:3]]
            has_eq = [any(r[0] == "call" and r[1] == eb for (r, p) in sset) for sset in srcs]
            has_self = [any(r[0] == "call" and r[1] == b for (r, p) in sset) for sset in srcs]
            if (has_eq[0] and has_self[1]) or (has_eq[1] and has_self[0]):
                folds.append(b)
    if folds:
        latches = [b for b in lp["body"] if lp["header"] in body.succs(b)]
        skip = body.path(lp["header"], latches, blocked=set(folds), succ=lambda x: [y for y in body.succs(x) if y in lp["body"] and not body.blocks[y]["cleanup"]])
        ret_ok = False
        for blk in body.blocks:
            for st in blk["stmts"]:
                if st["k"] == "assign" and st["place"]["l"] == 0 and not st["place"]["p"] and st["rv"]["k"] == "use":
                    if any(r[0] == "call" and r[1] in folds for (r, p) in body.trace_operand(st["rv"]["op"])):
                        ret_ok = True
        if not skip and ret_ok:
            res.ok({"clause": "conjunction", "verdict": "every position's comparison is and-ed into the returned accumulator"})
        else:
            res.bad(Finding("J7", fid, "a position's comparison can be left out of the conjunction", "every iteration must and its comparison into the accumulator that is returned", et["sp"]))
    elif not drops:
        raise AnchorMissing("J7: the comparisons are conjoined in a way this rule does not know (no element-dropping adaptor was found)")
    return res


def run(ctx):
    return ctx.run_rules([rule_j1, rule_j2, rule_j3, rule_j4, rule_j5, rule_j6, rule_j7])
