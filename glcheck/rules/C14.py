"""C14 - no shared mutable state; control flow merges variables right.

E1  the environment and the panic record are merged side by side under the same condition
E2  Env::push / Env::pop are balanced on every path; merged environments have equal depth
E3  assignments write back with assign_mut, bindings bind in the current scope
E4  conditionally executed children are lowered on private copies of the environment and merged (protocol)
E5  Env stores values; nothing outside env.rs reaches into it mutably
E6  for-each bodies are lowered on the one shared environment, in order
E7  call arguments are lowered before any parameter of the callee is bound (by-value, caller's scope)
E9  in every arm of the expression / statement lowering, the environment effects of every child that is lowered reach the
    environment at the arm's exit (no child runs on a copy that is thrown away)
E8  mux_envs re-creates every scope and re-binds every binding as a fresh vector of push_mux(condition, a[i], b[i]);
    no scope or binding can be skipped and the result's storage is never written directly
E11 the parser places every parsed sub-expression into the tree once: sugar never clones an operand into a second evaluated position
E12 the lowering lowers every child expression of a node once: no child is cloned, none is lowered inside a loop over something else
E13 every unrolled loop iteration is lowered in a scope of its own (push / pop inside the iteration)
E14 a function body is lowered on the top-level scope plus its parameters (callee: Env::outermost_scope; entry function: parameters in a scope above the consts)
E15 an assignment reads the assigned variable after its index and value expressions were lowered (their own writes to it survive)
E17 Env::get / Env::assign_mut walk the scopes innermost first and stop at the first hit
E16 operators, casts and accesses lower every operand on every path (no value-based shortcut skips an operand)
E10 cross-reference: the accessor copy of the array read tree agrees with the expression copy (C01-V8)
"""
from .. import mir, protocol
from ..core import AnchorMissing, Finding, RuleResult
from . import C02

PROPERTY = "C14"
TECHNIQUE = ("abstract interpretation of the clone / compile / mux_envs / install protocol on MIR (variant-pruned paths), "
             "scope-depth dataflow, who-may-touch and arm tables")
LEVEL_TEXT = (
    "Decides the structural necessary conditions of both sentences. Copies independent: Env hands out owned clones "
    "only (signature facts), its storage is touched only inside env.rs and read-only by mux_envs, function calls bind "
    "arguments in a pushed scope that is popped on every path (depth dataflow), assignment writes back with assign_mut "
    "and bindings use the current scope. Control flow merges variables right: for if / match / && / || / for-join an "
    "abstract interpreter over the variant-pruned MIR paths shows that every conditionally executed child is lowered "
    "on a private clone of the environment, that the environment at exit contains the effects of every child (nothing "
    "lost) but none of them unconditionally, that then/else never share a merge operand, that each match clause starts "
    "from a fresh clone, and that the environment is merged under the same condition wire as the panic record; for-each "
    "bodies use the one shared environment; call arguments are all lowered before any parameter of the callee is bound (E7); mux_envs itself re-creates every scope and "
    "re-binds every binding as a fresh vector of push_mux(condition, bit of a, bit of b), no iteration can skip that, and nothing outside "
    "env.rs writes the storage of an Env (E8, E5). Not decided: the then/else operand order of mux_envs, and the mux tree of "
    "indexed assignment (value level, belongs to C01)."
    " Since the hunter rounds (DESIGN.md 10.7 / 10.8) also: the parser never places a parsed operand into the tree twice (E11; one known finding: the index of a compound assignment), the lowering neither clones nor loops over a child (E12) and lowers every operand, condition, scrutinee, statement expression and callee body on every path (E16); every unrolled loop iteration has a scope of its own (E13); function bodies are lowered on the top-level scope plus their parameters (E14); an assignment reads the assigned variable after its index / value expressions (E15); Env::get / assign_mut walk the scopes innermost first and stop at the first hit (E17). E8 also decides the implication 'if mux_envs copies the outermost scope instead of merging it, nothing but consts may be bound there' (call parameters get a scope of their own).")
LEVEL_NOTE = ("Trusted: rustc MIR and callee resolution; callee lowering functions obey the same protocol (each is "
              "analysed itself). The type checker checks function bodies in a fresh environment (C17), which is what makes "
              "a callee's assign_mut unable to reach a caller's binding.")
EXPLANATION = (
    "E4/E1 run glcheck.protocol with the Env specification over TypedExpr::compile pruned to If / Match / "
    "ShortCircuitAnd / ShortCircuitOr and over the JoinLoop closure; E2 is a path-sensitive depth dataflow over every "
    "function of compile.rs and circuit.rs that calls Env::push/pop; E3/E6 use variant-pruned must-pass-through; E5 scans "
    "every MIR place that projects into Env's storage.")
NOT_DECIDED = "operand order (then/else) of mux_envs and push_mux; the dynamic-index read/modify/write mux tree of VarAssign"
ASSUMPTIONS = ["callees that receive the environment obey the same protocol (checked per function)"]

ENV_T = "env::Env<std::vec::Vec<usize>>"
MUX_ENVS = "circuit::CircuitBuilder::mux_envs"
ENV_PUSH = "env::Env::<T>::push"
ENV_POP = "env::Env::<T>::pop"
ENV_GET = "env::Env::<T>::get"
ENV_LET = "env::Env::<T>::let_in_current_scope"
ENV_ASSIGN = "env::Env::<T>::assign_mut"
SELF1 = ("arg", 1)
INNER = C02.INNER


class EnvSpec(protocol.Spec):
    rec_type = ENV_T
    implicit = None
    peek = ()
    replace = ()
    mux = (MUX_ENVS,)
    mux_operands = (2, 3)

    def __init__(self, ctx):
        for n in (ENV_LET, ENV_ASSIGN, ENV_PUSH, ENV_POP, MUX_ENVS):
            if n not in ctx.fns:
                raise AnchorMissing("%s not found" % n)
        self.reach = ctx.cg.reach_set({ENV_LET, ENV_ASSIGN})

    def is_mutator(self, body, t):
        names = mir.callee_names(t)
        if any(n in (ENV_PUSH, ENV_POP, ENV_GET, MUX_ENVS) for n in names):
            return None
        for a in t["args"]:
            if a["k"] in ("copy", "move") and a["place"]["ty"].startswith("&mut " + ENV_T):
                if not names or any(n in self.reach for n in names):
                    return a
        return None


def env_arg(body):
    for l in range(1, body.arg_count + 1):
        if body.locals[l]["ty"].startswith("&mut " + ENV_T):
            return l
    raise AnchorMissing("%s has no &mut Env parameter" % body.id)


def rule_e4(ctx):
    res = RuleResult("E4", "environment protocol around conditional code: private copies, nothing lost, untaken code invisible")
    spec = EnvSpec(ctx)
    f = C02.fn_of(ctx, C02.EXPR_COMPILE)
    body = ctx.body(f["id"])
    k = env_arg(body)
    results = {}
    for name, _fs, assume, kind in C02.CONSTRUCTS:
        succ = body.pruned_succ(assume)
        results[name] = C02.check_protocol(res, "E4", ctx, name, body, succ, kind, spec, ("A", k), "environment")
    sf = C02.fn_of(ctx, C02.STMT_COMPILE)
    jl = C02._joinloop_closures(ctx, sf)
    if not jl:
        raise AnchorMissing("E4: the JoinLoop arm passes no closure to compile_bitonic_merge")
    for c in jl:
        cb = ctx.body(c)
        results["JoinLoop"] = C02.check_protocol(res, "E4", ctx, "JoinLoop", cb, None, "join", spec, ("A", env_arg(cb)), "environment")
    # every other caller of mux_envs must be one of the constructs above
    known = {f["id"]} | set(jl)
    extra = sorted({fn["id"] for fn in ctx.facts["fns"] if "mir" in fn and fn["id"] not in known and
                    any(mir.callee(t) == MUX_ENVS for _, t in ctx.body(fn["id"]).calls())})
    if extra and not res.findings:
        raise AnchorMissing("E4: %s merges environments but is not one of the constructs this rule analyses" % extra)
    return res


def _on_callee_env(body, t):
    """The call works on an environment made by Env::outermost_scope (a callee's environment) and does not lower a child of the node."""
    envs = [a for a in t["args"] if a["k"] in ("copy", "move") and "env::Env<" in a["place"]["ty"]]
    if not envs:
        return False
    roots = body.trace(envs[0]["place"], through={})
    if not roots or not all(r[0] == "call" and str(r[2]).endswith("outermost_scope") and not p for (r, p) in roots):
        return False
    for a in t["args"]:
        if a["k"] in ("copy", "move") and a is not envs[0] and ("Expr<" in a["place"]["ty"] or "Stmt<" in a["place"]["ty"] or "Pattern<" in a["place"]["ty"]):
            if any(r == C02.SELF1 for (r, p) in body.trace(a["place"])):
                return False
    return True


def rule_e9(ctx):
    """Every child is lowered on an environment whose changes survive: the caller's own, or a copy that is merged back."""
    res = RuleResult("E9", "no construct lowers a child on a copy of the environment that is then thrown away")
    spec = EnvSpec(ctx)
    total = 0
    for (fspec, adt) in ((C02.EXPR_COMPILE, "ast::ExprEnum"), (C02.STMT_COMPILE, "ast::StmtEnum")):
        f = C02.fn_of(ctx, fspec)
        body = ctx.body(f["id"])
        k = env_arg(body)
        for v in ctx.adt(adt)["variants"]:
            succ = body.pruned_succ({C02.INNER: v["name"]})
            region = body.reachable([0], succ=succ)
            if len(region) == len(body.reachable([0])):
                continue
            it = protocol.Interp(body, spec, succ=succ, observe=("A", k))
            try:
                r = it.run()
            except Exception as e:  # budget exceeded: this arm is not decided
                res.note("%s::%s: not analysed (%s)" % (adt, v["name"], e))
                continue
            if not r.mutators:
                continue
            total += 1
            bad = False
            for (val, x) in r.finals:
                if val[0] == "U":
                    continue
                rs = protocol.reach(val, r)
                for s_ in sorted(s_ for s_ in x if not isinstance(s_, tuple) and s_ in r.mutators and s_ not in rs):
                    t = r.mutators[s_]
                    if _on_callee_env(body, t):
                        # the body of a called function is not a child of the call: it is lowered on an environment of its own
                        # (top-level scope + parameters), and `a callee's mutations are invisible to the caller`
                        continue
                    res.bad(Finding("E9", f["id"], "%s: %s lowered on an environment that is thrown away" % (v["name"], mir.last_seg(mir.callee(t) or "?")),
                                    "assignments made while lowering this child are not contained in the environment at the end of the %s arm: the child runs on a copy that is neither merged "
                                    "back (mux_envs) nor installed" % v["name"], t["sp"]))
                    bad = True
            if not bad:
                res.ok({"construct": "%s::%s" % (mir.last_seg(adt), v["name"]), "children_lowered": len(r.mutators), "verdict": "every child's environment effects reach the exit"})
    if total < 10 and not res.findings:
        raise AnchorMissing("E9: analysed only %d arms that lower children" % total)
    return res


def rule_e1(ctx):
    res = RuleResult("E1", "environment and panic record are merged together, under the same condition wire")
    f = C02.fn_of(ctx, C02.EXPR_COMPILE)
    body = ctx.body(f["id"])
    targets = [(name, body, body.pruned_succ(assume)) for name, _fs, assume, kind in C02.CONSTRUCTS]
    sf = C02.fn_of(ctx, C02.STMT_COMPILE)
    for c in C02._joinloop_closures(ctx, sf):
        cb = ctx.body(c)
        targets.append(("JoinLoop", cb, None))
    for name, b, succ in targets:
        region = b.reachable([0], succ=succ)
        mp = [(x, b.term(x)) for x in sorted(region) if b.term(x)["k"] == "call" and mir.callee(b.term(x)) == C02.MUX_PANIC]
        me = [(x, b.term(x)) for x in sorted(region) if b.term(x)["k"] == "call" and mir.callee(b.term(x)) == MUX_ENVS]
        if not mp and not me:
            res.bad(Finding("E1", b.id, "%s: no merge" % name, "conditional construct merges neither the panic record nor the environment", b.fn["sp"]))
            continue
        if not me:
            res.bad(Finding("E1", b.id, "%s: panic record merged, environment not" % name,
                            "mux_panic without a mux_envs twin: assignments in the conditionally executed code are applied unconditionally", mp[0][1]["sp"]))
            continue
        if not mp:
            res.bad(Finding("E1", b.id, "%s: environment merged, panic record not" % name,
                            "mux_envs without a mux_panic twin", me[0][1]["sp"]))
            continue
        cp = set()
        for _, t in mp:
            cp |= {(r, p) for (r, p) in b.trace_operand(t["args"][1])}
        ce = set()
        for _, t in me:
            ce |= {(r, p) for (r, p) in b.trace_operand(t["args"][1])}
        if cp == ce:
            # both merges must also agree on which operand carries the conditionally executed children
            kind = {"If": "if", "Match": "match", "ShortCircuitAnd": "sc", "ShortCircuitOr": "sc", "JoinLoop": "join"}[name]
            sig = protocol.Interp(b, C02.SigmaSpec(ctx), succ=succ, observe="SIGMA").run()
            envr = protocol.Interp(b, EnvSpec(ctx), succ=succ, observe=("A", env_arg(b))).run()
            cond_sites = {s_ for s_, t_ in sig.mutators.items() if C02._classify(kind, b, t_)} | \
                         {s_ for s_, t_ in envr.mutators.items() if C02._classify(kind, b, t_)}

            def sides(r):
                out = set()
                for site, pairs in r.mux_ops.items():
                    for (va, vb) in pairs:
                        a = frozenset(x for x in protocol.reach(va, r) if x in cond_sites)
                        bb_ = frozenset(x for x in protocol.reach(vb, r) if x in cond_sites)
                        out.add((a, bb_))
                return out
            s_sig, s_env = sides(sig), sides(envr)
            # compare as sets of (true-operand children, false-operand children), ignoring children that do not touch one of the two records
            common = set(sig.mutators) & set(envr.mutators)

            def restrict(ss):
                return {(frozenset(a & common), frozenset(b_ & common)) for (a, b_) in ss}
            if restrict(s_sig) == restrict(s_env):
                res.ok({"construct": name, "condition_origin": sorted(str(x) for x in cp)[:3],
                        "operand_roles": "panic record and environment carry the conditional children in the same operand"})
            else:
                res.bad(Finding("E1", b.id, "%s: merge operands in different roles" % name,
                                "mux_panic and mux_envs disagree about which operand (selected when the condition is set / clear) holds the effects of the conditionally executed code",
                                me[0][1]["sp"]))
        else:
            res.bad(Finding("E1", b.id, "%s: different merge conditions" % name,
                            "mux_panic is selected by %s but mux_envs by %s" % (sorted(map(str, cp)), sorted(map(str, ce))), me[0][1]["sp"]))
    return res


def rule_e2(ctx):
    res = RuleResult("E2", "Env::push / Env::pop balanced on every path; merged environments have equal depth")
    n_push = 0
    for f in ctx.facts["fns"]:
        if "mir" not in f or not (f["sp"][0].endswith("compile.rs") or f["sp"][0].endswith("circuit.rs")):
            continue
        body = ctx.body(f["id"])
        pushes = [b for b, t in body.calls() if mir.callee(t) in (ENV_PUSH, ENV_POP)]
        if not pushes:
            continue
        if f["id"] == MUX_ENVS:
            continue  # builds a fresh Env scope by scope; not a lexical scope discipline
        n_push += len([b for b, t in body.calls() if mir.callee(t) == ENV_PUSH])
        spec = EnvSpec(ctx)
        it = protocol.Interp(body, spec)
        # path-sensitive depth dataflow; configuration = sorted tuple of (loc, depth)
        seen = {}
        work = [(0, ())]
        bad = []
        steps = 0
        while work:
            b, cfg = work.pop()
            if (b, cfg) in seen:
                continue
            seen[(b, cfg)] = True
            steps += 1
            if steps > 60000:
                bad.append(("budget", body.fn["sp"], "depth analysis budget exceeded"))
                break
            d = dict(cfg)
            blk = body.blocks[b]
            if blk["cleanup"]:
                continue
            for st in blk["stmts"]:
                if st["k"] != "assign":
                    continue
                pl = st["place"]
                if ENV_T in pl["ty"] and not pl["ty"].startswith("&"):
                    dst = it.resolve_loc(pl)
                    rv = st["rv"]
                    if dst is not None and rv["k"] == "use" and rv["op"]["k"] in ("copy", "move"):
                        src = it.resolve_loc(rv["op"]["place"])
                        d[dst] = d.get(src, 0)
            t = blk["term"]
            if t and t["k"] == "call":
                cal = mir.callee(t)
                names = mir.callee_names(t)
                if cal in (ENV_PUSH, ENV_POP):
                    loc = it.resolve_loc(t["args"][0]["place"])
                    d[loc] = d.get(loc, 0) + (1 if cal == ENV_PUSH else -1)
                    if abs(d[loc]) > 6:
                        bad.append(("unbounded", t["sp"], "scope depth grows without bound (push/pop inside a loop not paired)"))
                        continue
                elif "std::clone::Clone::clone" in names and ENV_T in t["dest"]["ty"]:
                    dst = it.resolve_loc(t["dest"])
                    src = it.resolve_loc(t["args"][0]["place"])
                    d[dst] = d.get(src, 0)
                elif cal == MUX_ENVS:
                    la = it.resolve_loc(t["args"][2]["place"])
                    lb = it.resolve_loc(t["args"][3]["place"])
                    if d.get(la, 0) != d.get(lb, 0):
                        bad.append(("mux-depth", t["sp"], "mux_envs operands have different scope depth (%d vs %d): mux_envs panics" % (d.get(la, 0), d.get(lb, 0))))
                    dst = it.resolve_loc(t["dest"])
                    d[dst] = d.get(la, 0)
            if t and t["k"] == "return":
                for loc, v in d.items():
                    if isinstance(loc, tuple) and loc[0] == "A" and v != 0:
                        bad.append(("unbalanced", t["sp"], "a path returns with the caller's environment %d scope(s) %s than at entry" % (abs(v), "deeper" if v > 0 else "shallower")))
                continue
            # installs `*env = X`
            for st in blk["stmts"]:
                if st["k"] == "assign" and ENV_T in st["place"]["ty"] and any(e["k"] == "deref" for e in st["place"]["p"]):
                    loc = it.resolve_loc(st["place"])
                    rv = st["rv"]
                    if rv["k"] == "use" and rv["op"]["k"] in ("copy", "move"):
                        src = it.resolve_loc(rv["op"]["place"])
                        if d.get(src, 0) != d.get(loc, 0):
                            bad.append(("install-depth", st["sp"], "an environment of depth %+d is installed over one of depth %+d" % (d.get(src, 0), d.get(loc, 0))))
                        d[loc] = d.get(src, 0)
            ncfg = tuple(sorted(((k, v) for k, v in d.items() if k is not None), key=lambda kv: repr(kv[0])))
            for s in body.succs(b):
                work.append((s, ncfg))
        uniq = {}
        for kind, sp, msg in bad:
            uniq.setdefault((kind, msg), sp)
        if uniq:
            for (kind, msg), sp in uniq.items():
                res.bad(Finding("E2", f["id"], "scope %s" % kind, msg, sp))
        else:
            res.ok({"function": f["id"], "push_pop_calls": len(pushes), "verdict": "balanced on every path"})
    if (n_push < 5) and not res.findings:
        raise AnchorMissing("E2: expected the Env::push sites of compile.rs (6 on the pinned tree), found %d" % n_push)
    return res


def rule_e3(ctx):
    res = RuleResult("E3", "assignment writes back with assign_mut; let / let mut / identifier patterns bind in the current scope")
    sf = C02.fn_of(ctx, C02.STMT_COMPILE)
    sb = ctx.body(sf["id"])
    pf = C02.fn_of(ctx, C02.PAT_COMPILE)
    pb = ctx.body(pf["id"])
    table = [
        ("StmtEnum::VarAssign", sb, {INNER: "VarAssign"}, ENV_ASSIGN, ENV_LET),
        ("StmtEnum::LetMut", sb, {INNER: "LetMut"}, ENV_LET, ENV_ASSIGN),
        ("PatternEnum::Identifier", pb, {(SELF1, ("0",)): "Identifier"}, ENV_LET, ENV_ASSIGN),
    ]
    for label, body, assume, must, mustnot in table:
        succ = body.pruned_succ(assume)
        region = body.reachable([0], succ=succ)
        if len(region) < 3 or len(region) == len(body.reachable([0])):
            raise AnchorMissing("E3: cannot isolate the %s arm (pruned region %d blocks)" % (label, len(region)))
        via = {b for b in region if body.term(b)["k"] == "call" and mir.callee(body.term(b)) == must}
        w = body.must_pass(via, succ=succ)
        wrong = [b for b in region if body.term(b)["k"] == "call" and mir.callee(body.term(b)) == mustnot]
        # the written location must be the caller's environment (param), not a copy
        if w:
            res.bad(Finding("E3", body.id, "%s must end in %s" % (label, mir.last_seg(must)), "a path through the arm does not call %s" % must, body.term(w[-1])["sp"], witness=["bb%d" % x for x in w[-8:]]))
        elif wrong:
            res.bad(Finding("E3", body.id, "%s uses %s" % (label, mir.last_seg(mustnot)), "the arm binds with %s" % mustnot, body.term(wrong[0])["sp"]))
        else:
            ok = True
            for b in via:
                t = body.term(b)
                roots = body.trace_operand(t["args"][0], through=protocol.DEREF_ONLY)
                if not all(r[0] == "arg" for (r, p) in roots):
                    res.bad(Finding("E3", body.id, "%s writes a copy" % label, "the binding is written to a copy of the environment, not to the caller's", t["sp"]))
                    ok = False
            if ok:
                res.ok({"arm": label, "binds_with": mir.last_seg(must), "sites": len(via)})
    return res


def rule_e5(ctx):
    res = RuleResult("E5", "Env stores values by value; its storage is only touched in env.rs (read-only in mux_envs)")
    n = 0
    for f in ctx.facts["fns"]:
        if "mir" not in f:
            continue
        in_env = f["sp"][0].endswith("env.rs")
        body = ctx.body(f["id"])
        for b, blk in enumerate(body.blocks):
            if blk["cleanup"]:
                continue
            items = []
            for st in blk["stmts"]:
                if st["k"] == "assign":
                    items.append((st["place"], True, st["sp"]))
                    rv = st["rv"]
                    if "place" in rv:
                        items.append((rv["place"], rv["k"] == "ref" and rv.get("mut"), st["sp"]))
                    for key in ("op", "l", "r", "x"):
                        if isinstance(rv.get(key), dict) and "place" in rv[key]:
                            items.append((rv[key]["place"], False, st["sp"]))
            for pl, is_write, sp in items:
                # projection `.0` applied to a value of type Env<..>
                ty = body.locals[pl["l"]]["ty"]
                cur = ty
                touched = False
                # walk the projection keeping the type of the prefix is not available per element; use the field name
                for i, e in enumerate(pl["p"]):
                    if e["k"] == "field" and e["name"] == "0":
                        # type before this projection
                        pre = {"l": pl["l"], "p": pl["p"][:i]}
                        pre_ty = _place_ty(body, pre)
                        if pre_ty and pre_ty.lstrip("&mut ").startswith("env::Env<"):
                            touched = True
                if not touched:
                    continue
                n += 1
                if in_env:
                    continue
                if f["id"] == MUX_ENVS and not is_write:
                    continue
                res.bad(Finding("E5", f["id"], "Env storage touched outside env.rs", "Env.0 is %s here" % ("written" if is_write else "read"), sp))
    # API: nothing hands out a mutable reference into an Env; get returns an owned value
    for f in ctx.facts["fns"]:
        if f["kind"] in ("fn", "assoc_fn") and f["sp"][0].endswith("env.rs"):
            out = f.get("output", "")
            if out.startswith("&mut") or "&mut" in out:
                res.bad(Finding("E5", f["id"], "mutable reference into Env", "returns %s" % out, f["sp"]))
            elif mir.last_seg(f["id"]) == "get":
                if out.startswith("std::option::Option<&"):
                    res.bad(Finding("E5", f["id"], "get returns a reference", "Env::get returns %s: callers could alias a binding" % out, f["sp"]))
                else:
                    res.ok({"function": f["id"], "returns": out})
    if (n < 5) and not res.findings:
        raise AnchorMissing("E5: expected projections into Env.0 in env.rs and mux_envs, found %d" % n)
    res.obligations += 1
    res.discharged += 0 if any(x.rule == "E5" for x in res.findings) else 1
    res.note("projections into Env.0 seen: %d" % n)
    return res


def _place_ty(body, pre):
    """Type string of a place prefix: recorded by the extractor only for whole places, so recompute from the
    statement that has exactly this prefix if any, else fall back to the local's type for empty projections."""
    if not pre["p"]:
        return body.locals[pre["l"]]["ty"]
    only_deref = all(e["k"] == "deref" for e in pre["p"])
    if only_deref:
        t = body.locals[pre["l"]]["ty"]
        for _ in pre["p"]:
            if t.startswith("&mut "):
                t = t[5:]
            elif t.startswith("&"):
                t = t[1:].lstrip()
        return t
    return None


def rule_e8(ctx):
    """mux_envs merges every binding of every scope, bit by bit, under the condition."""
    res = RuleResult("E8", "mux_envs: every scope is re-created and every binding of it is a bitwise mux(condition, a, b)")
    body = ctx.body(MUX_ENVS)
    lets = [(b, t) for b, t in body.calls() if mir.callee(t) == ENV_LET]
    pushes = [(b, t) for b, t in body.calls() if mir.callee(t) == ENV_PUSH]
    if not lets or len(pushes) != 1:
        raise AnchorMissing("E8: expected one Env::push and a let_in_current_scope in mux_envs (%d, %d)" % (len(pushes), len(lets)))
    pb, pt = pushes[0]
    result = {(r, tuple(p)) for (r, p) in body.trace_operand(pt["args"][0])}
    if not all(r[0] == "agg" for (r, p) in result):
        # the result starts as a copy of the outermost scope of an operand (and the walk skips that scope): sound exactly when
        # nothing that a branch can assign to lives in the outermost scope - the consts do, parameters must not
        if not all(r[0] == "call" and str(r[2]).endswith("outermost_scope") for (r, p) in result):
            raise AnchorMissing("E8: the environment mux_envs pushes scopes on is neither a fresh one nor the outermost scope of an operand")
        eb = ctx.body(C02.fn_of(ctx, C02.EXPR_COMPILE)["id"])
        bad_lets = []
        for b, t in eb.calls():
            if mir.callee(t) != ENV_LET or eb.blocks[b]["cleanup"]:
                continue
            env_roots = eb.trace_operand(t["args"][0], through={})
            if any(r[0] == "call" and str(r[2]).endswith("outermost_scope") for (r, p) in env_roots):
                pushed = [pb2 for pb2, pt2 in eb.calls() if mir.callee(pt2) == ENV_PUSH and eb.trace_operand(pt2["args"][0], through={}) == env_roots and eb.dominates(pb2, b)]
                if not pushed:
                    bad_lets.append(t)
        if bad_lets:
            res.bad(Finding("E8", MUX_ENVS, "the outermost scope is not merged although call parameters are bound in it",
                            "mux_envs copies the outermost scope from one operand instead of merging it, and the lowering of a call binds the callee's parameters directly in the outermost "
                            "scope of the callee's environment (no scope of their own): an assignment to a `mut` parameter inside an if / match of the called function ignores the condition",
                            bad_lets[0]["sp"]))
            return res
        res.ok({"clause": "outermost scope", "verdict": "copied from an operand; only consts live there (call parameters get a scope of their own)"})
    # scope i of the result is merged from scope i of both operands: a binding is looked up in the scope map of the pair that is
    # being merged, never through Env::get (which answers with the innermost visible binding of the name, i.e. another scope's)
    for b, t in body.calls():
        if (mir.callee(t) or "").endswith("Env::<T>::get") and not body.blocks[b]["cleanup"]:
            res.bad(Finding("E8", MUX_ENVS, "binding looked up through Env::get while scopes are merged",
                            "the operand binding is taken from the innermost scope that binds the name instead of the scope being merged: after an if / match inside a block that shadows x, "
                            "the outer x holds the inner x's value", t["sp"]))

    def muxed_value(lt):
        """None if the value bound by this call is a fresh vector of push_mux(condition, a-bit, b-bit), else (message, span)"""
        val = {(r, tuple(p)) for (r, p) in body.trace_operand(lt["args"][2])}
        fresh = val and all(r[0] == "call" and mir.last_seg(r[2] or "") in ("from_elem", "with_capacity", "new") for (r, p) in val)
        if not fresh:
            return ("the value bound in the result is not a fresh vector filled with push_mux results (it is copied from an operand)", lt["sp"])
        stores = []
        for b, t in body.calls():
            if mir.last_seg(mir.callee(t) or "") in ("index_mut", "push") and {(r, tuple(p)) for (r, p) in body.trace_operand(t["args"][0])} == val:
                if mir.last_seg(mir.callee(t)) == "push":
                    stores.append((t["args"][1], t["sp"]))
                else:
                    d = t["dest"]["l"]
                    for blk in body.blocks:
                        for st in blk["stmts"]:
                            if st["k"] == "assign" and st["place"]["l"] == d and any(e["k"] == "deref" for e in st["place"]["p"]) and st["rv"]["k"] == "use":
                                stores.append((st["rv"]["op"], st["sp"]))
        if not stores:
            return ("the vector bound in the result is never filled", lt["sp"])
        for (op, sp) in stores:
            good = False
            for (r, p) in body.trace_operand(op):
                if r[0] == "call" and mir.callee(body.term(r[1])) == C02.PUSH_MUX:
                    mt = body.term(r[1])
                    sel = any(rr == ("arg", 2) and not pp for (rr, pp) in body.trace_operand(mt["args"][1]))
                    a_ok = any(rr == ("arg", 3) for (rr, pp) in body.deep_sources(mt["args"][2], 3))
                    b_ok = any(rr == ("arg", 4) for (rr, pp) in body.deep_sources(mt["args"][3], 3))
                    a_not_b = not any(rr == ("arg", 4) for (rr, pp) in body.trace_operand(mt["args"][2])) and not any(rr == ("arg", 3) for (rr, pp) in body.trace_operand(mt["args"][3]))
                    good = sel and a_ok and b_ok and a_not_b
            if not good:
                return ("a bit of the merged binding is not push_mux(condition, bit of a's binding, bit of b's binding) in this order", sp)
        return None
    good_lets = set()
    for lb, lt in lets:
        if {(r, tuple(p)) for (r, p) in body.trace_operand(lt["args"][0])} != result:
            res.bad(Finding("E8", MUX_ENVS, "binding goes into a different environment", "let_in_current_scope does not act on the fresh result environment", lt["sp"]))
            continue
        why = muxed_value(lt)
        if why:
            res.bad(Finding("E8", MUX_ENVS, "a binding is merged without the condition", why[0], why[1]))
        else:
            good_lets.add(lb)
            res.ok({"clause": "bits", "site": "line %d" % lt["sp"][1], "verdict": "bound value = fresh vector of push_mux(condition, a[i], b[i])"})
    if not good_lets:
        return res
    loops = body.loops()
    scope_lps = [l for l in loops if pb in l["body"]]
    if not scope_lps:
        raise AnchorMissing("E8: mux_envs does not push scopes in a loop")
    scope_lp = min(scope_lps, key=lambda l: len(l["body"]))
    bind_lps = [l for l in loops if (good_lets & l["body"]) and pb not in l["body"]]
    if not bind_lps:
        raise AnchorMissing("E8: the binding loop of mux_envs is not nested in the scope loop")
    bind_lp = max(bind_lps, key=lambda l: len(l["body"]))

    def within(lp):
        return lambda b: [x for x in body.succs(b) if x in lp["body"] and not body.blocks[x]["cleanup"]]

    def latches(lp):
        return [b for b in lp["body"] if lp["header"] in body.succs(b)]
    w1 = body.path(scope_lp["header"], latches(scope_lp), blocked={pb}, succ=within(scope_lp))
    w2 = body.path(scope_lp["header"], latches(scope_lp), blocked={bind_lp["header"]}, succ=within(scope_lp))
    if w1 or w2:
        res.bad(Finding("E8", MUX_ENVS, "a scope can be skipped", "an iteration of the scope loop can end without re-creating the scope (Env::push) and visiting its bindings (blocks %s): "
                        "assignments to the variables of that scope ignore the condition" % (w1 or w2), pt["sp"]))
    else:
        res.ok({"clause": "scopes", "verdict": "every iteration pushes a scope on the result and runs the binding loop"})
    w3 = body.path(bind_lp["header"], latches(bind_lp), blocked=good_lets, succ=within(bind_lp))
    if w3:
        res.bad(Finding("E8", MUX_ENVS, "a binding can be skipped", "an iteration of the binding loop can end without binding the muxed value in the result (blocks %s)" % w3, body.term(sorted(good_lets)[0])["sp"]))
    else:
        res.ok({"clause": "bindings", "verdict": "every binding of the first environment is re-bound in the result"})
    return res


def rule_e6(ctx):
    res = RuleResult("E6", "for-each bodies are lowered on the shared environment (no per-iteration copy)")
    sf = C02.fn_of(ctx, C02.STMT_COMPILE)
    sb = ctx.body(sf["id"])
    succ = sb.pruned_succ({INNER: "ForEachLoop"})
    region = sb.reachable([0], succ=succ)
    spec = EnvSpec(ctx)
    k = env_arg(sb)
    clones = [b for b in region if sb.term(b)["k"] == "call" and "std::clone::Clone::clone" in mir.callee_names(sb.term(b)) and ENV_T in sb.term(b)["dest"]["ty"]]
    if clones:
        res.bad(Finding("E6", sf["id"], "ForEachLoop clones the environment", "loop iterations are lowered on a copy: later iterations / code after the loop do not see the body's assignments", sb.term(clones[0])["sp"]))
    n = 0
    it = protocol.Interp(sb, spec)
    for b in sorted(region):
        t = sb.term(b)
        if t["k"] == "call":
            m = spec.is_mutator(sb, t)
            if m is not None:
                n += 1
                loc = it.resolve_loc(m["place"])
                if loc != ("A", k):
                    res.bad(Finding("E6", sf["id"], "ForEachLoop child lowered on another environment", "%s does not receive the caller's environment" % mir.callee(t), t["sp"]))
    if n < 2:
        raise AnchorMissing("E6: expected pattern and body lowering calls in the ForEachLoop arm, found %d" % n)
    if not res.findings:
        res.ok({"arm": "StmtEnum::ForEachLoop", "lowering_calls_on_shared_env": n})
    return res


def rule_e7(ctx):
    res = RuleResult("E7", "call arguments are lowered in the caller's scope, before any parameter is bound")
    f = C02.fn_of(ctx, C02.EXPR_COMPILE)
    body = ctx.body(f["id"])
    succ = body.pruned_succ({INNER: "FnCall"})
    region = body.reachable([0], succ=succ)
    if len(region) == len(body.reachable([0])):
        raise AnchorMissing("E7: cannot isolate the FnCall arm")
    args = []
    for b in region:
        t = body.term(b)
        if t["k"] == "call" and C02._is_compile_call(ctx, t):
            if any(r == SELF1 and tuple(p[:3]) == ("inner", "as FnCall", "1") for (r, p) in C02._receiver_paths(body, t)):
                args.append(b)
    binds = [b for b in region if body.term(b)["k"] == "call" and mir.callee(body.term(b)) == ENV_LET]
    bodies = [b for b in region if body.term(b)["k"] == "call" and mir.callee(body.term(b)) == "compile::compile_block"]
    if not args or not binds or not bodies:
        raise AnchorMissing("E7: the FnCall arm does not lower arguments / bind parameters / lower the body (%d/%d/%d)" % (len(args), len(binds), len(bodies)))
    late = [(bb, a) for bb in binds for a in args if body.path(bb, [a], succ=succ) is not None]
    if late:
        res.bad(Finding("E7", f["id"], "an argument is lowered after a parameter was bound",
                        "a later argument can see (and be shadowed by) an earlier parameter of the callee: arguments are not evaluated in the caller's scope",
                        body.term(late[0][1])["sp"]))
    else:
        res.ok({"arm": "FnCall", "verdict": "all %d argument lowering site(s) precede the %d parameter binding site(s)" % (len(args), len(binds))})
    early = [bd for bd in bodies for bb in binds if body.path(bd, [bb], succ=succ) is not None]
    if early:
        res.bad(Finding("E7", f["id"], "the callee body is lowered before its parameters are bound", "a parameter binding can follow the body", body.term(early[0])["sp"]))
    else:
        res.ok({"arm": "FnCall", "verdict": "parameters are bound before the body is lowered"})
    return res


def rule_e10(ctx):
    """Cross-reference: the base element read for `a[i].f = v` is the element a read of a[i] yields (C01-V8), else sibling fields of a[i] change."""
    from . import C01
    res = RuleResult("E10", "assignment through an array accessor reads the same element a read would (cross-reference to C01-V8)")
    v8 = C01.rule_v8(ctx)
    for x in v8.findings:
        res.bad(Finding("E10", x.fn, x.site, x.message, x.span))
    if not v8.findings:
        res.ok({"verdict": "C01-V8 holds"})
    return res


NO_COPY = {k: v for k, v in mir.TRANSPARENT.items() if k not in ("std::clone::Clone::clone", "std::borrow::ToOwned::to_owned", "std::option::Option::<&T>::cloned", "std::iter::Iterator::cloned")}
AST_NODE = lambda ty: "<()>" in ty          # every node type of the untyped syntax tree


def _overlap(p, q):
    n = min(len(p), len(q))
    return tuple(p[:n]) == tuple(q[:n])


def rule_e11(ctx):
    """Syntactic sugar must not copy an operand: every parsed sub-expression may be placed into the tree once.  A clone of an
    expression that ends up in the result next to the expression it was cloned from is evaluated twice by the lowering
    (assignments and failing operations inside it happen twice)."""
    from . import C07
    res = RuleResult("E11", "the parser places every parsed sub-expression into the syntax tree once (no operand is cloned into a second evaluated position)")
    n = 0
    for f in C07.front_fns(ctx, ("parse.rs",)):
        body = ctx.body(f["id"])
        for b, t in body.calls():
            if t["func"].get("declared") != "std::clone::Clone::clone" or body.blocks[b]["cleanup"]:
                continue
            a0 = t["args"][0]
            if a0["k"] not in ("copy", "move") or "Expr<()>" not in a0["place"]["ty"]:
                continue
            n += 1
            src = body.trace(a0["place"])
            # (1) does the clone reach the result?
            t_clone = mir.forward_taint(body, {t["dest"]["l"]}, carries=AST_NODE)
            if 0 not in t_clone:
                res.ok({"function": f["id"], "clone": "line %d" % t["sp"][1], "verdict": "the copy does not reach the result"})
                continue
            # (2) other uses of (a container of) the original that reach the result, on a common path with the clone
            seeds = {}
            for bb, blk in enumerate(body.blocks):
                if blk["cleanup"]:
                    continue
                users = []
                for st in blk["stmts"]:
                    if st["k"] == "assign" and st["rv"]["k"] in ("use", "aggregate"):
                        ops = [st["rv"]["op"]] if st["rv"]["k"] == "use" else st["rv"]["ops"]
                        users.append((ops, st["place"]["l"], st["sp"]))
                tt = blk.get("term")
                if tt and tt["k"] == "call" and bb != b:
                    users.append((tt["args"], tt["dest"]["l"], tt["sp"]))
                for ops, dest, sp in users:
                    for o in ops:
                        if o["k"] != "move" or not AST_NODE(o["place"]["ty"]):
                            continue
                        if any(r == r2 and _overlap(p, p2) for (r, p) in body.trace(o["place"], through=NO_COPY) for (r2, p2) in src):
                            # the value must still be the one that was cloned: no re-definition of the moved local in between
                            chain, cur = [o["place"]["l"]], o["place"]["l"]
                            while len(chain) < 6:
                                ds = body.defs().get(cur, [])
                                if len(ds) == 1 and ds[0][0] == "assign" and ds[0][3]["rv"]["k"] == "use" and ds[0][3]["rv"]["op"]["k"] in ("copy", "move") \
                                        and not ds[0][3]["rv"]["op"]["place"]["p"]:
                                    cur = ds[0][3]["rv"]["op"]["place"]["l"]
                                    chain.append(cur)
                                else:
                                    break
                            kills = {d[1] for l in chain for d in body.defs().get(l, []) if d[0] in ("assign", "call")} - {bb, b}
                            if bb == b or body.path(b, [bb], blocked=kills):
                                seeds.setdefault(dest, sp)
            dup = None
            common = {x for x in range(body.n) if x == b or b in body.reachable([x]) or x in body.reachable([b])}
            for dest, sp in sorted(seeds.items()):
                if dest in t_clone and dest != 0:
                    continue        # the same flow as the clone itself
                # the flow of the original, not through the clone call and only along paths shared with it
                if dest == 0 or 0 in mir.forward_taint(body, {dest}, carries=AST_NODE, blocks=common, skip_calls={b}):
                    dup = sp
                    break
            if dup:
                what = sorted("%s%s" % (mir.last_seg(str(r[2])) if r[0] == "call" else "%s %s" % (r[0], r[1]), "".join("." + str(x) for x in p[-2:])) for (r, p) in src)
                res.bad(Finding("E11", f["id"], "operand (%s) cloned into a second evaluated position" % ", ".join(what),
                                "a parsed expression is cloned and both the copy and the original become part of the statement / expression that is returned: the lowering "
                                "evaluates it twice, so an assignment or a failing operation inside it happens twice", t["sp"],
                                witness=["original placed at line %d" % dup[1]]))
            else:
                res.ok({"function": f["id"], "clone": "line %d" % t["sp"][1], "verdict": "the original is dropped, only the copy is placed"})
    if n < 2 and not res.findings:
        raise AnchorMissing("E11: expected the expression clones of parse.rs (3 on the pinned tree after 71e8dfa), found %d" % n)
    return res


def rule_e12(ctx):
    """The lowering evaluates a child of a node once: it neither clones a child expression (to lower the copy as well) nor lowers
    the same child inside a loop."""
    res = RuleResult("E12", "the lowering lowers every child expression of a node once (no child is cloned or lowered repeatedly)")
    n = 0
    for f in ctx.fns.values():
        if f["sp"][0] != "src/compile.rs" or not f.get("mir"):
            continue
        body = ctx.body(f["id"])
        node_args = [("arg", i) for i in range(1, body.arg_count + 1) if "<ast::Type>" in body.locals[i]["ty"] and "Program" not in body.locals[i]["ty"]]
        if not node_args:
            continue
        loops = body.loops()
        for b, t in body.calls():
            if body.blocks[b]["cleanup"] or not t["args"] or t["args"][0]["k"] not in ("copy", "move"):
                continue
            ty0 = t["args"][0]["place"]["ty"]
            if t["func"].get("declared") == "std::clone::Clone::clone" and "Expr<ast::Type>" in ty0 and "Vec<" not in ty0:
                n += 1
                src = body.trace(t["args"][0]["place"])
                if any(r in node_args for (r, p) in src):
                    res.bad(Finding("E12", f["id"], "child expression cloned in the lowering",
                                    "a child of the node is cloned; lowering the copies evaluates the child more than once (`({ x = x + 1u8; x }) * 3u8` incremented x three times)", t["sp"]))
                else:
                    res.ok({"function": f["id"], "clone": "line %d" % t["sp"][1], "verdict": "not a child of the node (built by the lowering itself)"})
            elif mir.last_seg(mir.callee(t) or "").startswith("compile") and "Expr<ast::Type>" in ty0:
                inl = [lp for lp in loops if b in lp["body"]]
                if not inl:
                    continue
                n += 1
                src = body.trace(t["args"][0]["place"])
                child = [(r, p) for (r, p) in src if r in node_args]
                if child and not all("[]" in p for (r, p) in child):
                    res.bad(Finding("E12", f["id"], "child expression lowered inside a loop",
                                    "the same child of the node is lowered in every iteration of a loop: it is evaluated as many times as the loop runs", t["sp"]))
                else:
                    res.ok({"function": f["id"], "lowered": "line %d" % t["sp"][1], "verdict": "a different element of the node's child list in every iteration"})
    if n < 3 and not res.findings:
        raise AnchorMissing("E12: expected clone / loop sites in the lowering, found %d" % n)
    return res


def rule_e13(ctx):
    """`a shadowing binding ends with its scope`: the body of a loop is a scope per iteration.  In the unrolled lowering the
    scope has to be opened and closed inside the iteration, otherwise a `let` of one iteration is visible at the start of
    the next."""
    res = RuleResult("E13", "every unrolled loop iteration is lowered in a scope of its own (Env::push / Env::pop inside the iteration)")
    n = 0
    for f in ctx.fns.values():
        if f["sp"][0] != "src/compile.rs" or not f.get("mir"):
            continue
        body = ctx.body(f["id"])
        binds = [b for b, t in body.calls() if not body.blocks[b]["cleanup"] and mir.last_seg(mir.callee(t) or "") == "compile"
                 and t["args"] and t["args"][0]["k"] in ("copy", "move") and "Pattern<" in t["args"][0]["place"]["ty"]]
        if not binds:
            continue
        pushes = {b for b, t in body.calls() if (mir.callee(t) or "").endswith("Env::<T>::push")}
        pops = {b for b, t in body.calls() if (mir.callee(t) or "").endswith("Env::<T>::pop")}
        lowers_stmts = {b for b, t in body.calls() if mir.last_seg(mir.callee(t) or "") == "compile" and t["args"] and t["args"][0]["k"] in ("copy", "move")
                        and "Stmt<" in t["args"][0]["place"]["ty"]}
        loops = body.loops()
        for pb in binds:
            inl = [lp for lp in loops if pb in lp["body"] and lp["body"] & lowers_stmts]
            if inl:
                lp = max(inl, key=lambda l: len(l["body"]))     # the iteration loop (the statement loop is nested in it)
                n += 1
                inside = lambda x: [y for y in body.succs(x) if y in lp["body"]]
                w1 = body.path(lp["header"], [pb], blocked=pushes, succ=inside)
                # from the binding once around the loop back to the header
                w2 = None
                for s in inside(pb):
                    w2 = w2 or body.path(s, [lp["header"]], blocked=pops, succ=inside)
                if w1 or w2:
                    res.bad(Finding("E13", f["id"], "loop iteration without a scope of its own",
                                    "the loop variable is bound and the body statements are lowered %s inside the iteration: a `let` in the body of one iteration is still "
                                    "in scope at the start of the next (`for i in [1u8, 2u8, 3u8] { acc = acc + i; let acc = 100u8; }`)" %
                                    ("without Env::push" if w1 else "without Env::pop"), body.term(pb)["sp"]))
                else:
                    res.ok({"function": f["id"], "loop": "line %d" % body.term(pb)["sp"][1], "verdict": "push before the loop variable is bound, pop before the next iteration"})
            elif body.fn["kind"] == "closure" and lowers_stmts:
                n += 1
                w = body.path(0, [pb], blocked=pushes)
                if w:
                    res.bad(Finding("E13", f["id"], "loop iteration without a scope of its own", "the per-iteration closure binds the loop variable without Env::push", body.term(pb)["sp"]))
                else:
                    res.ok({"function": f["id"], "iteration closure": "line %d" % body.term(pb)["sp"][1], "verdict": "push before the loop variable is bound"})
    if n < 2 and not res.findings:
        raise AnchorMissing("E13: expected the for-each loop and the join loop closure, found %d" % n)
    return res


def rule_e14(ctx):
    """A function body can only refer to its parameters, its own bindings and the top-level consts.  The lowering looks names up
    innermost scope first, so the body has to be lowered on an environment that holds the top-level scope and the parameters and
    nothing of the caller; and for the entry function the parameters must not share the scope of the consts."""
    from . import C12
    res = RuleResult("E14", "a function body is lowered on the top-level scope plus its parameters: no variable of a caller, parameters above the consts")
    body = ctx.body(C02.fn_of(ctx, C02.EXPR_COMPILE)["id"])
    succ = body.pruned_succ({C02.INNER: "FnCall"})
    region = set(body.reachable([0], succ=succ))
    k = env_arg(body)
    n = 0
    for b, t in body.calls():
        if b not in region or mir.last_seg(mir.callee(t) or "") != "compile_block" or body.blocks[b]["cleanup"]:
            continue
        if any(r == C02.SELF1 for (r, p) in body.trace_operand(t["args"][0])):
            continue        # a block of the node itself
        n += 1
        envs = [a for a in t["args"] if a["k"] in ("copy", "move") and "env::Env<" in a["place"]["ty"]]
        roots = body.trace(envs[0]["place"], through={}) if envs else set()
        if roots and all(r[0] == "call" and str(r[2]).endswith("outermost_scope") for (r, p) in roots):
            res.ok({"site": "FnCall: callee body at line %d" % t["sp"][1], "verdict": "lowered on Env::outermost_scope() of the caller's environment plus the parameter scope"})
        else:
            res.bad(Finding("E14", body.id, "callee body lowered on the caller's environment",
                            "the body of the called function is lowered on the caller's environment (with one more scope): a local variable of the caller that has the name "
                            "of a top-level const is found first, so the callee reads the caller's variable", t["sp"]))
    if n != 1 and not res.findings:
        raise AnchorMissing("E14: expected one compile_block of the callee body in the FnCall arm, found %d" % n)
    # entry function
    f, eb = C12._cwc(ctx)
    pushes = [b for b, t in eb.calls() if (mir.callee(t) or "").endswith("Env::<T>::push")]
    lets = [(b, t) for b, t in eb.calls() if mir.callee(t) == ENV_LET]
    if len(lets) < 5:
        raise AnchorMissing("E14: expected the const and parameter bindings of compile_with_constants, found %d" % len(lets))
    for b, t in lets:
        name = eb.trace_operand(t["args"][1])
        is_param = any(pp[-1:] == ("name",) or tuple(pp[-2:]) == ("[]", "0") and r[0] == "call" and str(r[2]).endswith("Vec::<T>::new") for (r, pp) in name)
        deep = any(eb.dominates(pb, b) for pb in pushes)
        if is_param and not deep:
            res.bad(Finding("E14", f["id"], "parameter bound in the scope of the consts",
                            "the parameters of the entry function are bound in the outermost scope, where the consts are bound after them: a const with the name of a "
                            "parameter replaces the parameter (`const X: u8 = 1u8; pub fn main(X: u8) -> u8 { X }` returns 1)", t["sp"]))
        elif not is_param and deep:
            res.bad(Finding("E14", f["id"], "const bound below the outermost scope", "a const is bound in an inner scope: called functions (lowered on the outermost scope) cannot see it", t["sp"]))
        else:
            res.ok({"site": "%s binding at line %d" % ("parameter" if is_param else "const / external value", t["sp"][1]), "verdict": "own scope" if is_param else "outermost scope"})
    return res


def rule_e15(ctx):
    """`a[i] = v`: the index and the value are expressions of their own and may assign to `a` themselves (block expressions).  The
    lowering has to read the current wires of the variable after it lowered them, otherwise their writes are overwritten by a stale
    copy (`arr[0] = { arr[1] = 5u8; a };` lost the write to arr[1])."""
    res = RuleResult("E15", "an assignment reads the assigned variable only after its index and value expressions have been lowered")
    f = C02.fn_of(ctx, C02.STMT_COMPILE)
    body = ctx.body(f["id"])
    succ = body.pruned_succ({C02.INNER: "VarAssign"})
    region = set(body.reachable([0], succ=succ))
    reads = [b for b in region if body.term(b) and body.term(b)["k"] == "call" and (mir.callee(body.term(b)) or "").endswith("Env::<T>::get") and not body.blocks[b]["cleanup"]]
    kids = []
    for b in region:
        t = body.term(b)
        if t and t["k"] == "call" and not body.blocks[b]["cleanup"] and C02._is_compile_call(ctx, t) and t["args"] and t["args"][0]["k"] in ("copy", "move") \
                and any(r == C02.SELF1 for (r, p) in body.trace(t["args"][0]["place"])):
            kids.append(b)
    if len(reads) != 1 or len(kids) < 2:
        raise AnchorMissing("E15: expected one read of the variable and the lowering of index and value in the VarAssign arm (%d / %d)" % (len(reads), len(kids)))
    late = [k for k in kids if body.path(reads[0], [k], succ=lambda x: [y for y in succ(x) if not body.blocks[y]["cleanup"]])]
    if late:
        res.bad(Finding("E15", f["id"], "variable read before its index / value expressions are lowered",
                        "the wires of the assigned variable are taken from the environment before %d of its child expressions are lowered: an assignment to the same variable "
                        "inside the index or the value is overwritten by the stale copy" % len(late), body.term(late[0])["sp"]))
    else:
        res.ok({"children": len(kids), "verdict": "the variable is read after all of them"})
    return res


def rule_e17(ctx):
    """`assigning to a variable never changes any other variable`, `a shadowing binding ends with its scope`: look-up and assignment
    both mean the innermost binding of a name - the scopes are walked innermost first, and the walk ends at the first hit."""
    res = RuleResult("E17", "Env::get and Env::assign_mut walk the scopes innermost first and stop at the first scope that binds the name")
    for name, value_arg in (("get", None), ("assign_mut", 3)):
        fid = "env::Env::<T>::%s" % name
        if not ctx.has_fn(fid):
            raise AnchorMissing("E17: %s not found" % fid)
        body = ctx.body(fid)
        loops = [lp for lp in body.loops() if any(body.term(b) and body.term(b)["k"] == "call" and mir.last_seg(mir.callee(body.term(b)) or "") == "next" for b in lp["body"])]
        rev = any(mir.last_seg(mir.callee(t) or "") == "rev" for _, t in body.calls())
        firsts = [(b, t) for b, t in body.calls() if (t["func"].get("declared") or "") in ("std::iter::Iterator::find_map", "std::iter::Iterator::find") and not body.blocks[b]["cleanup"]]
        if not body.loops() and len(firsts) == 1:
            # `self.0.iter().rev().find_map(|scope| scope.get(name))`: the adaptor answers with the first hit by definition
            if not rev:
                res.bad(Finding("E17", fid, "scopes walked outermost first", "the scope list is not reversed before it is searched: an outer binding of the name is found before the inner one that shadows it", body.fn["sp"]))
            else:
                res.ok({"function": fid, "verdict": "scopes searched in reverse (innermost first)"})
            res.ok({"function": fid, "verdict": "%s answers with the first scope that binds the name" % mir.last_seg(firsts[0][1]["func"]["declared"])})
            continue
        if len(loops) != 1:
            raise AnchorMissing("E17: %s does not walk the scopes in one loop" % fid)
        lp = loops[0]
        if not rev:
            res.bad(Finding("E17", fid, "scopes walked outermost first", "the scope list is not reversed before it is walked: an outer binding of the name is found before the inner one that shadows it", body.fn["sp"]))
        else:
            res.ok({"function": fid, "verdict": "scopes walked in reverse (innermost first)"})
        if value_arg is None:
            hits = [b for b in range(body.n) if not body.blocks[b]["cleanup"] for st in body.blocks[b]["stmts"]
                    if st["k"] == "assign" and st["place"]["l"] == 0 and st["rv"]["k"] == "aggregate" and st["rv"].get("variant") == "Some"]
        else:
            hits = []
            for b in range(body.n):
                if body.blocks[b]["cleanup"] or not body.path(lp["header"], [b]):
                    continue
                t = body.term(b)
                uses = [st["rv"] for st in body.blocks[b]["stmts"] if st["k"] == "assign"]
                ls = set()
                for rv in uses:
                    ls |= mir.rv_locals(rv)
                if t and t["k"] == "call":
                    ls |= {a["place"]["l"] for a in t["args"] if a["k"] in ("copy", "move")}
                if value_arg in ls:
                    hits.append(b)
        if not hits:
            raise AnchorMissing("E17: no hit site found in the scope loop of %s" % fid)
        again = [h for h in hits if body.path(h, [lp["header"]], succ=lambda x: [y for y in body.succs(x) if not body.blocks[y]["cleanup"]])]
        if again:
            res.bad(Finding("E17", fid, "scope walk continues after the first hit",
                            "after the name was found in a scope the loop goes on to the enclosing scopes: an assignment is written into every binding of the name "
                            "(the shadowed outer variable, a parameter or a const changes too)" if value_arg else "the look-up does not stop at the innermost binding",
                            body.term(again[0])["sp"] if body.term(again[0]) else body.fn["sp"]))
        else:
            res.ok({"function": fid, "verdict": "the walk ends at the first scope that binds the name"})
    return res


E16_TABLE = [("Op::%s" % v, {C02.INNER: "Op", C02.OP0: v}, [("as Op", "1"), ("as Op", "2")])
             for v in ("Add", "Sub", "Mul", "Div", "Mod", "BitAnd", "BitXor", "BitOr", "ShiftLeft", "ShiftRight", "Eq", "NotEq", "GreaterThan", "LessThan")] + [
    ("UnaryOp", {C02.INNER: "UnaryOp"}, [("as UnaryOp", "1")]),
    ("Cast", {C02.INNER: "Cast"}, [("as Cast", "1")]),
    ("ArrayAccess", {C02.INNER: "ArrayAccess"}, [("as ArrayAccess", "0"), ("as ArrayAccess", "1")]),
    ("TupleAccess", {C02.INNER: "TupleAccess"}, [("as TupleAccess", "0")]),
    ("StructAccess", {C02.INNER: "StructAccess"}, [("as StructAccess", "0")]),
    ("ArrayRepeatLiteral", {C02.INNER: "ArrayRepeatLiteral"}, [("as ArrayRepeatLiteral", "0")]),
    ("ArrayRepeatLiteralConst", {C02.INNER: "ArrayRepeatLiteralConst"}, [("as ArrayRepeatLiteralConst", "0")]),
    ("If (condition)", {C02.INNER: "If"}, [("as If", "0")]),
    ("Match (scrutinee)", {C02.INNER: "Match"}, [("as Match", "0")]),
    ("ShortCircuitAnd (left operand)", {C02.INNER: "Op", C02.OP0: "ShortCircuitAnd"}, [("as Op", "1")]),
    ("ShortCircuitOr (left operand)", {C02.INNER: "Op", C02.OP0: "ShortCircuitOr"}, [("as Op", "1")]),
]
E16_STMT_TABLE = [
    ("Let", {C02.INNER: "Let"}, [("as Let", "2")]),
    ("LetMut", {C02.INNER: "LetMut"}, [("as LetMut", "2")]),
    ("Expr", {C02.INNER: "Expr"}, [("as Expr", "0")]),
    ("VarAssign (value)", {C02.INNER: "VarAssign"}, [("as VarAssign", "2")]),
    ("ForEachLoop (array)", {C02.INNER: "ForEachLoop"}, [("as ForEachLoop", "1")]),
]


def rule_e16(ctx):
    """Operands are expressions with effects of their own (blocks that assign, operations that fail).  An operator, cast or access
    evaluates each of its operands whatever their values are, so the lowering of the node has to lower every operand on every path
    (a shortcut such as `x * 0 = 0` that skips the other operand drops its assignments)."""
    res = RuleResult("E16", "operators, casts and accesses lower every operand on every path through their arm")
    n = 0
    for fspec, table in ((C02.EXPR_COMPILE, E16_TABLE), (C02.STMT_COMPILE, E16_STMT_TABLE)):
      f = C02.fn_of(ctx, fspec)
      body = ctx.body(f["id"])
      rets = body.returns()
      for label, assume, kids in table:
          succ = body.pruned_succ(assume)
          region = set(body.reachable([0], succ=succ))
          if len(region) == len(body.reachable([0])) or len(region) < 4:
              raise AnchorMissing("E16: cannot isolate the %s arm" % label)
          nsucc = lambda x, succ=succ: [y for y in succ(x) if not body.blocks[y]["cleanup"]]
          for kid in kids:
              n += 1
              via = set()
              for b in region:
                  t = body.term(b)
                  if t and t["k"] == "call" and C02._is_compile_call(ctx, t) and t["args"] and t["args"][0]["k"] in ("copy", "move"):
                      if any(r == C02.SELF1 and tuple(p[:3]) == ("inner",) + kid for (r, p) in body.trace(t["args"][0]["place"])):
                          via.add(b)
              w = body.path(0, rets, blocked=via, succ=nsucc) if via else [0]
              if w:
                  res.bad(Finding("E16", f["id"], "%s: operand %s is not lowered on some path" % (label, kid[1]),
                                  "a path through the %s arm returns without lowering this operand: assignments and failing operations inside it are dropped "
                                  "(`({ n = n + 1u8; n }) * 0u8` leaves n unchanged)" % label,
                                  body.term(w[-2])["sp"] if len(w) > 1 and body.term(w[-2]) else f["sp"], witness=["bb%d" % x for x in w[-8:]]))
              else:
                  res.ok({"construct": label, "operand": kid[1], "verdict": "lowered on every path"})
    # a call lowers the body of the called function on every path (its assignments are local, but its failing operations are not:
    # a memo of call results keyed by argument wires would skip the body - and with it the panic conditions - of a repeated call)
    f = C02.fn_of(ctx, C02.EXPR_COMPILE)
    body = ctx.body(f["id"])
    succ = body.pruned_succ({C02.INNER: "FnCall"})
    region = set(body.reachable([0], succ=succ))
    via = {b for b in region if body.term(b) and body.term(b)["k"] == "call" and mir.last_seg(mir.callee(body.term(b)) or "") == "compile_block"
           and not any(r == C02.SELF1 for (r, p) in body.trace_operand(body.term(b)["args"][0]))}
    w = body.path(0, body.returns(), blocked=via, succ=lambda x: [y for y in succ(x) if not body.blocks[y]["cleanup"]]) if via else [0]
    if w:
        res.bad(Finding("E16", f["id"], "FnCall: the body of the called function is not lowered on some path",
                        "a path through the FnCall arm returns without lowering the callee's body: its failing operations are not recorded for this call "
                        "(a call repeated after one in untaken code silently returns a value instead of panicking)", body.term(w[-2])["sp"] if len(w) > 1 and body.term(w[-2]) else f["sp"]))
    else:
        res.ok({"construct": "FnCall", "operand": "callee body", "verdict": "lowered on every path"})
    return res


def run(ctx):
    return ctx.run_rules([rule_e1, rule_e2, rule_e3, rule_e4, rule_e5, rule_e6, rule_e7, rule_e8, rule_e9, rule_e10, rule_e11, rule_e12, rule_e13, rule_e14, rule_e15, rule_e16, rule_e17])
