"""C15 - no useless gates; pure data movement costs zero AND gates (structural half).

U1  one door for gates: BuilderGates are only constructed in push_xor / push_and; every raw push_gate is either behind the
    `None` answer of optimize_xor / optimize_and on the same operands or is a recognised rewrite site with fresh operands
U2  constant / idempotence folding and commutative sharing are in front of the door
U3  dead gates are always swept before a circuit is built
U3b the sweep copies a gate into the final list only on the edge where its mark is set, and sets marks only at indices that
    derive from a popped worklist entry
U4  data-movement arms of the lowering emit no gate; push_mux / push_condswap fold equal operands
"""
from .. import mir
from ..core import AnchorMissing, Finding, RuleResult
from . import C02

PROPERTY = "C15"
TECHNIQUE = "who-may-construct / dominance rules over the gate-emission call graph on MIR; effect table over variant-pruned lowering arms"
LEVEL_TEXT = (
    "Decides the structural half of 'no AND gate has a constant operand or the same wire twice, no duplicate AND pairs, every gate "
    "reaches an output, data movement costs no AND': gates enter the builder through one door (push_gate) and every call of it for "
    "an AND (and for an XOR) is dominated by optimize_and / optimize_xor answering None for exactly those operands, without exception "
    "(the AND-distribution rewrite of push_xor included); optimize_and / "
    "optimize_xor test the constants 0 / 1 and operand equality first and get_cached looks both operand orders up; build always "
    "sweeps (remove_unused_gates is on every path before the Circuit is assembled, with all panic-record fields as roots: C02-P5); "
    "and the lowering arms for literals, identifiers, tuples, structs, enums, ranges, casts, blocks, calls, let bindings and "
    "irrefutable patterns contain no call that can reach push_gate other than lowering their children. Not decided: that "
    "constant-index reads/writes fold away (value-level argument about the mux trees) and the zero-AND claim for whole programs."
    " U1 has no accepted exception any more (the AND-factoring rewrite of push_xor folds its gates through optimize_xor / optimize_and).")
LEVEL_NOTE = ("Trusted: rustc MIR / call graph; the builder invariant 'operands of existing gates are never the constants 0/1' follows "
              "from U1+U2 by induction over push_gate calls.")
EXPLANATION = "Functions analysed: circuit::CircuitBuilder::{push_gate, push_xor, push_and, optimize_xor, optimize_and, get_cached, push_mux, push_condswap, build} and TypedExpr/TypedStmt/TypedPattern::compile pruned per variant."
NOT_DECIDED = "folding of constant selectors in index mux trees; AND count of whole programs"
ASSUMPTIONS = []

PUSH_GATE = "circuit::CircuitBuilder::push_gate"
SELF1 = ("arg", 1)
INNER = C02.INNER


def _agg_of(body, op):
    """BuilderGate aggregate (variant, operand origins) an operand was built from."""
    out = []
    if op["k"] not in ("copy", "move"):
        return out
    for (r, p) in body.trace(op["place"], through={}):
        if r[0] == "agg":
            st = body.blocks[r[1]]["stmts"][r[2]]
            if st["rv"].get("adt") == "circuit::BuilderGate":
                out.append((st["rv"]["variant"], st["rv"]["ops"], st))
    return out


def _origin(body, op):
    return frozenset((r, tuple(p)) for (r, p) in body.trace_operand(op))


def rule_u1(ctx):
    res = RuleResult("U1", "one door for gates; raw emission only behind a failed optimisation or with fresh operands")
    # who constructs BuilderGate values
    allowed_ctor = {"circuit::CircuitBuilder::push_xor", "circuit::CircuitBuilder::push_and", "circuit::CircuitBuilder::optimize_xor",
                    "circuit::CircuitBuilder::optimize_and", "circuit::CircuitBuilder::get_cached"}
    for f in ctx.facts["fns"]:
        if "mir" not in f or f.get("from_expansion") or f["sp"][0].endswith(("tests.rs",)):
            continue
        body = ctx.body(f["id"])
        for blk in body.blocks:
            for st in blk["stmts"]:
                if st["k"] == "assign" and st["rv"]["k"] == "aggregate" and st["rv"].get("adt") == "circuit::BuilderGate":
                    if f["id"] not in allowed_ctor:
                        # a gate value that is only used to look the cache up (a helper of the builder) emits nothing
                        tainted = mir.forward_taint(body, {st["place"]["l"]}, carries=lambda ty: "BuilderGate" in ty)
                        if "BuilderGate" not in (f.get("output") or ""):
                            tainted.discard(0)
                        emits = [t for _, t in body.calls() if mir.last_seg(mir.callee(t) or "") in ("push_gate", "push", "insert", "extend")
                                 and any(a["k"] in ("copy", "move") and a["place"]["l"] in tainted for a in t["args"][1:])]
                        if emits or 0 in tainted:
                            res.bad(Finding("U1", f["id"], "BuilderGate constructed outside the builder's door", "a gate value is built in %s and stored / emitted / returned there" % f["id"], st["sp"]))
        for b, t in body.calls():
            if mir.callee(t) == PUSH_GATE and f["id"] not in ("circuit::CircuitBuilder::push_xor", "circuit::CircuitBuilder::push_and"):
                res.bad(Finding("U1", f["id"], "push_gate called outside push_xor / push_and", "gates are emitted without the optimiser in front", t["sp"]))
    n = 0
    for fid, opt in (("circuit::CircuitBuilder::push_xor", "circuit::CircuitBuilder::optimize_xor"), ("circuit::CircuitBuilder::push_and", "circuit::CircuitBuilder::optimize_and")):
        body = ctx.body(fid)
        opts = [(b, t) for b, t in body.calls() if mir.callee(t) == opt]
        if not opts:
            raise AnchorMissing("U1: %s does not call %s" % (fid, opt))
        fresh = {}  # dest local of raw push_gate calls -> block
        for b, t in body.calls():
            if mir.callee(t) == PUSH_GATE and not t["dest"]["p"]:
                fresh[t["dest"]["l"]] = b
        for b, t in body.calls():
            if mir.callee(t) != PUSH_GATE:
                continue
            n += 1
            aggs = _agg_of(body, t["args"][1])
            if len(aggs) != 1:
                res.bad(Finding("U1", fid, "push_gate of an unrecognised gate value", "cannot see which gate is emitted", t["sp"]))
                continue
            variant, ops, st = aggs[0]
            want_opt = "circuit::CircuitBuilder::optimize_and" if variant == "And" else "circuit::CircuitBuilder::optimize_xor"
            guarded = False
            for ob, ot in [(x, y) for x, y in body.calls() if mir.callee(y) == want_opt]:
                same = _origin(body, ot["args"][1]) == _origin(body, ops[0]) and _origin(body, ot["args"][2]) == _origin(body, ops[1])
                if same:
                    # the None edge of the optimiser's answer dominates the emission
                    none_edges = set()
                    for x in range(body.n):
                        info = body.switch_info(x)
                        if info and info[0] and info[0][0][0] == "call" and info[0][0][1] == ob and info[0][1] == ():
                            tt = body.term(x)
                            listed = {v for v, _ in tt["targets"]}
                            for v, tg in tt["targets"]:
                                if info[1].get(v) == "None":
                                    none_edges.add((x, tg))
                            if any(nm == "None" and v not in listed for v, nm in info[1].items()):
                                none_edges.add((x, tt["otherwise"]))
                    if C02._dominated_by_edges(body, none_edges, b):
                        guarded = True
            site = "push_gate(%s) #%d" % (variant, sorted(x for x, y in body.calls() if mir.callee(y) == PUSH_GATE).index(b))
            if guarded:
                res.ok({"function": fid, "site": site, "verdict": "behind %s(..) == None on the same operands" % mir.last_seg(want_opt)})
                continue
            # rewrite site: operands must be (operand of an existing gate, fresh gate) / (two operands of existing gates for the inner XOR)
            kinds = []
            for o in ops:
                k = "other"
                if o["k"] in ("copy", "move"):
                    roots = body.trace(o["place"])
                    if all(r[0] == "call" and mir.callee(body.term(r[1])) == PUSH_GATE for (r, p) in roots):
                        k = "fresh"
                    elif all(any(x.startswith("as ") for x in p) for (r, p) in roots) and all("gates" in p or r[0] in ("call", "iter", "local") for (r, p) in roots):
                        k = "existing-operand"
                    # operands taken out of a copied existing gate: (gate as And).0 where gate = self.gates[..]
                    if k == "other":
                        deep = body.deep_sources(o, 3)
                        if any(r == SELF1 and p and p[0] == "gates" for (r, p) in deep) and not any(r[0] == "call" and (mir.callee(body.term(r[1])) or "").endswith(("push_xor", "push_and", "push_not", "push_or")) for (r, p) in deep):
                            k = "existing-operand"
                kinds.append(k)
            # (until 2026-09-26 the AND-distribution rewrite of push_xor was accepted here as a 'rewrite site with fresh operands': wrong -
            #  operands of existing gates can be each other's negation or equal, and with the cache off the raw XOR duplicates an
            #  existing gate, so the raw AND gets a constant-valued / repeated operand.  No exception any more.)
            if False:
                pass
            else:
                res.bad(Finding("U1", fid, site + " bypasses the optimiser",
                                "a %s gate is emitted raw although its operands (%s) may be constant, equal or already combined: optimize_%s is not consulted for them" % (variant, kinds, variant.lower()), t["sp"]))
    res.idioms = sorted(set(res.idioms))
    if (n < 2) and not res.findings:
        raise AnchorMissing("U1: expected push_gate sites in push_xor / push_and (4 on the pinned tree), found %d" % n)
    return res


def rule_u2(ctx):
    res = RuleResult("U2", "constants, equal operands and both operand orders are handled before a gate is created")
    for fid, variant in (("circuit::CircuitBuilder::optimize_and", "And"), ("circuit::CircuitBuilder::optimize_xor", "Xor")):
        body = ctx.body(fid)
        have = set()
        for b, blk in enumerate(body.blocks):
            for st in blk["stmts"]:
                if st["k"] == "assign" and st["rv"]["k"] == "binop" and st["rv"]["op"] == "Eq":
                    l, r = st["rv"]["l"], st["rv"]["r"]
                    lo = {x for x in ("x", "y") if any(rr == ("arg", 2 if x == "x" else 3) for (rr, pp) in body.trace_operand(l))}
                    ro = {x for x in ("x", "y") if any(rr == ("arg", 2 if x == "x" else 3) for (rr, pp) in body.trace_operand(r))}
                    cl = l.get("val") if l["k"] == "const" else None
                    cr = r.get("val") if r["k"] == "const" else None
                    for v in lo:
                        if cr is not None:
                            have.add((v, cr))
                    for v in ro:
                        if cl is not None:
                            have.add((v, cl))
                    if lo and ro and lo != ro:
                        have.add(("x", "y"))
        # the same tests as literal patterns (`match (x, y) { (0, _) => .. }`): integer switches on the operand itself
        for b in range(body.n):
            t = body.term(b)
            if t and t["k"] == "switch" and t["discr"]["k"] in ("copy", "move") and not body.blocks[b]["cleanup"] and \
                    body.locals[t["discr"]["place"]["l"]]["ty"] not in ("bool", "isize") and body.switch_info(b) is None:
                vs = {x for x in ("x", "y") if any(rr == ("arg", 2 if x == "x" else 3) for (rr, pp) in body.trace_operand(t["discr"]))}
                for val, _ in t["targets"]:
                    for v in vs:
                        have.add((v, val))
        want = [("x", 0), ("y", 0), ("x", "y")] + ([("x", 1), ("y", 1)] if variant == "And" else [])
        for w in want:
            if w in have:
                res.ok({"function": fid, "test": "%s == %s" % w})
            else:
                res.bad(Finding("U2", fid, "no test %s == %s" % w, "the %s optimiser no longer folds the case %s == %s" % (variant, w[0], w[1]), body.fn["sp"]))
    gc = ctx.body("circuit::CircuitBuilder::get_cached")
    orders = set()
    gc_closures = [ctx.body(c) for c in sorted(ctx.cg.closures_of.get(gc.id, ())) if ctx.has_fn(c)]
    for ub in [gc] + gc_closures:
        for blk in ub.blocks:
            for st in blk["stmts"]:
                if st["k"] == "assign" and st["rv"]["k"] == "aggregate" and st["rv"].get("adt") == "circuit::BuilderGate":
                    srcs = []
                    for o in st["rv"]["ops"]:
                        srcs.append(tuple(sorted(p[-1] for (r, p) in ub.trace_operand(o) if p)))
                    orders.add((st["rv"]["variant"], tuple(srcs)))
    for v in ("And", "Xor"):
        if (v, (("1",), ("0",))) in orders:
            res.ok({"function": "get_cached", "gate": v, "verdict": "swapped operand order is looked up too"})
        else:
            res.bad(Finding("U2", gc.id, "%s lookup is not commutative" % v, "get_cached does not look (y, x) up for %s gates: duplicate pairs in the other order are emitted" % v, gc.fn["sp"]))
    # ... on every path on which the direct lookup missed (a guard on the swapped lookup leaves one order unshared)
    first = [(b, t) for b, t in gc.calls() if mir.last_seg(mir.callee(t) or "") == "get" and any(r == ("arg", 2) and not p for (r, p) in gc.trace_operand(t["args"][1]))]
    rets = [b for b in range(gc.n) if gc.term(b) and gc.term(b)["k"] == "return"]
    if len(first) != 1 or not rets:
        if not res.findings:
            raise AnchorMissing("U2: get_cached no longer starts with one direct lookup of the requested gate")
    else:
        fb, ft = first[0]
        # `self.cache.get(gate).or_else(|| <swapped lookup>)`: the closure is exactly the path after a miss
        after_miss = None
        for b, t in gc.calls():
            if t["func"].get("declared") == "std::option::Option::<T>::or_else" and len(t["args"]) == 2 and t["args"][1]["k"] in ("copy", "move") and \
                    any(r[:2] == ("call", fb) for (r, p) in gc.trace_operand(t["args"][0], through={})):
                cids = [gc.blocks[r[1]]["stmts"][r[2]]["rv"].get("closure") for (r, p) in gc.trace(t["args"][1]["place"], through={}) if r[0] == "agg"]
                if len(cids) == 1 and cids[0] and ctx.has_fn(cids[0]) and (t["dest"]["l"] == 0 or any(r[:2] == ("call", b) for d in gc.defs().get(0, []) if d[0] == "assign"
                                                                                                   for o in [d[3]["rv"].get("op")] if o and o["k"] in ("copy", "move")
                                                                                                   for (r, p) in gc.trace_operand(o, through={}))):
                    after_miss = ctx.body(cids[0])
        for v in ("And", "Xor") if after_miss is not None else ():
            cb = after_miss
            sw = {b for b, blk in enumerate(cb.blocks) for st in blk["stmts"]
                  if st["k"] == "assign" and st["rv"]["k"] == "aggregate" and st["rv"].get("adt") == "circuit::BuilderGate" and st["rv"]["variant"] == v}
            gets = {b for b, t in cb.calls() if mir.last_seg(mir.callee(t) or "") == "get" and
                    any(r[0] == "agg" and r[1] in sw for (r, p) in cb.trace_operand(t["args"][1]))}
            aps = {info[0] for b in range(cb.n) for info in [cb.switch_info(b)] if info and info[0] and info[2] == "circuit::BuilderGate"}
            crets = [b for b in range(cb.n) if cb.term(b) and cb.term(b)["k"] == "return"]
            if not gets or len(aps) != 1:
                continue
            w = cb.path(0, crets, blocked=gets, succ=cb.pruned_succ({next(iter(aps)): v}))
            if w:
                res.bad(Finding("U2", gc.id, "%s: swapped lookup is skipped on some path" % v,
                                "after the direct lookup missed, a path through the or_else closure returns without looking (y, x) up (blocks %s)" % w, cb.fn["sp"]))
            else:
                res.ok({"function": "get_cached", "gate": v, "verdict": "the swapped lookup lies on every path of the or_else closure"})
        hit = {x for (_, x) in C02._some_edges(gc, ft)}
        for v in ("And", "Xor") if after_miss is None else ():
            sw = set()
            for b, blk in enumerate(gc.blocks):
                for st in blk["stmts"]:
                    if st["k"] == "assign" and st["rv"]["k"] == "aggregate" and st["rv"].get("adt") == "circuit::BuilderGate" and st["rv"]["variant"] == v:
                        t2 = gc.term(b)
                        if t2 and t2["k"] == "call" and mir.last_seg(mir.callee(t2) or "") == "get":
                            sw.add(b)
            if not sw:
                continue
            succ = gc.pruned_succ({(("arg", 2), ()): v})
            w = gc.path(gc.succs(fb)[0], rets, blocked=sw | hit, succ=succ)
            if w:
                res.bad(Finding("U2", gc.id, "%s: swapped lookup is skipped on some path" % v,
                                "after the direct lookup missed, a path returns without looking (y, x) up (blocks %s): a gate first built in the other order is built again" % w, gc.term(sorted(sw)[0])["sp"]))
            else:
                res.ok({"function": "get_cached", "gate": v, "verdict": "the swapped lookup lies on every path after a miss"})
    # the cache is filled for every emitted gate
    pg = ctx.body(PUSH_GATE)
    ins = [b for b, t in pg.calls() if mir.last_seg(mir.callee(t) or "") == "insert" and any(p and p[-1] == "cache" for (r, p) in pg.trace_operand(t["args"][0]))]
    if ins:
        # ... on every path on which de-duplication is switched on
        rets = [b for b in range(pg.n) if pg.term(b) and pg.term(b)["k"] == "return"]
        sw = []
        for b in range(pg.n):
            tt = pg.term(b)
            if tt and tt["k"] == "switch" and tt["discr"]["k"] in ("copy", "move") and any(p and p[-1] == "cache_gates" for (r, p) in pg.trace_operand(tt["discr"])):
                zero_t = {tg for v, tg in tt["targets"] if v == 0}
                sw += [x for x in pg.succs(b) if x not in zero_t]
        if not sw:
            raise AnchorMissing("U2: push_gate does not test opts.cache_gates")
        w = None
        for s0 in sw:
            w = w or pg.path(s0, rets, blocked=set(ins), succ=lambda x: [y for y in pg.succs(x) if not pg.blocks[y]["cleanup"]])
        if w:
            res.bad(Finding("U2", PUSH_GATE, "an emitted gate can stay out of the cache", "with de-duplication on, a path through push_gate returns without entering the new gate into the cache (blocks %s): "
                            "the same gate is emitted again when it is requested later" % w, pg.term(ins[0])["sp"]))
        else:
            res.ok({"function": "push_gate", "verdict": "emitted gates are entered into the cache on every path with de-duplication on"})
    else:
        res.bad(Finding("U2", PUSH_GATE, "emitted gates are not cached", "push_gate never inserts into the cache: no sharing", pg.fn["sp"]))
    return res


def rule_u3(ctx):
    res = RuleResult("U3", "dead gates are swept on every path before a circuit is assembled")
    body = ctx.body("circuit::CircuitBuilder::build")
    sweeps = {b for b, t in body.calls() if mir.last_seg(mir.callee(t) or "") == "remove_unused_gates"}
    circ = [b for b, blk in enumerate(body.blocks) for st in blk["stmts"] if st["k"] == "assign" and st["rv"]["k"] == "aggregate" and st["rv"].get("adt") == "circuit::Circuit"]
    if not circ:
        raise AnchorMissing("U3: build does not assemble a Circuit")
    w = body.must_pass(sweeps, exits=circ) if sweeps else [0]
    if w:
        res.bad(Finding("U3", body.id, "circuit built without sweeping", "a path assembles the Circuit without remove_unused_gates: gates that reach no output stay in", body.fn["sp"]))
    else:
        res.ok({"function": body.id, "verdict": "remove_unused_gates on every path"})
    # the swept gate list is the one that is emitted: gates vector comes from self.gates after the sweep
    rb = ctx.body("circuit::CircuitBuilder::remove_unused_gates")
    stores = [st for blk in rb.blocks for st in blk["stmts"] if st["k"] == "assign" and mir.proj_names(st["place"]["p"])[-1:] == ("gates",)]
    if stores:
        res.ok({"function": rb.id, "verdict": "self.gates replaced by the compacted list"})
    else:
        res.bad(Finding("U3", rb.id, "sweep does not store its result", "remove_unused_gates never assigns self.gates", rb.fn["sp"]))
    return res


SILENT_EXPR = ["True", "False", "NumUnsigned", "NumSigned", "Identifier", "ArrayLiteral", "ArrayRepeatLiteral", "ArrayRepeatLiteralConst",
               "TupleLiteral", "TupleAccess", "StructAccess", "StructLiteral", "EnumLiteral", "Range", "Cast", "Block", "FnCall"]
SILENT_STMT = ["Let", "LetMut", "Expr"]
SILENT_PAT = ["Identifier"]
FOLDING_PAT = ["Tuple", "Struct", "StructIgnoreRemaining"]


def rule_u3b(ctx):
    """The sweep keeps a gate only if it was marked, and marks only what came off the worklist."""
    res = RuleResult("U3b", "a gate survives the sweep only if it was marked; marks are set only for worklist entries")
    fid = "circuit::CircuitBuilder::remove_unused_gates"
    body = ctx.body(fid)
    pops = [(b, t) for b, t in body.calls() if mir.last_seg(mir.callee(t) or "") == "pop"]
    if len(pops) != 1:
        raise AnchorMissing("U3b: remove_unused_gates no longer has one worklist pop")
    pb, pt = pops[0]
    # the mark vector: Vec<bool> written through index_mut with a key that derives from the popped entry
    marks = set()
    for b, t in body.calls():
        if mir.last_seg(mir.callee(t) or "") == "index_mut" and "bool" in t["dest"]["ty"]:
            key = body.deep_sources(t["args"][1], 3)
            from_pop = any(r[0] == "call" and r[1] == pb for (r, p) in key)
            root = {(r, tuple(p)) for (r, p) in body.trace_operand(t["args"][0])}
            if from_pop:
                marks |= root
                res.ok({"site": "mark at line %d" % t["sp"][1], "verdict": "index derives from the popped worklist entry"})
            else:
                res.bad(Finding("U3b", fid, "gate marked as used without coming off the worklist", "a mark is set at an index that does not derive from a popped worklist entry: unreachable gates survive the sweep", t["sp"]))
    # ... or a set of the marked indices: `used.insert(index)`
    for b, t in body.calls():
        if mir.last_seg(mir.callee(t) or "") == "insert" and "HashSet" in (mir.callee(t) or "") + str(t["func"].get("fty")) and len(t["args"]) == 2 and not body.blocks[b]["cleanup"]:
            key = body.deep_sources(t["args"][1], 3)
            root = {(r, tuple(p)) for (r, p) in body.trace_operand(t["args"][0])}
            if any(r[0] == "call" and r[1] == pb for (r, p) in key):
                marks |= root
                res.ok({"site": "mark at line %d" % t["sp"][1], "verdict": "inserted index derives from the popped worklist entry"})
            else:
                res.bad(Finding("U3b", fid, "gate marked as used without coming off the worklist", "an index is inserted into the set of used gates that does not derive from a popped worklist entry: unreachable gates survive the sweep", t["sp"]))
    if not marks:
        raise AnchorMissing("U3b: no mark vector found in remove_unused_gates")
    # the survivors: pushes of self.gates[_] into a fresh vector
    keeps = [(b, t) for b, t in body.calls() if mir.last_seg(mir.callee(t) or "") == "push" and len(t["args"]) == 2 and
             "BuilderGate" in t["args"][1].get("place", {}).get("ty", "") and
             any(r == ("arg", 1) and p[:1] == ("gates",) for (r, p) in body.trace_operand(t["args"][1]))]
    if not keeps:
        raise AnchorMissing("U3b: remove_unused_gates no longer copies the surviving gates")
    for b, t in keeps:
        ok = False
        for x in range(body.n):
            tt = body.term(x)
            if tt and tt["k"] == "switch" and tt["discr"]["k"] in ("copy", "move") and body.locals[tt["discr"]["place"]["l"]]["ty"] == "bool":
                src = {(r, tuple(p[:-1]) if p and p[-1].startswith("[") else tuple(p)) for (r, p) in body.trace_operand(tt["discr"])}
                # (membership in the set of marks: `used.contains(&w)`)
                for (r, p) in body.trace(tt["discr"]["place"], through={}):
                    if r[0] == "call" and mir.last_seg(str(r[2])) == "contains" and not p:
                        src |= {(r2, tuple(p2)) for (r2, p2) in body.trace_operand(body.term(r[1])["args"][0])}
                if src & marks:
                    zero_t = {tg for v, tg in tt["targets"] if v == 0}
                    edges = {(x, s_) for s_ in body.succs(x) if s_ not in zero_t}
                    if C02._dominated_by_edges(body, edges, b):
                        ok = True
        if ok:
            res.ok({"site": "survivor copy at line %d" % t["sp"][1], "verdict": "only on the edge where the gate's mark is set"})
        else:
            res.bad(Finding("U3b", fid, "gates are kept without looking at their mark", "a gate is copied into the final gate list on a path where its mark was not tested to be set: useless gates stay in the circuit", t["sp"]))
    return res


def rule_u4(ctx):
    res = RuleResult("U4", "data-movement arms emit no gate; mux / condswap fold equal operands")
    reach = ctx.cg.reach_set({PUSH_GATE})

    def check(body, assume, label, allow=()):
        succ = body.pruned_succ(assume)
        region = body.reachable([0], succ=succ)
        if len(region) == len(body.reachable([0])) or len(region) < 2:
            raise AnchorMissing("U4: cannot isolate %s" % label)
        bad = False
        for b in sorted(region):
            t = body.term(b)
            if not t or t["k"] != "call" or body.blocks[b]["cleanup"]:
                continue
            cal = mir.callee(t) or ""
            if C02._is_compile_call(ctx, t) or cal in ("compile::compile_block",):
                continue
            if mir.last_seg(cal) in allow:
                continue
            if any(n in reach for n in mir.callee_names(t)) or not mir.callee_names(t):
                res.bad(Finding("U4", body.id, "%s can emit gates" % label, "the %s arm calls %s, which can reach push_gate: pure data movement is no longer free" % (label, cal or "<indirect>"), t["sp"]))
                bad = True
        if not bad:
            res.ok({"arm": label, "blocks": len(region), "verdict": "no gate emission except through children"})
    eb = ctx.body(C02.fn_of(ctx, C02.EXPR_COMPILE)["id"])
    for v in SILENT_EXPR:
        check(eb, {INNER: v}, "ExprEnum::" + v)
    sb = ctx.body(C02.fn_of(ctx, C02.STMT_COMPILE)["id"])
    for v in SILENT_STMT:
        check(sb, {INNER: v}, "StmtEnum::" + v)
    pb = ctx.body(C02.fn_of(ctx, C02.PAT_COMPILE)["id"])
    for v in SILENT_PAT:
        check(pb, {(SELF1, ("0",)): v}, "PatternEnum::" + v)
    for v in FOLDING_PAT:
        check(pb, {(SELF1, ("0",)): v}, "PatternEnum::" + v, allow=("push_and",))
    res.idioms.append("tuple / struct patterns: push_and on the constant-true accumulator folds for irrefutable sub-patterns")
    # push_mux / push_condswap return early for equal data operands before any builder call
    for fid, a, b_ in (("circuit::CircuitBuilder::push_mux", 3, 4), ("circuit::CircuitBuilder::push_condswap", 3, 4)):
        body = ctx.body(fid)
        ok = False
        for bb, blk in enumerate(body.blocks):
            for st in blk["stmts"]:
                if st["k"] == "assign" and st["rv"]["k"] == "binop" and st["rv"]["op"] in ("Eq", "Ne"):
                    lo = {r for (r, p) in body.trace_operand(st["rv"]["l"])}
                    ro = {r for (r, p) in body.trace_operand(st["rv"]["r"])}
                    if {("arg", a)} <= lo | ro and {("arg", b_)} <= lo | ro:
                        builder_calls = [x for x, t in body.calls() if (mir.callee(t) or "").startswith("circuit::CircuitBuilder::push_")]
                        # on the edge on which the operands are equal no builder call is reachable any more (`if x == y { return }`
                        # as well as `if x != y { .. gates .. } else { (x, y) }`)
                        eq_edges = mir.equality_edges(body, st)
                        after_eq = set(body.reachable([s_ for (_, s_) in eq_edges])) if eq_edges else None
                        if all(body.dominates(bb, x) for x in builder_calls) and after_eq is not None and not (after_eq & set(builder_calls)):
                            ok = True
        if ok:
            res.ok({"function": fid, "verdict": "equal operands are returned before any gate request"})
        else:
            res.bad(Finding("U4", fid, "no early return for equal operands", "%s requests gates even when both data operands are the same wire" % mir.last_seg(fid), body.fn["sp"]))
    return res


def run(ctx):
    return ctx.run_rules([rule_u1, rule_u2, rule_u3, rule_u3b, rule_u4])
