"""C16 - a circuit that passes validation can be evaluated safely.

G1  validate examines (compares / bounds-checks, with a rejecting edge) every field eval uses as an index
G2  defined before use: register operands are looked up in the set-bitmap and the bitmap is updated afterwards;
    SSA operands are compared with the running wire index
G3  eval (and Evaluator::run) compare party count and per-party bit counts before indexing the inputs
G4  sibling consistency: every comparison of a circuit field against the same bound uses the same comparator
G8  an upper bound written as n.saturating_sub(1) is used only after n == 0 was rejected (index 0 of an empty vector)
G7  in the register evaluator register-valued fields index only the register file and Input.party / Input.input only the inputs
G6  eval's storage is allocated with exactly the size validation bounds indices by (max_reg_count; inputs + gates)
G5  no index position (or slice bound) into circuit-sized storage in eval is computed from the supplied inputs
"""
from .. import mir, protocol
from ..core import AnchorMissing, Finding, RuleResult

PROPERTY = "C16"
TECHNIQUE = "value-origin analysis on MIR: index-position origins of eval vs. examined-and-rejecting origins of validate; dominance for guards"
LEVEL_TEXT = (
    "Decides the clause 'if validation accepts, evaluation reads only inputs, wires and registers that exist and are "
    "defined' structurally: every value eval (of both circuit kinds, including its closures) uses in an index position is "
    "traced to the circuit field it comes from (through iterators, patterns and newtypes); validate of the same type must "
    "read that field and feed it to a comparison, a checked `get` or a bitmap lookup whose failing edge returns Err. "
    "Register operands must additionally be looked up in the written-registers bitmap before the destination is marked; "
    "SSA operands must be compared with the running wire index (no forward references); eval and Evaluator::run must "
    "compare party and bit counts before the first index into the inputs; all comparisons against one bound use one comparator (G4). A field matched with `_` in validate cannot be "
    "guarded by it - exactly the defect found (Input.party / Input.input). Not decided: that the comparisons use the right "
    "bound values (value level; one such defect, max_reg_count == 0, was found by reading and repaired), and 'validation "
    "accepts every compiler-produced circuit'."
    " G2 also requires the output registers (which eval reads) to be looked up in the written-set. G8: an upper bound written as n.saturating_sub(1) is used only behind a rejecting n == 0 test.")
LEVEL_NOTE = ("Trusted: rustc MIR; the Index<Reg> impls index by reg.0; Circuit::wires maps each Gate to the Wire of the same "
              "variant with the same operands (checked as rule G1b).")
EXPLANATION = ("For register_circuit::Circuit and circuit::Circuit: required = origins of every Index/IndexMut operand and "
               "every MIR index projection in eval (+ closures); examined = origins of operands of comparisons, PartialOrd/"
               "PartialEq calls, checked get() and bitmap lookups in validate that have a successor edge leading to "
               "`return Err`. required must be covered by examined (path-prefix relation on the circuit's field paths).")
NOT_DECIDED = "correctness of the bound values compared against; completeness of validation w.r.t. compiler output; overflow of wires_len()+sum"
ASSUMPTIONS = ["inputs handed to eval have the declared number of parties and bits (the property's own premise); G3 checks the guards exist"]

CMP_OPS = {"Lt", "Le", "Gt", "Ge", "Eq", "Ne"}
CMP_CALLS = {"std::cmp::PartialOrd::lt", "std::cmp::PartialOrd::le", "std::cmp::PartialOrd::gt", "std::cmp::PartialOrd::ge",
             "std::cmp::PartialEq::eq", "std::cmp::PartialEq::ne"}
SEARCH_ADAPTORS = {"std::iter::Iterator::find", "std::iter::Iterator::any", "std::iter::Iterator::all", "std::iter::Iterator::position"}
INDEX_CALLS = ("std::ops::Index::index", "std::ops::IndexMut::index_mut")
SELF1 = ("arg", 1)


def norm(path):
    return tuple(x for x in path if x != "[]" and not x.startswith("[_") and x != "pointer")


def closure_item_origins(ctx, parent, closure_id):
    """Origins (in the parent) of the item the closure receives, when it is passed to an iterator adapter."""
    out = set()
    for b, t in parent.calls():
        dec = t["func"].get("declared") or ""
        if not dec.startswith("std::iter::Iterator::"):
            continue
        for a in t["args"][1:]:
            if a["k"] in ("copy", "move") and closure_id.split("::")[-1] in a["place"]["ty"] or (
                    a["k"] in ("copy", "move") and any(r[0] == "agg" and parent.blocks[r[1]]["stmts"][r[2]]["rv"].get("closure") == closure_id
                                                       for (r, p) in parent.trace(a["place"], through={}))):
                it = parent._iter_item(t["args"][0], (), mir.TRANSPARENT, set(), 0)
                if it:
                    out |= it
    return out


def index_origins(ctx, fid):
    """(origin set, span, description) for every index position in the function and its closures."""
    res = []
    bodies = [(ctx.body(fid), None)]
    for c in sorted(ctx.cg.closures_of.get(fid, ())):
        bodies.append((ctx.body(c), c))
    parent = ctx.body(fid)
    for body, cid in bodies:
        item = closure_item_origins(ctx, parent, cid) if cid else None

        def lift(tr, body=body, cid=cid, item=item):
            out = set()
            for (r, p) in tr:
                if cid and r == ("arg", 2) and item:
                    for (r2, p2) in item:
                        out.add((r2, tuple(p2) + tuple(p)))
                elif r[0] == "call" and not cid and ctx.has_fn(str(r[2])) and ctx.fns[str(r[2])]["kind"] != "closure" and body.term(r[1])["args"] and \
                        any(r2 == SELF1 and not p2 for (r2, p2) in body.trace_operand(body.term(r[1])["args"][0])) and len(body.term(r[1])["args"]) == 1:
                    # a number the circuit computes about itself (`self.total_inputs()`): a derived field of the circuit
                    out.add((SELF1, (mir.last_seg(str(r[2])) + "()",) + tuple(p)))
                else:
                    out.add((r, tuple(p)))
            return out
        for b, blk in enumerate(body.blocks):
            if blk["cleanup"]:
                continue
            t = blk["term"]
            if t and t["k"] == "call" and t["func"].get("declared") in INDEX_CALLS:
                tr = set(body.trace_operand(t["args"][1]))
                # a slice `xs[a..]` / `xs[a..b]`: the bounds of the range are the index positions
                for (r, p) in list(tr):
                    if r[0] == "agg" and not p:
                        rv = body.blocks[r[1]]["stmts"][r[2]]["rv"]
                        if "Range" in (rv.get("adt") or ""):
                            tr.discard((r, p))
                            for o in rv["ops"]:
                                tr |= set(body.trace_operand(o))
                res.append((lift(tr), t["sp"], "index operand of %s" % mir.last_seg(mir.callee(t) or "")))
            for st in blk["stmts"]:
                if st["k"] != "assign":
                    continue
                pls = [st["place"]]
                rv = st["rv"]
                if "place" in rv:
                    pls.append(rv["place"])
                for k in ("op", "l", "r", "x"):
                    if isinstance(rv.get(k), dict) and "place" in rv[k]:
                        pls.append(rv[k]["place"])
                for pl in pls:
                    for e in pl["p"]:
                        if e["k"] == "index":
                            res.append((lift(body.trace({"l": e["local"], "p": []})), st["sp"], "slice index"))
    return res


def leads_to_err(body, start):
    """Does the edge into `start` reject unconditionally: following straight-line code (no further branch) from
    `start`, `_0 = Err(..)` is assigned (or the residual of a `?` is written into it)?"""
    b = start
    for _ in range(16):
        for st in body.blocks[b]["stmts"]:
            if st["k"] == "assign" and st["place"]["l"] == 0 and st["rv"]["k"] == "aggregate" and st["rv"].get("variant") == "Err":
                return True
        t = body.term(b)
        if t and t["k"] == "call" and t["func"].get("declared") == "std::ops::FromResidual::from_residual" and t["dest"]["l"] == 0 and not t["dest"]["p"]:
            return True
        if not t or t["k"] in ("switch", "return", "unreachable"):
            return False
        nxt = body.succs(b)
        if len(nxt) != 1:
            return False
        b = nxt[0]
    return False


def examined_origins(ctx, fid, _depth=0):
    """Origins of values that validate compares / bounds-checks with a rejecting edge."""
    body = ctx.body(fid)
    out = []   # (origins, span, how)

    def switch_after(local, b):
        """blocks that switch on `local` (defined in block b) -> successor lists"""
        res = []
        for x in range(body.n):
            t = body.term(x)
            if t and t["k"] == "switch" and t["discr"]["k"] in ("copy", "move"):
                roots = body.trace(t["discr"]["place"], through={})
                # the switched value is the local itself or the discriminant of it
                if any((r == ("local", local)) or (r[0] in ("rv", "call") and r[-2 if r[0] == "rv" else 1] == b) for (r, p) in roots) or t["discr"]["place"]["l"] == local:
                    res.append(x)
                else:
                    info = body.switch_info(x)
                    if info and info[0] and info[0][0][0] == "call" and info[0][0][1] == b:
                        res.append(x)
        return res

    err_blocks = {x for x, blk in enumerate(body.blocks) for st in blk["stmts"]
                  if st["k"] == "assign" and st["place"]["l"] == 0 and st["rv"]["k"] == "aggregate" and st["rv"].get("variant") == "Err"}

    def bool_rejecting(local, b, idx, outcomes=(True, False)):
        """One outcome of the bool `local` (defined in block b: by statement idx, or by the call ending the block) admits
        no way past the error returns: the result may travel through other bool locals (`let ok = match g { .. => x < i && y < i }`)
        before it is branched on.  Coming back to the definition (the next loop iteration) counts as getting past."""
        if body.locals[local]["ty"] != "bool" or not err_blocks:
            return False
        for v in outcomes:
            if idx is None:
                starts = [(s, 0) for s in body.succs(b)]
            else:
                starts = [(b, idx + 1)]
            goals = set(body.returns()) | {b}
            if all(mir.bool_consistent_path(body, s, goals, env={local: v}, blocked=err_blocks, start_stmt=i) is None for s, i in starts):
                return True
        return False

    def rejecting(local, b, idx=None):
        for x in switch_after(local, b):
            if any(leads_to_err(body, s) for s in body.succs(x)):
                return True
        # `helper(..)?`: the result goes through Try::branch, whose Break edge writes the residual into the return place
        for x, t in body.calls():
            if t["func"].get("declared") == "std::ops::Try::branch" and any(r[:2] == ("call", b) for (r, p) in body.trace_operand(t["args"][0], through={})):
                for y in switch_after(t["dest"]["l"], x):
                    if any(leads_to_err(body, s) for s in body.succs(y)):
                        return True
        return bool_rejecting(local, b, idx)

    def some_and(b):
        """`opt.is_some_and(pred)` calls whose receiver is the Option produced in block b and whose `false` rejects."""
        return [x for x, t in body.calls() if t["func"].get("declared") == "std::option::Option::<T>::is_some_and" and len(t["args"]) == 2 and
                not t["dest"]["p"] and any(r[:2] == ("call", b) for (r, p) in body.trace_operand(t["args"][0], through={})) and
                bool_rejecting(t["dest"]["l"], x, None, outcomes=(False,))]

    def predicate(clos, item, seg):
        """The comparisons / bitmap lookups of a closure predicate whose verdict rejects: its item ranges over `item`, its
        captures are values of this function."""
        for (r, p) in body.trace(clos["place"], through={}) if clos["k"] in ("copy", "move") else ():
            if r[0] != "agg":
                continue
            rv = body.blocks[r[1]]["stmts"][r[2]]["rv"]
            cid = rv.get("closure")
            if not cid or not ctx.has_fn(cid):
                continue
            cb = ctx.body(cid)

            def lift(tr):
                res = set()
                for (r2, p2) in tr:
                    if r2 == ("arg", 2):
                        for (r3, p3) in item:
                            res.add((r3, tuple(p3) + tuple(p2)))
                    elif r2 == ("arg", 1) and p2 and p2[0].isdigit() and int(p2[0]) < len(rv["ops"]):
                        for (r3, p3) in body.trace_operand(rv["ops"][int(p2[0])]):
                            res.add((r3, tuple(p3) + tuple(p2[1:])))
                    elif r2[0] != "arg":
                        res.add((("closure",) + tuple(r2), tuple(p2)))
                return res
            # what the predicate returns
            ret = set()
            for d in cb.defs().get(0, []):
                if d[0] == "assign":
                    rv0 = d[3]["rv"]
                    ops0 = [rv0[k] for k in ("op", "x") if isinstance(rv0.get(k), dict)]
                    for o in ops0:
                        if o["k"] in ("copy", "move"):
                            ret |= set(cb.trace(o["place"], through=protocol.DEREF_ONLY))
            for cx, cblk in enumerate(cb.blocks):
                if cblk["cleanup"]:
                    continue
                for st in cblk["stmts"]:
                    if st["k"] == "assign" and st["rv"]["k"] == "binop" and st["rv"]["op"] in CMP_OPS:
                        for side in ("l", "r"):
                            out.append((lift(cb.trace_operand(st["rv"][side])), st["sp"], "comparison %s in the predicate of %s" % (st["rv"]["op"], seg)))
                ct = cblk["term"]
                if ct and ct["k"] == "call" and (ct["func"].get("declared") or "") in CMP_CALLS:
                    for a in ct["args"]:
                        out.append((lift(cb.trace_operand(a)), ct["sp"], "comparison %s in the predicate of %s" % (mir.last_seg(mir.callee(ct) or ""), seg)))
                if ct and ct["k"] == "call" and (ct["func"].get("declared") or "") in INDEX_CALLS and len(ct["args"]) == 2:
                    # a bitmap lookup that is (the negation of) what the predicate answers
                    if any((r2[0] == "call" and r2[1] == cx) or (r2[0] == "rv" and _unop_of_call(cb, r2, cx)) for (r2, p2) in ret):
                        coll = lift(cb.trace_operand(ct["args"][0]))
                        ty = ct["args"][0]["place"]["ty"] if ct["args"][0]["k"] in ("copy", "move") else "?"
                        out.append((lift(cb.trace_operand(ct["args"][1])), ct["sp"], "lookup in %s (predicate of %s)" % (ty, seg)))

    for b, blk in enumerate(body.blocks):
        if blk["cleanup"]:
            continue
        for st in blk["stmts"]:
            if st["k"] == "assign" and st["rv"]["k"] == "binop" and st["rv"]["op"] in CMP_OPS and not st["place"]["p"]:
                if rejecting(st["place"]["l"], b, blk["stmts"].index(st)):
                    for side in ("l", "r"):
                        out.append((body.trace_operand(st["rv"][side]), st["sp"], "comparison %s" % st["rv"]["op"]))
        t = blk["term"]
        if not t or t["k"] != "call":
            continue
        dec = t["func"].get("declared") or ""
        seg = mir.last_seg(mir.callee(t) or "")
        dest = t["dest"]["l"]
        if dec in CMP_CALLS:
            if rejecting(dest, b):
                for a in t["args"]:
                    out.append((body.trace_operand(a), t["sp"], "comparison %s" % seg))
        elif dec in INDEX_CALLS and len(t["args"]) == 2:
            # bitmap lookup: the loaded bool must be branched on with a rejecting edge
            loaded = [x for x in range(body.n) if body.term(x) and body.term(x)["k"] == "switch" and
                      any(r[0] == "call" and r[1] == b for (r, p) in body.trace(body.term(x)["discr"]["place"], through=protocol.DEREF_ONLY)
                          ) ] if True else []
            # the reference returned by index is dereferenced and copied before the switch
            ok = False
            for x in range(body.n):
                tx = body.term(x)
                if tx and tx["k"] == "switch" and tx["discr"]["k"] in ("copy", "move"):
                    roots = body.trace(tx["discr"]["place"], through=protocol.DEREF_ONLY)
                    if any(r[0] == "call" and r[1] == b for (r, p) in roots) or any(
                            r[0] == "rv" and _unop_of_call(body, r, b) for (r, p) in roots):
                        if any(leads_to_err(body, s) for s in body.succs(x)):
                            ok = True
            if ok:
                out.append((body.trace_operand(t["args"][1]), t["sp"], "lookup in %s" % t["args"][0]["place"]["ty"]))
        elif seg == "get" and ("slice" in (mir.callee(t) or "") or "Vec" in (mir.callee(t) or "")) and len(t["args"]) == 2:
            if rejecting(dest, b):
                out.append((body.trace_operand(t["args"][1]), t["sp"], "checked get()"))
            else:
                # `.get(i).is_some_and(|&n| j < n)` with a rejecting `false`: None rejects, and so does the predicate
                for x in some_and(b):
                    out.append((body.trace_operand(t["args"][1]), t["sp"], "checked get()"))
                    item = {(r, tuple(p) + ("[]",)) for (r, p) in body.trace_operand(t["args"][0])}
                    predicate(body.term(x)["args"][1], item, "is_some_and")
        elif _depth < 2 and ctx.has_fn(mir.callee(t) or "") and ctx.fns[mir.callee(t)]["kind"] != "closure" and "Result<" in t["dest"]["ty"] and rejecting(dest, b):
            # a checking helper of the same crate (`check_reg_is_set(&table, i, x)?`): what it examines of its parameters is examined here
            for (tr, sp, how) in examined_origins(ctx, mir.callee(t), _depth + 1):
                lifted = set()
                for (r, p) in tr:
                    if r[0] == "arg" and r[1] - 1 < len(t["args"]):
                        for (r2, p2) in body.trace_operand(t["args"][r[1] - 1]):
                            lifted.add((r2, tuple(p2) + tuple(p)))
                if lifted:
                    out.append((lifted, sp, how if not how.startswith("lookup") else how + " (in %s)" % mir.last_seg(mir.callee(t))))
        elif dec in SEARCH_ADAPTORS and len(t["args"]) == 2 and rejecting(dest, b):
            # `xs.iter().find(|&&o| o >= n)` / any / all / position with a rejecting edge on the result
            clos = t["args"][1]
            if clos["k"] in ("copy", "move"):
                cids = [body.blocks[r[1]]["stmts"][r[2]]["rv"].get("closure") for (r, p) in body.trace(clos["place"], through={}) if r[0] == "agg"]
                for cid in cids:
                    if cid:
                        predicate(clos, closure_item_origins(ctx, body, cid), seg)
    return out


def _unop_of_call(body, r, call_bb):
    """root ('rv', 'unop', bb, idx): is it `!(*index_result)` of the call in call_bb?"""
    if r[1] != "unop":
        return False
    st = body.blocks[r[2]]["stmts"][r[3]]
    x = st["rv"].get("x")
    if not x or x["k"] not in ("copy", "move"):
        return False
    return any(rr[0] == "call" and rr[1] == call_bb for (rr, p) in body.trace(x["place"], through=protocol.DEREF_ONLY))


def covered(req_path, exam_paths):
    rp = norm(req_path)
    for ep in exam_paths:
        e = norm(ep)
        n = min(len(rp), len(e))
        if n and rp[:n] == e[:n]:
            return True
    return False


def rule_g1(ctx):
    res = RuleResult("G1", "validate examines, with a rejecting edge, every circuit field that eval uses as an index")
    kinds = [
        ("register circuit", "register_circuit::Circuit::eval", "register_circuit::Circuit::validate", None),
        ("SSA circuit", "circuit::Circuit::eval", "circuit::Circuit::validate", "circuit::Circuit::wires"),
    ]
    for label, ev, va, via_iter in kinds:
        req = index_origins(ctx, ev)
        exa = examined_origins(ctx, va)
        exam_self = set()
        exam_iter = set()
        for (tr, sp, how) in exa:
            if how.startswith("lookup"):
                continue  # a bitmap lookup is itself an index position, not a range check (see G2 / below)
            for (r, p) in tr:
                if r == SELF1:
                    exam_self.add(tuple(p))
                elif r[0] == "iter" and via_iter and r[2] == via_iter:
                    exam_iter.add(tuple(p))
        # validate's own lookups must be range-checked first (else validate panics instead of rejecting)
        vb = ctx.body(va)
        for b, t in vb.calls():
            if t["func"].get("declared") in INDEX_CALLS and len(t["args"]) == 2:
                for (r, p) in vb.trace_operand(t["args"][1]):
                    if r == SELF1 and p:
                        if covered(p, exam_self):
                            res.ok({"circuit": label, "validate_lookup": ".".join(norm(p)), "verdict": "range-checked"})
                        else:
                            res.bad(Finding("G1", va, "%s: validate indexes with unchecked %s" % (label, ".".join(norm(p))),
                                            "validate itself indexes with a circuit field it has not range-checked", t["sp"]))
        required = {}
        for (tr, sp, how) in req:
            for (r, p) in tr:
                if r == SELF1 and p:
                    required.setdefault(norm(p), sp)
        if len(required) < 5:
            raise AnchorMissing("G1: eval of the %s uses only %d circuit fields as indices (expected operands and outputs)" % (label, len(required)))
        for rp, sp in sorted(required.items()):
            ok = covered(rp, exam_self)
            if not ok and via_iter and rp and rp[0] == "gates":
                # the SSA validator walks Circuit::wires(): a Wire has the operands of the Gate of the same variant (G1b)
                ok = covered(rp[1:], exam_iter)
            key = ".".join(rp)
            if ok:
                res.ok({"circuit": label, "field": key, "verdict": "indexed by eval, examined by validate"})
            else:
                res.bad(Finding("G1", va, "%s: %s unchecked" % (label, key),
                                "eval uses %s as an index but validate never compares or bounds-checks it with a rejecting edge" % key, sp))
    # G1b: wires() maps each gate to the wire of the same variant with the same operands
    wf = ctx.fn("circuit::Circuit::wires")
    done = 0
    for c in sorted(ctx.cg.closures_of.get(wf["id"], ())):
        cb = ctx.body(c)
        for blk in cb.blocks:
            for st in blk["stmts"]:
                if st["k"] == "assign" and st["rv"]["k"] == "aggregate" and st["rv"].get("adt") == "circuit::Wire" and st["rv"]["variant"] in ("Xor", "And", "Not"):
                    v = st["rv"]["variant"]
                    for i, op in enumerate(st["rv"]["ops"]):
                        tr = cb.trace_operand(op)
                        good = all(("as " + v) in p and p[-1] == str(i) for (r, p) in tr) and tr
                        done += 1
                        if good:
                            res.ok({"function": "Circuit::wires", "wire": "%s.%d" % (v, i), "verdict": "copied from Gate::%s.%d" % (v, i)})
                        else:
                            res.bad(Finding("G1", wf["id"], "wires(): Wire::%s.%d" % (v, i), "operand %d of Wire::%s is not operand %d of Gate::%s" % (i, v, i, v), st["sp"]))
    if (done < 5) and not res.findings:
        raise AnchorMissing("G1b: Circuit::wires does not build Wire::{Xor,And,Not} from the gates (found %d operands)" % done)
    return res


def rule_g5(ctx):
    """No index position in eval is computed from the supplied inputs: validation knows nothing about them."""
    res = RuleResult("G5", "eval indexes circuit-sized storage only with circuit fields and bounded counters, never with a size taken from the inputs")
    for ev in ("register_circuit::Circuit::eval", "circuit::Circuit::eval"):
        ids = [ev] + sorted(ctx.cg.closures_of.get(ev, ()))
        n = 0
        for fid in ids:
            body = ctx.body(fid)
            inputs_args = [l for l in range(1, body.arg_count + 1) if "[std::vec::Vec<bool>]" in body.locals[l]["ty"] or "Vec<std::vec::Vec<bool>>" in body.locals[l]["ty"]]
            if fid == ev and not inputs_args:
                raise AnchorMissing("G5: %s has no inputs parameter" % ev)
            for b, t in body.calls():
                if t["func"].get("declared") not in INDEX_CALLS or len(t["args"]) != 2 or body.blocks[b]["cleanup"]:
                    continue
                n += 1
                # the indexed collection: storage of the circuit's size (not the inputs themselves)
                coll = body.deep_sources(t["args"][0], 2)
                on_inputs = any(r in [("arg", a) for a in inputs_args] for (r, p) in coll)
                if on_inputs:
                    continue
                key = body.deep_sources(t["args"][1], 4)
                if any(r in [("arg", a) for a in inputs_args] for (r, p) in key):
                    res.bad(Finding("G5", fid, "index into circuit-sized storage computed from the inputs",
                                    "this position / range is derived from the supplied inputs (their lengths); validation relates the circuit's fields to each other, not to the inputs, "
                                    "so nothing bounds it by the size of the indexed vector", t["sp"]))
        if not any(x.fn in ids for x in res.findings):
            res.ok({"evaluator": ev, "index_sites": n, "verdict": "no index position derives from the inputs argument"})
    return res


def rule_g6(ctx):
    """The storage eval indexes is as large as the bound validate checks indices against."""
    res = RuleResult("G6", "eval allocates its register / wire storage with exactly the size validation bounds the indices by")
    # register circuit: regs = vec![false; self.max_reg_count]
    for ev, want, label in (("register_circuit::Circuit::eval", {"max_reg_count"}, "register file"),
                            ("circuit::Circuit::eval", {"gates", "input_gates"}, "wire values")):
        body = ctx.body(ev)
        allocs = []
        for b, t in body.calls():
            if mir.last_seg(mir.callee(t) or "") == "from_elem" and not body.blocks[b]["cleanup"]:
                # is this vector indexed with circuit fields?
                root = ("call", b, mir.callee(t))
                used = any(t2["func"].get("declared") in INDEX_CALLS and any(r == root for (r, p) in body.trace_operand(t2["args"][0])) for _, t2 in body.calls())
                if used:
                    allocs.append((b, t))
        if len(allocs) != 1:
            raise AnchorMissing("G6: expected one indexed storage vector in %s, found %d" % (ev, len(allocs)))
        b, t = allocs[0]
        direct = body.trace_operand(t["args"][1])
        deep = set(body.deep_sources(t["args"][1], 5))
        # loop-carried sums (`input_len += p`): add what is accumulated
        for (r, p) in list(deep):
            if r[0] == "rv" and r[1] == "binop":
                rv = body.blocks[r[2]]["stmts"][r[3]]["rv"]
                for o in (rv.get("l"), rv.get("r")):
                    l = mir.base_local(body, o) if isinstance(o, dict) else None
                    if l is not None:
                        for (ab, other) in mir.add_defs(body, l):
                            deep |= set(body.deep_sources(other, 4))
        fields = {p[0] for (r, p) in deep if r == SELF1 and p}
        calls = {mir.last_seg(r[2] or "") for (r, p) in deep if r[0] == "call"} - {"len", "iter", "into_iter", "next", "deref"}
        if fields == want and not calls and (len(want) > 1 or all(r == SELF1 and tuple(p) == ("max_reg_count",) for (r, p) in direct)):
            res.ok({"evaluator": ev, "storage": label, "verdict": "length = %s" % " + ".join(sorted(want))})
        else:
            res.bad(Finding("G6", ev, "%s is not sized by %s" % (label, " + ".join(sorted(want))),
                            "validation bounds every index by %s; eval allocates the storage from %s%s, so a validated index can lie outside it" % (
                                " + ".join(sorted(want)), sorted(fields), (" through " + ", ".join(sorted(calls))) if calls else ""), t["sp"]))
    return res


def rule_g7(ctx):
    """A checked field indexes the storage it was checked against: registers index the register file, party / bit numbers the inputs."""
    res = RuleResult("G7", "register-valued fields index only the register file, Input.party / Input.input only the inputs")
    ev = "register_circuit::Circuit::eval"
    ids = [ev] + sorted(ctx.cg.closures_of.get(ev, ()))
    n = 0
    for fid in ids:
        body = ctx.body(fid)
        inputs_args = [l for l in range(1, body.arg_count + 1) if "[std::vec::Vec<bool>]" in body.locals[l]["ty"]]
        for b, t in body.calls():
            if t["func"].get("declared") not in INDEX_CALLS or len(t["args"]) != 2 or body.blocks[b]["cleanup"]:
                continue
            keys = [(r, tuple(p)) for (r, p) in body.trace_operand(t["args"][1]) if r == SELF1 and p]
            if not keys:
                continue
            n += 1
            coll = body.trace_operand(t["args"][0])
            coll_deep = body.deep_sources(t["args"][0], 3)
            is_regfile = any(r[0] == "call" and mir.last_seg(r[2] or "") == "from_elem" and
                             any(rr == SELF1 and tuple(pp) == ("max_reg_count",) for (rr, pp) in body.trace_operand(body.term(r[1])["args"][1])) for (r, p) in coll)
            on_inputs = any(r in [("arg", a) for a in inputs_args] for (r, p) in coll) and not any(r[0] == "call" and mir.last_seg(r[2] or "") in ("concat", "flatten", "collect") for (r, p) in coll_deep)
            for (r, p) in keys:
                kind = "input position" if p[-1] in ("party", "input") else "register"
                ok = (kind == "register" and is_regfile) or (kind == "input position" and on_inputs)
                if ok:
                    res.ok({"site": "line %d" % t["sp"][1], "field": ".".join(norm(p)), "verdict": "%s indexes %s" % (kind, "the register file" if kind == "register" else "the inputs")})
                else:
                    res.bad(Finding("G7", fid, "%s %s indexes the wrong storage" % (kind, ".".join(norm(p))),
                                    "validation bounds this field by the size of %s, but eval uses it to index something else: the bound says nothing about that vector" % (
                                        "the register file (max_reg_count)" if kind == "register" else "the inputs (parties / bits per party)"), t["sp"]))
    if n < 6 and not res.findings:
        raise AnchorMissing("G7: expected the index sites of the register evaluator (7 on the pinned tree), found %d" % n)
    return res


def rule_g2(ctx):
    res = RuleResult("G2", "defined before use: register operands looked up in the written-set before the destination is marked; SSA operands compared with the running index")
    va = "register_circuit::Circuit::validate"
    body = ctx.body(va)
    exa = examined_origins(ctx, va)
    looked = set()
    lookup_blocks = []
    for (tr, sp, how) in exa:
        if how.startswith("lookup in") and "bool" in how:
            for (r, p) in tr:
                if r == SELF1:
                    looked.add(norm(p))
    # operands eval reads (not the destination)
    req = index_origins(ctx, "register_circuit::Circuit::eval")
    reads = set()
    for (tr, sp, how) in req:
        if "index_mut" in how:
            continue
        for (r, p) in tr:
            if r == SELF1 and p and (("op" in p and "as Input" not in p) or "output_regs" in p):
                reads.add(norm(p))
    if len(reads) < 5:
        raise AnchorMissing("G2: eval reads only %d operand registers" % len(reads))
    for rp in sorted(reads):
        if covered(rp, looked):
            res.ok({"operand": ".".join(rp), "verdict": "looked up in the written-registers bitmap with a rejecting edge"})
        else:
            res.bad(Finding("G2", va, "operand %s not checked for being written" % ".".join(rp),
                            "eval reads this register but validate does not require it to have been written before", body.fn["sp"]))
    # the bitmap is updated for inst.out, after the operand lookups of the same iteration
    marks = []
    for b, t in body.calls():
        if t["func"].get("declared") == "std::ops::IndexMut::index_mut" and "bool" in t["args"][0]["place"]["ty"]:
            if any(r == SELF1 and norm(p)[-1:] == ("out",) for (r, p) in body.trace_operand(t["args"][1])):
                marks.append(b)
    if not marks:
        res.bad(Finding("G2", va, "destination never marked", "validate never records inst.out as written", body.fn["sp"]))
    else:
        lookups = [b for b, t in body.calls() if t["func"].get("declared") == "std::ops::Index::index" and "bool" in t["args"][0]["place"]["ty"]]
        bad = False
        for m in marks:
            for l in lookups:
                # within one iteration the mark must not precede a lookup: no path mark -> lookup that avoids the loop header
                lp = [x for x in body.loops() if m in x["body"] and l in x["body"]]
                if not lp:
                    continue
                hdr = min(lp, key=lambda x: len(x["body"]))["header"]
                if body.path(m, [l], blocked={hdr}) is not None and m != l:
                    bad = True
                    res.bad(Finding("G2", va, "destination marked before operands are checked", "an instruction could read its own (unwritten) destination register", body.term(m)["sp"]))
        if not bad:
            res.ok({"verdict": "register_set[inst.out] = true after the operand lookups", "lookups": len(lookups)})
    # SSA: operands compared against the enumerate index
    vs = "circuit::Circuit::validate"
    sb = ctx.body(vs)
    n = 0
    for b, blk in enumerate(sb.blocks):
        for st in blk["stmts"]:
            if st["k"] == "assign" and st["rv"]["k"] == "binop" and st["rv"]["op"] in CMP_OPS:
                l = sb.trace_operand(st["rv"]["l"])
                r = sb.trace_operand(st["rv"]["r"])
                wires = [x for x in (l | r) if x[0][0] == "iter" and any(e.startswith("as ") for e in x[1])]
                if not wires:
                    continue
                n += 1
                other = r if any(x in l for x in wires) else l
                if any(x[0][0] == "index" for x in other):
                    res.ok({"function": vs, "operand": ".".join(wires[0][1]), "verdict": "compared with the running wire index"})
                else:
                    res.bad(Finding("G2", vs, "operand %s compared with something else" % ".".join(wires[0][1]),
                                    "a gate operand is not compared with the index of the gate itself: forward references pass validation", st["sp"]))
    if (n < 1) and not res.findings:
        raise AnchorMissing("G2: SSA validate compares no gate operand at all")
    return res


def rule_g3(ctx):
    res = RuleResult("G3", "party count and per-party bit counts are compared before the inputs are indexed")
    for fid, inputs_arg in (("register_circuit::Circuit::eval", 2), ("circuit::Circuit::eval", 2)):
        body = ctx.body(fid)
        # comparisons whose operands are len(inputs) / len(self.input_*), and inputs[p].len() / item of self.input_*
        party_cmp = []
        bits_cmp = []
        for b, blk in enumerate(body.blocks):
            if blk["cleanup"]:
                continue
            for st in blk["stmts"]:
                if st["k"] == "assign" and st["rv"]["k"] == "binop" and st["rv"]["op"] in ("Ne", "Eq"):
                    srcs = body.deep_sources(st["rv"]["l"], 6) | body.deep_sources(st["rv"]["r"], 6)
                    has_inputs = any(r == ("arg", inputs_arg) for (r, p) in srcs)
                    has_decl = any(r == SELF1 and p and p[0] in ("input_regs", "input_gates") for (r, p) in srcs)
                    per_party = any(r == SELF1 and p and p[0] in ("input_regs", "input_gates") and any(x.startswith("[") for x in p) for (r, p) in srcs)
                    # ... also when the declared count is read with an index expression `self.input_regs[p]` (Vec: a call of Index::index)
                    for (r, p) in srcs:
                        if r[0] == "call" and mir.last_seg(str(r[2])) in ("index", "get", "get_unchecked") and \
                                any(r2 == SELF1 and p2 and p2[0] in ("input_regs", "input_gates") for (r2, p2) in body.deep_sources(body.term(r[1])["args"][0], 3)):
                            per_party = True
                    if has_inputs and has_decl:
                        (bits_cmp if per_party else party_cmp).append(b)
        # first index into inputs
        idx_blocks = []
        for b, blk in enumerate(body.blocks):
            if blk["cleanup"]:
                continue
            for st in blk["stmts"]:
                if st["k"] != "assign":
                    continue
                pls = [st["rv"].get("place")] + [st["rv"].get(k, {}).get("place") if isinstance(st["rv"].get(k), dict) else None for k in ("op",)]
                for pl in pls:
                    if pl and any(e["k"] == "index" for e in pl["p"]) and any(r == ("arg", inputs_arg) for (r, p) in body.trace({"l": pl["l"], "p": []})):
                        idx_blocks.append(b)
        if not party_cmp:
            res.bad(Finding("G3", fid, "no party-count guard", "eval does not compare inputs.len() with the number of parties", body.fn["sp"]))
        else:
            late = [b for b in idx_blocks if not any(body.dominates(c, b) for c in party_cmp)]
            if late:
                res.bad(Finding("G3", fid, "inputs indexed before the party-count guard", "an index into `inputs` is not dominated by the party-count comparison", body.blocks[late[0]]["stmts"][0]["sp"] if body.blocks[late[0]]["stmts"] else body.fn["sp"]))
            else:
                res.ok({"function": fid, "verdict": "party-count comparison dominates %d index sites" % len(idx_blocks)})
        if not bits_cmp:
            res.bad(Finding("G3", fid, "no bit-count guard", "eval does not compare each party's input length with the declared bits", body.fn["sp"]))
        else:
            res.ok({"function": fid, "verdict": "per-party bit count compared"})
    run = ctx.find_fn("run", "eval::Evaluator")
    rb = ctx.body(run["id"])
    evals = [b for b, t in rb.calls() if mir.last_seg(mir.callee(t) or "") == "eval"]
    if not evals:
        raise AnchorMissing("G3: Evaluator::run does not call eval")
    errs = set()
    for b, blk in enumerate(rb.blocks):
        for st in blk["stmts"]:
            if st["k"] == "assign" and st["rv"]["k"] == "aggregate" and st["rv"].get("adt") == "eval::EvalError":
                errs.add(st["rv"]["variant"])
    for v in ("UnexpectedNumberOfParties", "UnexpectedNumberOfInputsFromParty"):
        if v in errs:
            res.ok({"function": run["id"], "returns": v})
        else:
            res.bad(Finding("G3", run["id"], "no %s" % v, "Evaluator::run never returns EvalError::%s" % v, run["sp"]))
    # both error returns lie before eval: eval is not reachable from entry without passing a comparison
    cmps = [b for b, blk in enumerate(rb.blocks) for st in blk["stmts"] if st["k"] == "assign" and st["rv"]["k"] == "binop" and st["rv"]["op"] in ("Ne", "Eq")]
    if len(cmps) >= 2 and all(any(rb.dominates(c, e) for c in cmps) for e in evals):
        res.ok({"function": run["id"], "verdict": "length comparisons dominate the call to eval"})
    else:
        res.bad(Finding("G3", run["id"], "eval not guarded", "the call to eval is not dominated by the length comparisons", run["sp"]))
    return res


def rule_g4(ctx):
    res = RuleResult("G4", "all comparisons of circuit fields against one bound use the same comparator (sibling consistency)")
    for va in ("register_circuit::Circuit::validate", "circuit::Circuit::validate"):
        body = ctx.body(va)
        by_bound = {}
        for b, blk in enumerate(body.blocks):
            if blk["cleanup"]:
                continue
            items = []
            for st in blk["stmts"]:
                if st["k"] == "assign" and st["rv"]["k"] == "binop" and st["rv"]["op"] in ("Lt", "Le", "Gt", "Ge"):
                    items.append((st["rv"]["op"], st["rv"]["l"], st["rv"]["r"], st["sp"]))
            t = blk["term"]
            if t and t["k"] == "call" and t["func"].get("declared") in ("std::cmp::PartialOrd::lt", "std::cmp::PartialOrd::le", "std::cmp::PartialOrd::gt", "std::cmp::PartialOrd::ge"):
                opn = {"lt": "Lt", "le": "Le", "gt": "Gt", "ge": "Ge"}[mir.last_seg(t["func"]["declared"])]
                items.append((opn, t["args"][0], t["args"][1], t["sp"]))
            for opn, l, r, sp in items:
                lk = frozenset((rr, tuple(p)) for (rr, p) in body.deep_sources(l, 3))
                rk = frozenset((rr, tuple(p)) for (rr, p) in body.deep_sources(r, 3))

                def is_field(k):
                    return any((rr == SELF1 and p and p[0] in ("insts", "gates", "output_regs", "output_gates")) or rr[0] == "iter" for (rr, p) in k)

                def bound_of(k):
                    return frozenset((str(rr), p) for (rr, p) in k if not ((rr == SELF1 and p and p[0] in ("insts", "gates", "output_regs", "output_gates")) or rr[0] in ("iter", "index", "call") and False))
                if is_field(lk) and not is_field(rk):
                    by_bound.setdefault(bound_of(rk), []).append((opn, sp))
                elif is_field(rk) and not is_field(lk):
                    flip = {"Lt": "Gt", "Le": "Ge", "Gt": "Lt", "Ge": "Le"}[opn]
                    by_bound.setdefault(bound_of(lk), []).append((flip, sp))
        for bound, uses in by_bound.items():
            ops = {o for o, _ in uses}
            if len(uses) < 2:
                continue
            if len(ops) == 1:
                res.ok({"function": va, "comparisons_against_one_bound": len(uses), "operator": next(iter(ops))})
            else:
                # report at the minority site
                from collections import Counter
                c = Counter(o for o, _ in uses)
                minority = min(c, key=lambda o: c[o])
                sp = [s_ for o, s_ in uses if o == minority][0]
                res.bad(Finding("G4", va, "bound compared with %s in one place and %s elsewhere" % (minority, "/".join(sorted(ops - {minority}))),
                                "circuit fields are compared against the same bound with different comparators: one of the sites is off by one", sp))
    return res


def rule_g8(ctx):
    """`max = n.saturating_sub(1); if x > max { reject }` is the bound `x < n` only for n > 0: for n = 0 the largest allowed index
    saturates to 0 and index 0 passes although nothing can be indexed.  Such a bound needs a rejecting `n == 0` test before it."""
    res = RuleResult("G8", "an upper bound written as n.saturating_sub(1) is used only after n == 0 was rejected")
    n = 0
    for va in ("register_circuit::Circuit::validate", "circuit::Circuit::validate"):
        body = ctx.body(va)
        for b, t in body.calls():
            if mir.last_seg(mir.callee(t) or "") != "saturating_sub" or len(t["args"]) != 2 or t["args"][1].get("val") != 1 or body.blocks[b]["cleanup"]:
                continue
            n += 1
            nsrc = {(r, tuple(p)) for (r, p) in body.trace_operand(t["args"][0])}
            # rejecting `n == 0` tests
            guards = []
            for gb, blk in enumerate(body.blocks):
                for st in blk["stmts"]:
                    if st["k"] == "assign" and st["rv"]["k"] == "binop" and st["rv"]["op"] in ("Eq", "Ne", "Lt", "Le", "Gt", "Ge"):
                        for side, other in (("l", "r"), ("r", "l")):
                            if st["rv"][other]["k"] == "const" and st["rv"][other].get("val") in (0, 1) and st["rv"][side]["k"] in ("copy", "move") and \
                                    {(r, tuple(p)) for (r, p) in body.trace_operand(st["rv"][side])} == nsrc:
                                d = st["place"]["l"]
                                for x in range(body.n):
                                    tt = body.term(x)
                                    if tt and tt["k"] == "switch" and tt["discr"]["k"] in ("copy", "move") and tt["discr"]["place"]["l"] == d and any(leads_to_err(body, s_) for s_ in body.succs(x)):
                                        guards.append(gb)
            # uses of the saturated bound in comparisons
            uses = []
            for ub, blk in enumerate(body.blocks):
                if blk["cleanup"]:
                    continue
                for st in blk["stmts"]:
                    if st["k"] == "assign" and st["rv"]["k"] == "binop" and st["rv"]["op"] in CMP_OPS:
                        if any(r[:2] == ("call", b) for side in ("l", "r") for (r, p) in body.deep_sources(st["rv"][side], 4, through={})):
                            uses.append((ub, st["sp"]))
                ut = blk["term"]
                if ut and ut["k"] == "call" and (ut["func"].get("declared") or "") in CMP_CALLS:
                    if any(r[:2] == ("call", b) for a in ut["args"] for (r, p) in body.deep_sources(a, 4, through={})):
                        uses.append((ub, ut["sp"]))
            for ub, sp in uses:
                if any(body.dominates(g, ub) for g in guards):
                    res.ok({"function": va, "bound": "line %d" % t["sp"][1], "use": "line %d" % sp[1], "verdict": "the empty case is rejected before the saturated bound is used"})
                else:
                    res.bad(Finding("G8", va, "saturated bound used without rejecting the empty case",
                                    "the bound is n.saturating_sub(1) and nothing rejects n == 0 first: for n = 0 the index 0 passes validation (`Input { party: p, input: 0 }` for a party "
                                    "without bits), and eval indexes an empty vector", sp))
    if not n:
        res.ok({"verdict": "no bound is written as n.saturating_sub(1)"})
    return res


def run(ctx):
    return ctx.run_rules([rule_g1, rule_g2, rule_g3, rule_g4, rule_g5, rule_g6, rule_g7, rule_g8])
